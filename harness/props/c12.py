"""C12 — infrastructure errors are retried, then contained per object, never fatal.

Ties:
 (T) `errors.check_response`'s status→class chain and `api.request`'s retry tuple are re-extracted
     from the AST on every run and proved equal to the model's tables (Kopf/Tie/C12.lean).
 (D) the REAL `api.request` (with an explicit context: the function under `@authenticated`) against
     scripted per-attempt faults on a duck-typed session, under virtual time: attempt timestamps
     (exact ticks), the arguments of every back-off sleep and the final result = the Lean model's.
 (D) the REAL `throttlers.throttled` on a real `Throttler`, scripted block outcomes / wake-ups /
     delay configurations under virtual time = the Lean step function.
 (A) the REAL `credentials.Vault` + `auth.authenticated` + `api.request` + the REAL
     `activities.authenticator` with scripted login handlers, 1–6 concurrent requesters, server-side
     token revocations: one label per lock-protected code segment; the Lean LTS must accept the
     trace and agree on `_current` / `_invalid` / `_ready` after every label.
 (D, part S) the REAL `kopf.operator()` against the fake API server (harness.sim, nothing inside kopf wrapped):
     scripted faults on the operator's own PATCH requests of some objects; the PATCH schedule of every faulty
     object (attempts of every cycle, exact ticks; the instant it is processed again after a pause) = the Lean
     composition request-model ∘ throttler-model (`processCycles`); the oracle judges retries, pauses, recovery,
     the other objects and the operator's survival from the server's request log and the handler calls.
The Python oracle is written from the property text over the observations (attempt log of the fake
session, which credential every attempt carried, the activity runs) and never looks at the model.
"""
from __future__ import annotations

import ast
import asyncio
import collections
import itertools
import json
import logging
import multiprocessing
import os
import random
import sys
from typing import Any

from .. import leanio, pyextract
from ..core import Ctx, ExtractError

ID = "C12"
LEVEL = "proof"
ENGINES = ["lean-model", "pyextract", "purediff", "kopfsim"]
STRENGTH = "partial"     # several clauses hold only under a named guard or rest on oracle/tie only (see LEVEL_TEXT)
LEVEL_TEXT = (
    "Lean theorems for ALL fault scripts / backoff streams / delay configurations / label lists of any number of "
    "requesters; STRENGTH partial. UNGUARDED: attempts_bound (one pass of the function under @authenticated), "
    "gap_ge_backoff (guard = exactly the documented enforce_retry_after override), gap_ge_retry_after and "
    "gap_ge_requested (every retried status - 429, 5xx, 403 - against what the server SENT: fractions, any spelling, "
    "HTTP-date, details; F4/F5/F7 repaired), requested_rounded_up, success_stops, fatal_4xx_immediate, "
    "transient_retried_then_escalates, transient_http_iff (whatever the body: F6 repaired), retry_after_http_date + "
    "http_date_delay_exact (F1), unparsable_retry_after_uses_backoff (F1/F2/F6: garbage/overflow header, non-dict body, "
    "unusable details -> the configured backoff, no foreign exception); throttler (every configuration, a scalar "
    "being the one-item list: scalar_delays_is_one_item_list, F8 repaired): delays_follow_config (incl. the served "
    "pause), empty_config_never_throttles, success_resets, swallowed, recovers_after_errors_stop, paused_while_active, "
    "interrupted_pause_is_kept; the composition in a processing cycle whose API call escalates (request model ∘ throttler "
    "model, every script / configuration / throttler state): escalation_contained (nothing reaches the worker), "
    "escalation_pauses_object (delays[min(p,last)] counted from the escalation, growing per consecutive error), "
    "escalation_pause_interrupted_is_kept, paused_object_makes_no_request, recovers_and_resets; patching.patch_obj between "
    "the API client and the throttler (up to four api.patch calls - merge/JSON-patch of the object / of its /status - and its "
    "own except clauses): patch_escalation_pauses_object (an escalation of ANY of the calls pauses the object unless it is a "
    "404 or a 422 answered to a JSON-patch), merge_patch_4xx_pauses_object ('other 4xx escalate at once' incl. HTTP 422 to a "
    "merge-patch: one attempt, pause), gone_or_conflict_is_no_error, any_422_swallowed_witness (one except-422 around all four "
    "calls: the property fails); vault LTS: single_reauth, single_reauth_when_logins_deliver, reauth_possible, "
    "no_impossible_state. GUARDED (_partial, with proved negation witnesses replayed from the corpus and open finding "
    "F3): invalid_not_reused_partial and all_proceed_fresh_partial (guard: last 3 invalidations of the SAME key with "
    "the SAME priority). NEGATIVE (open finding F9): body_read_failure_not_retried_witness. ORACLE-ONLY clauses (no "
    "theorem with temporal content): 'does not stop the operator or delay other objects' - checked by part C on the "
    "REAL queueing.watcher/worker + process_resource_event (2-4 objects, failing index/event filters, scalar/empty/list "
    "delays, worker_limit None/1/2): holds (F8, F10 repaired) except under worker_limit (open finding F11, by design of "
    "that setting) - and by part S on the whole REAL operator against the fake API server (2-3 objects, 1-2 of them with "
    "scripted faults on their own PATCHes - whichever requests the real patching.patch_obj sends: merge-patch of the object, "
    "merge-patch of /status as a subresource, JSON-patch of a finalizer -: 5xx/403/429 with Retry-After, connection errors, "
    "timeouts, fatal 4xx incl. 422 (an 'other 4xx' unless answered to a JSON-patch) and 404): every "
    "retry gap, every pause after an escalation (lower bound, growth per consecutive error, reset by a success), the "
    "reaction to every change of a faulty object once it is free again, the healthy objects' handling and the operator's "
    "survival are judged. 'processing recovers once errors stop' is per throttler cycle (a NEW event of the object is "
    "needed: the failed one is dropped). Tie: status->class chain, >=400 guard and retry tuple extracted from the AST and proved "
    "equal; the real api.request / api.get / throttled / Vault+authenticated+authenticator run against the models "
    "(differential with exact ticks; product run of concurrent objects; trace acceptance with vault-state snapshots; the whole "
    "operator's PATCH schedule against processCyclesP = patch_obj model ∘ request model ∘ throttler model). The "
    "structure of the retry loop, of throttled() and of the Vault methods is tied by those runs (sampled), not by translation.")
TIE = ("T (check_response chain + retry tuple: AST → Lean, proved equal) + D (real api.request/api.get and real throttled "
       "under virtual time, exact tick comparison, incl. the N-object product run) + A (real Vault/authenticated/"
       "authenticator: labelled segments accepted by the Lean LTS with equal vault state after every label) + D (part S: "
       "the real operator's API calls per processing cycle (kind of request, attempts) and its resumption after a pause = "
       "patch_obj model ∘ request model ∘ throttler model, "
       "exact ticks); part C (real watcher/worker/process_resource_event) is oracle-only")
THEOREMS = [("Kopf.Props.C12", "Kopf.C12." + n) for n in [
    "attempts_bound", "gap_ge_backoff", "gap_ge_retry_after", "gap_ge_requested", "requested_rounded_up",
    "fatal_4xx_immediate", "transient_retried_then_escalates", "success_stops", "transient_http_iff",
    "retry_after_http_date", "http_date_delay_exact", "unparsable_retry_after_uses_backoff",
    "body_read_failure_not_retried_witness",
    "delays_follow_config", "empty_config_never_throttles", "success_resets", "swallowed",
    "scalar_delays_is_one_item_list", "recovers_after_errors_stop", "paused_while_active",
    "interrupted_pause_is_kept",
    "escalation_contained", "escalation_pauses_object", "escalation_pause_interrupted_is_kept",
    "paused_object_makes_no_request", "recovers_and_resets",
    "patch_escalation_pauses_object", "merge_patch_4xx_pauses_object", "gone_or_conflict_is_no_error",
    "any_422_swallowed_witness",
    "single_reauth", "single_reauth_when_logins_deliver", "reauth_possible", "all_proceed_fresh_partial",
    "invalid_not_reused_partial",
    "invalid_reused_beyond_history_witness", "invalid_reused_under_other_key_witness",
    "invalid_reused_with_other_priority_witness", "no_impossible_state",
]]
TIE_THEOREMS = [("Kopf.Tie.C12", "Kopf.C12.Tie." + n) for n in [
    "classify_eq", "raises_eq", "retryable_eq"]]
RULE = (
    "request: a backoff configuration (empty / scalar / list / tuple / re-iterable / infinite generator) x "
    "enforce_retry_after x a script of 0-8 attempts drawn from {2xx/3xx, 401, 403, 429 with Retry-After as header "
    "and/or details.retryAfterSeconds placed below/at/above the backoff, other 4xx, 5xx, >=600, connection errors, "
    "timeouts, SSL close-notify, closed session, foreign exceptions} with per-attempt latency; distinct = "
    "(config kind, verdict sequence, Retry-After relation, outcome). throttle: a delay configuration (empty / "
    "scalar / list / tuple / re-iterable / infinite) x 1-10 cycles of {success, error, foreign error, "
    "BaseException} with wake-ups into either sleep, gaps placed before/at/after the deadline, 1-3 objects "
    "concurrently; distinct = (config kind, outcome/should_run sequence). vault: 0-2 login keys with priorities, "
    "1-6 concurrent requesters x 1-3 calls, server-side revocation times, login scripts returning fresh / "
    "repeated-invalid / the same value with another priority / another key's credential / no credentials after a delay; "
    "distinct = the label-kind sequence. Retry-After values: integral, fractional, HTTP-date, garbage, overflow, "
    "negative, under other spellings of the header name, fractional details; error bodies: non-dict JSON, details a "
    "string/list, retryAfterSeconds 'soon'/NaN/Infinity/[5]; Retry-After on 5xx/403 by header and details; 6% through "
    "api.get with the body read failing. contain: 2-4 objects on the real watcher, failing index / event filters, "
    "scalar / empty / list error_delays, worker_limit None/1/2, later events at scripted times. request also: every method "
    "(get/post/patch/delete/put/head), content type (merge-, json-, strategic-merge-patch, json, none) and URL; through "
    "api.get/post/patch/delete; 8% of the Retry-After values / configured backoffs / delays are minutes to a day (31 s ... 86400 s), "
    "10% of the configurations have 9-20 items with runs of 10-24 transient failures / consecutive errors; HTTP-dates as GMT / +0000 / -0000 (naive) / east / west of Greenwich / without weekday. vault "
    "also: 403/429 answers, logins returning the credential handed out 2/3/4 logins ago (the edge of the vault's memory). "
    "operator (part S): 2-3 objects (1-2 faulty), error_backoffs of 0-3 items or a scalar, error_delays list/scalar/empty, "
    "enforce_retry_after, per faulty object 1-4 scripted API calls that exhaust the retries / hit a fatal 4xx / recover, "
    "2-7 changes per object placed into the retries and the pauses, one long after the last fault; the shape of the cycle's API "
    "work (67%: handler results for the status stanza / /status a subresource / a deletion handler, i.e. a finalizer JSON-patch; "
    "an on.event marker handler = one invocation per processing), 0-3 requests served before the scripted faults so that they fall "
    "on the later requests of patch_obj; fatal answers incl. 422 (20%+), 404, 402/413/418/451. A case is non-trivial "
    "when it leaves the straight path (a retry, an escalation, a throttling activation, an invalidation).")
TRUSTED = [
    "pyextract vocabulary for errors.check_response (response.status comparisons) and the except-tuple of api.request",
    "the duck-typed session/response (status, headers, json(), text(), raise_for_status(), close()) stands for aiohttp; "
    "no sockets, so virtual time is sound",
    "asyncio.Condition/Lock semantics: one label per lock-protected segment (the guard proxy delegates to a real Condition)",
    "SimLoop virtual time (all times dyadic, 1 tick = 2**-10 s)",
    "label instrumentation: Vault subclass overriding select()/populate() to record, frame-name lookup of the Vault "
    "method that entered the guard, the raw api.request re-wrapped by the real auth.authenticated with a tracer",
    "part S: harness.sim (virtual-time loop, fake API server with injected faults: the answer leaves the server 1/64 s after "
    "the request, a timeout lasts settings.networking.request_timeout), harness/props/sim_c12.py (request log + scripted "
    "handlers' invocations; nothing inside kopf is wrapped), a cycle = one invocation of the scenario's on.event marker handler "
    "(without one: of any handler) and the PATCHes up to the next one; a call = the consecutive requests of one kind "
    "(Content-Type x URL) up to an answered one",
    "if the shared Driver.lean cannot start because another property's module is missing, the same handler "
    "(Kopf.Drv.C12.handle) is served by a private main (harness/props/c12.py::ask_lean)",
]
ASSUMPTIONS = [
    "nothing is exempted from the oracle on account of a theorem guard; open findings whose signatures the oracle reports: re-served credentials (F3), body reads outside the retry loop (F9), worker_limit (F11, by design of that setting). Fixed, kept as regression cases in corpus/C12: F1 F2 F4 F5 (Retry-After forms), F6 (unexpected error bodies, ba57df1), F7 (Retry-After on every retried APIError, f4c61b5), F8 (scalar error_delays, 3ebc040), F10 (index-readiness toggle, 58a504d)",
    "Retry-After forms on a retried error answer (429, 5xx, 403): delay-seconds rounded UP (F5 fixed e640e5e), any capitalisation of the name (F4 fixed aac39f2), HTTP-date (F1 fixed dee5a41/19d7f3b), garbage and float overflow (F2 fixed ae1ab5d) ignored like an absent header except that the body's retryAfterSeconds is then not consulted - judged strictly: never before what the server asked; two Retry-After headers in one answer are not generated",
    "with settings.networking.enforce_retry_after a 429 carrying a usable Retry-After waits for the server's value even if shorter than the backoff (documented override; exactly the guard of gap_ge_backoff)",
    "error_backoffs / error_delays are re-iterable (list, tuple, object with __iter__); a one-shot generator object is consumed across requests / shared by all objects' throttlers and is outside the model (the property quantifies over re-iterable configurations); plain list/tuple configurations are one object shared by all throttlers of a case, as in the operator",
    "credentials have no expiration (Vault._expire forgets credentials without remembering them: outside the model); every populate brings newly constructed info objects (equal values allowed); login handlers do not raise (a failing login handler kills the authenticator task: see C20)",
    "wake-ups exactly at a sleep's deadline are not generated (the order of two timers due at the same instant is the loop's choice)",
    "part C runs async handlers only (no executor threads under the virtual clock), one resource kind, and does not generate worker_limit together with an index handler: there, fewer slots than listed objects dead-lock start-up with no error at all (reported to C17, not this property's clause); cases without a failing object are not judged",
    "attempts_bound bounds one pass of api.request; a 401/APISessionClosed re-enters through auth.authenticated with a full budget (api.py comment) - the composition is exercised by the vault traces only",
    "the SSL close-notify marker is modelled on raised exceptions only (an APIError whose message echoes it is not generated)",
    "part S: handlers that succeed at once; worker_limit None; no 401 faults (re-authentication is part V's subject); a 404 and a 422 answered to a JSON-patch end the oracle's judgement of that object (the tie with the patch_obj model goes on: endings gone / postponed); whether a JSON-patch postponed by a 422 is sent again later is not this property's subject; no deletions in the timelines (the finalizer is only added); a processing that made no request at all counts as a success",
    "an error answer whose body cannot be read: with aiohttp both json() and text() then raise the same network error, which is retried like any other; the fake answers never fail on the body of an ERROR answer (only of the final 2xx, F9)",
]

TICK = 2.0 ** -10
MARKER = "[SSL: APPLICATION_DATA_AFTER_CLOSE_NOTIFY]"


def tk(x: float) -> int:
    """seconds → ticks, exact or an error"""
    v = x * 1024
    if v != int(v):
        raise ValueError(f"non-dyadic time {x!r}")
    return int(v)


def sec(t: int) -> float:
    return t / 1024


# =============================================================================================
# (T) translator
# =============================================================================================
CLS = {
    "APIUnauthorizedError": "unauthorized", "APIForbiddenError": "forbidden", "APINotFoundError": "notFound",
    "APIConflictError": "conflict", "APIUnprocessableEntityError": "unprocessable",
    "APITooManyRequestsError": "tooMany", "APIClientError": "client", "APIServerError": "server",
    "APIError": "apiError",
}
EXC_TUPLE = {
    "aiohttp.ClientConnectionError": "conn", "errors.APIServerError": "server", "asyncio.TimeoutError": "timeout",
    "errors.APIForbiddenError": "forbidden", "errors.APITooManyRequestsError": "tooMany",
}
ALL_CLASSES = ["unauthorized", "forbidden", "notFound", "conflict", "unprocessable", "tooMany", "client", "server",
               "apiError", "conn", "timeout", "sessionClosed", "other"]


def _status_cond(e: ast.expr) -> str:
    """`response.status == N` / `A <= response.status < B` → Lean Prop over `status : Nat`."""
    if isinstance(e, ast.Compare) and all(isinstance(c, ast.Constant) and isinstance(c.value, int)
                                           or pyextract.norm(c) == "response.status"
                                           for c in [e.left, *e.comparators]):
        ops = {ast.Eq: "=", ast.LtE: "≤", ast.Lt: "<", ast.GtE: "≥", ast.Gt: ">", ast.NotEq: "≠"}
        terms = [e.left, *e.comparators]
        parts = []
        for a, op, b in zip(terms, e.ops, terms[1:]):
            if type(op) not in ops:
                raise ExtractError(f"unsupported comparison in `{pyextract.norm(e)}`")
            ta = "status" if pyextract.norm(a) == "response.status" else str(a.value)
            tb = "status" if pyextract.norm(b) == "response.status" else str(b.value)
            parts.append(f"{ta} {ops[type(op)]} {tb}")
        return " ∧ ".join(parts)
    raise ExtractError(f"status condition outside the vocabulary: `{pyextract.norm(e)}`")


def extract(ctx: Ctx) -> None:
    etree = pyextract.parse_file(ctx.repo / "kopf/_cogs/clients/errors.py")
    fn = pyextract.find_def(etree, "check_response")
    body = pyextract.body_without_docstring(fn)
    if len(body) != 1 or not isinstance(body[0], ast.If) or body[0].orelse:
        raise ExtractError("check_response is no longer a single `if response.status >= 400:` block")
    raises_cond = _status_cond(body[0].test)
    cls_assign = [st for st in body[0].body if isinstance(st, ast.Assign) and pyextract.norm(st.targets[0]) == "cls"]
    if len(cls_assign) != 1:
        raise ExtractError("check_response: expected exactly one `cls = ...` conditional chain")
    # the raise must use `cls`
    raises = [n for n in ast.walk(body[0]) if isinstance(n, ast.Raise) and n.exc is not None]
    if len(raises) != 1 or not isinstance(raises[0].exc, ast.Call) or pyextract.norm(raises[0].exc.func) != "cls":
        raise ExtractError("check_response: the raised exception is no longer `cls(...)`")
    chain = []
    e = cls_assign[0].value
    while isinstance(e, ast.IfExp):
        name = pyextract.norm(e.body)
        if name not in CLS:
            raise ExtractError(f"check_response: unknown error class `{name}`")
        chain.append((_status_cond(e.test), CLS[name]))
        e = e.orelse
    last = pyextract.norm(e)
    if last not in CLS:
        raise ExtractError(f"check_response: unknown default class `{last}`")
    classify = "\n    ".join(f"if {c} then .{r} else" for c, r in chain) + f"\n    .{CLS[last]}"
    # class hierarchy: which classes are 4xx (APIClientError subclasses) — needed to read the tuple
    parents: dict[str, str] = {}
    for st in etree.body:
        if isinstance(st, ast.ClassDef) and st.name in CLS and st.bases:
            parents[st.name] = pyextract.norm(st.bases[0])
    expect_parents = {"APIClientError": "APIError", "APIServerError": "APIError", "APIUnauthorizedError": "APIClientError",
                      "APIForbiddenError": "APIClientError", "APINotFoundError": "APIClientError",
                      "APIConflictError": "APIClientError", "APIUnprocessableEntityError": "APIClientError",
                      "APITooManyRequestsError": "APIClientError", "APIError": "Exception"}
    if parents != expect_parents:
        raise ExtractError(f"errors.py: the exception hierarchy changed: {parents}")
    # the retry tuple of api.request
    atree = pyextract.parse_file(ctx.repo / "kopf/_cogs/clients/api.py")
    req = pyextract.find_def(atree, "request")
    # the attempt is the try statement directly in the retry loop (nested ones guard the parsing of
    # details.retryAfterSeconds inside the handler)
    loops = [n for n in ast.walk(req) if isinstance(n, ast.For)]
    tries = [st for lp in loops for st in lp.body if isinstance(st, ast.Try)]
    if len(tries) != 1:
        raise ExtractError("api.request: expected exactly one try statement (the attempt) in the retry loop")
    hs = tries[0].handlers
    if len(hs) != 2 or pyextract.norm(hs[0].type) != "RuntimeError" or not isinstance(hs[1].type, ast.Tuple):
        raise ExtractError("api.request: expected `except RuntimeError` followed by one retry tuple")
    members = []
    for el in hs[1].type.elts:
        t = pyextract.norm(el)
        if t not in EXC_TUPLE:
            raise ExtractError(f"api.request: unknown member of the retry tuple `{t}`")
        members.append(EXC_TUPLE[t])
    # subclass closure inside the modelled classes: APIServerError / APIForbiddenError / APITooManyRequestsError
    # have no modelled subclasses; ClientConnectionError's and TimeoutError's subclasses are abstracted to
    # `conn` / `timeout` by the harness (isinstance), so membership is by name here.
    retry = " || ".join(f"c == .{m}" for m in members) or "false"
    out = pyextract.HEADER.format(src="kopf/_cogs/clients/errors.py (check_response), api.py (request)")
    out += "import Kopf.Model.C12_Request\nnamespace Kopf.C12.Extracted\nopen Kopf.C12\n\n"
    out += f"def raises (status : Nat) : Bool := decide ({raises_cond})\n\n"
    out += f"def classify (status : Nat) : ErrClass :=\n    {classify}\n\n"
    out += f"def retryable (c : ErrClass) : Bool := {retry}\n\n"
    out += "end Kopf.C12.Extracted\n"
    leanio.write_generated("Kopf/Extracted/C12.lean", out)


# =============================================================================================
# fakes shared by the three parts
# =============================================================================================
def _imports():
    import aiohttp
    from kopf._cogs.clients import api, auth, errors
    from kopf._cogs.configs import configuration
    from kopf._cogs.structs import credentials, ephemera
    from kopf._core.actions import execution, throttlers
    from kopf._core.engines import activities, indexing
    from kopf._core.intents import causes, handlers, registries
    from harness.sim import simloop
    return locals()


class FakeResp:
    def __init__(self, status: int, headers: dict | None = None, payload: Any = None, text: str | None = None):
        from multidict import CIMultiDict, CIMultiDictProxy
        self.status = status
        self.headers = CIMultiDictProxy(CIMultiDict(headers or {}))     # what aiohttp's response.headers is
        self._payload = payload
        self._text = text
        self.closed = False

    body_exc: BaseException | None = None      # raised when the body of this answer is read (part R, via api.get)

    async def __aenter__(self) -> "FakeResp":
        return self

    async def __aexit__(self, *a: Any) -> None:
        self.closed = True

    async def json(self) -> Any:
        import aiohttp
        if self.body_exc is not None:
            raise self.body_exc
        if self._payload is None:
            raise aiohttp.ContentTypeError(None, ())   # type: ignore[arg-type]
        return self._payload

    async def text(self) -> str:
        return self._text or ""

    async def read(self) -> bytes:
        return (self._text or "").encode()

    def raise_for_status(self) -> None:
        import aiohttp
        self.closed = True
        if self.status >= 400:
            raise aiohttp.ClientResponseError(None, (), status=self.status)   # type: ignore[arg-type]

    def release(self) -> None:
        self.closed = True

    def close(self) -> None:
        self.closed = True


class ReIter:
    """Re-iterable, not Sized: every `iter()` restarts; counts the items handed out."""

    def __init__(self, pre: list[float], cyc: list[float] | None = None):
        self.pre, self.cyc = list(pre), list(cyc or [])
        self.iters = 0
        self.taken = 0      # items taken from the most recent iterator

    def __iter__(self):
        self.iters += 1
        self.taken = 0
        src = itertools.chain(self.pre, itertools.cycle(self.cyc)) if self.cyc else iter(self.pre)
        for x in src:
            self.taken += 1
            yield x


def build_seq(spec: dict) -> Any:
    """A backoff/delay configuration object from its JSON description (times in ticks)."""
    kind = spec["kind"]
    vals = [sec(v) for v in spec.get("ticks", [])]
    # integers where possible: kopf's defaults are ints, and `retry_after > backoff` must work for both
    vals = [int(v) if v == int(v) and spec.get("ints") else v for v in vals]
    if kind == "empty":
        return []
    if kind == "scalar":
        return vals[0]
    if kind == "list":
        return list(vals)
    if kind == "tuple":
        return tuple(vals)
    if kind == "reiter":
        return ReIter(vals)
    if kind == "inf":
        return ReIter(vals, [sec(v) for v in spec["cyc"]])
    raise ValueError(kind)


def seq_to_lean(spec: dict) -> dict:
    kind = spec["kind"]
    if kind == "empty":
        return {"list": []}
    if kind == "scalar":
        return {"scalar": spec["ticks"][0]}
    if kind == "inf":
        return {"cycle": [spec["ticks"], spec["cyc"]]}
    return {"list": spec["ticks"]}


def seq_prefix(spec: dict, n: int) -> list[int] | None:
    """first n configured values (ticks) for the oracle; None for a scalar delay config"""
    kind = spec["kind"]
    if kind == "empty":
        return []
    if kind == "inf":
        out = list(spec["ticks"])
        while len(out) < n:
            out.extend(spec["cyc"])
        return out[:n]
    return list(spec["ticks"])[:n]


# =============================================================================================
# part R — api.request
# =============================================================================================
EXCS = ["ServerDisconnectedError", "ClientOSError", "ClientOSErrorSSL", "ClientConnectionError",
        "ServerTimeoutError", "TimeoutError", "TimeoutErrorSSL", "RuntimeErrorClosed", "RuntimeError",
        "ValueError", "ClientPayloadError", "KeyError"]


def make_exc(name: str) -> BaseException:
    import aiohttp
    return {
        "ServerDisconnectedError": lambda: aiohttp.ServerDisconnectedError(),
        "ClientOSError": lambda: aiohttp.ClientOSError(104, "Connection reset by peer"),
        "ClientOSErrorSSL": lambda: aiohttp.ClientOSError(1, MARKER + " application data after close notify"),
        "ClientConnectionError": lambda: aiohttp.ClientConnectionError("boom"),
        "ServerTimeoutError": lambda: aiohttp.ServerTimeoutError("read timeout"),
        "TimeoutError": lambda: asyncio.TimeoutError(),
        "TimeoutErrorSSL": lambda: asyncio.TimeoutError(MARKER),
        "RuntimeErrorClosed": lambda: RuntimeError("Session is closed"),
        "RuntimeError": lambda: RuntimeError("something else"),
        "ValueError": lambda: ValueError("x"),
        "ClientPayloadError": lambda: aiohttp.ClientPayloadError("bad payload"),
        "KeyError": lambda: KeyError("x"),
    }[name]()


def make_resp(a: dict) -> FakeResp:
    headers = {}
    if a.get("hdr") is not None:
        headers[a.get("hdr_name", "Retry-After")] = a["hdr"]     # header names are case-insensitive (RFC 7230 3.2)
    pk = a.get("payload", "empty")
    det = a.get("det")
    body: Any = None
    text = None
    if pk in ("status", "other-json", "bad-details"):
        body = {"kind": "Other" if pk == "other-json" else "Status", "apiVersion": "v1", "code": a["status"],
                "message": "scripted", "reason": "Scripted"}
        if pk == "bad-details":
            body["details"] = a.get("details_value", "see the docs")     # a truthy non-dict
        elif det is not None:
            body["details"] = {"retryAfterSeconds": det_value(det)}
        elif a.get("empty_details"):
            body["details"] = {}
    elif pk == "other-value":
        body = a.get("body_value", [1])                                   # a truthy JSON list / number / bool
    elif pk == "text":
        text = "scripted failure text"
    return FakeResp(a["status"], headers, body, text)


def det_value(det: Any) -> Any:
    """the JSON value of details.retryAfterSeconds for a spec value (specs are JSON-able: inf/nan by name)"""
    return {"Infinity": float("inf"), "NaN": float("nan")}.get(det, det) if isinstance(det, str) else det


def det_class(det: Any) -> tuple[int | None, bool]:
    """(requested ticks | None, unusable) — unusable: truthy, but not a finite number"""
    import math
    v = det_value(det)
    if v is None:
        return None, False
    if isinstance(v, bool) or not isinstance(v, (int, float, str)):
        return None, bool(v)
    try:
        f = float(v)
    except ValueError:
        return None, bool(v)
    if math.isinf(f) or math.isnan(f):
        return None, True
    return tk(f), False


class ScriptSession:
    """The duck-typed aiohttp session of part R: plays one script, then answers 200."""

    def __init__(self, script: list[dict]):
        self.script = list(script)
        self.headers: dict[str, str] = {}
        self.closed = False
        self.attempts: list[int] = []
        self.facts: list[list] = []
        self.body_exc: str | None = None

    async def request(self, **kw: Any) -> FakeResp:
        import aiohttp
        loop = asyncio.get_running_loop()
        self.attempts.append(tk(loop.time()))
        if not self.script:
            r = FakeResp(200, {}, {})
            if self.body_exc is not None:
                r.body_exc = make_exc(self.body_exc)
            return r
        a = self.script.pop(0)
        if a["lat"]:
            await asyncio.sleep(sec(a["lat"]))
        if a["kind"] == "exc":
            e = make_exc(a["exc"])
            self.closed = a["exc"] == "RuntimeErrorClosed"
            self.facts.append(["exc", isinstance(e, aiohttp.ClientConnectionError), isinstance(e, asyncio.TimeoutError),
                               isinstance(e, RuntimeError), MARKER in str(e), self.closed])
            raise e
        from harness.sim import simloop
        now = tk(simloop.WALL.now_s())
        if a.get("hdr_date") is not None:      # an HTTP-date `hdr_date` whole seconds after the current wall second
            import datetime as _dt
            import email.utils
            when = (now // 1024 + a["hdr_date"]) * 1024
            a = dict(a, hdr=http_date(simloop.EPOCH + _dt.timedelta(seconds=when // 1024), a.get("hdr_date_form", "gmt")))
        self.facts.append(["http", now, a.get("hdr"), a.get("hdr_name", "Retry-After")])
        r = make_resp(a)
        if a["status"] < 400:
            if r._payload is None:
                r._payload = {}                     # a readable JSON answer
            if self.body_exc is not None:
                r.body_exc = make_exc(self.body_exc)
        return r

    async def close(self) -> None:
        self.closed = True


DATE_FORMS = ["gmt", "utc", "naive", "east", "west", "rfc850-ish"]


def http_date(when: Any, form: str) -> str:
    """One instant, several legal / tolerated spellings of an HTTP-date (RFC 7231 7.1.1.1, RFC 5322 3.3):
    'GMT'; '+0000'; '-0000' (RFC 5322: UTC with no zone information - parsed as a NAIVE datetime); a numeric
    zone east / west of Greenwich (the same instant, another wall time); no weekday."""
    import datetime as _dt
    import email.utils
    if form == "gmt":
        return email.utils.format_datetime(when, usegmt=True)
    if form == "utc":
        return email.utils.format_datetime(when)                                   # "... +0000"
    if form == "naive":
        return email.utils.format_datetime(when.replace(tzinfo=None))              # "... -0000"
    if form == "east":
        return email.utils.format_datetime(when.astimezone(_dt.timezone(_dt.timedelta(hours=2))))
    if form == "west":
        return email.utils.format_datetime(when.astimezone(_dt.timezone(-_dt.timedelta(hours=5, minutes=30))))
    if form == "rfc850-ish":
        return email.utils.format_datetime(when, usegmt=True).split(", ", 1)[1]    # no weekday
    raise ValueError(form)


def outcome_class(e: BaseException | None) -> str:
    import aiohttp
    from kopf._cogs.clients import errors
    if e is None:
        return "ok"
    names = {"APIUnauthorizedError": "unauthorized", "APIForbiddenError": "forbidden", "APINotFoundError": "not-found",
             "APIConflictError": "conflict", "APIUnprocessableEntityError": "unprocessable",
             "APITooManyRequestsError": "too-many", "APIClientError": "client", "APIServerError": "server",
             "APIError": "api-error", "APISessionClosed": "session-closed"}
    if type(e).__module__ == errors.__name__ and type(e).__name__ in names:
        return names[type(e).__name__]
    if isinstance(e, aiohttp.ClientConnectionError):
        return "conn"
    if isinstance(e, asyncio.TimeoutError):
        return "timeout"
    return "other"


BACKOFF_POOL = [0, 64, 512, 1024, 1536, 2048, 3072, 5120]     # ticks
RA_POOL = [0, 1, 2, 3, 5, 6]                                    # seconds
RA_BIG = [31, 61, 120, 301, 3600, 86400]                        # seconds: beyond any plausible cap
FATAL_4XX = [400, 404, 405, 409, 410, 418, 422, 499]
TRANSIENT_STATUS = [403, 429, 500, 502, 503, 504, 599]


BIG_TICKS = [62464, 308224, 614400, 3686400, 88473600]        # 61 s, 301 s, 600 s (kopf's last default), 1 h, 1 day


def gen_seq(rng: random.Random, pool: list[int], kinds: list[str]) -> dict:
    kind = rng.choice(kinds)
    if kind == "empty":
        return {"kind": "empty", "ticks": []}
    if kind == "scalar":
        return {"kind": "scalar", "ticks": [rng.choice(pool)], "ints": rng.random() < 0.5}
    n = rng.choice([1, 1, 2, 3, 3, 4, 6]) if rng.random() < 0.9 else rng.choice([9, 12, 20])   # longer than kopf's defaults (8 / 15)
    spec: dict[str, Any] = {"kind": kind, "ticks": [rng.choice(pool) for _ in range(n)], "ints": rng.random() < 0.5}
    if kind == "inf":
        spec["ticks"] = spec["ticks"][:rng.choice([0, 1, 2])]
        spec["cyc"] = [rng.choice(pool) for _ in range(rng.choice([1, 2]))]
    if spec["ticks"] and rng.random() < 0.08:     # minutes, hours: the configuration is not capped anywhere in the property
        spec["ticks"][rng.randrange(len(spec["ticks"]))] = rng.choice(BIG_TICKS)
    return spec


def gen_attempt(rng: random.Random, backoff_hint: int | None) -> dict:
    lat = rng.choice([0, 0, 0, 16, 64, 256])
    r = rng.random()
    if r < 0.08:
        return {"kind": "http", "lat": lat, "status": rng.choice([200, 200, 201, 204, 304, 399])}
    if r < 0.30:       # 429 with Retry-After placed around the backoff
        a: dict[str, Any] = {"kind": "http", "lat": lat, "status": 429, "payload": rng.choice(["status", "status", "other-json", "text", "empty"])}
        base = (backoff_hint or 0) // 1024
        val = rng.choice(RA_POOL + [max(0, base - 1), base, base + 1, base + 1])
        if rng.random() < 0.08:      # the server may ask for minutes or hours: there is no cap in the property
            val = rng.choice(RA_BIG)
        how = rng.choice(["hdr", "hdr", "det", "both", "none", "hdr-empty", "hdr-frac"])
        r2 = rng.random()
        if r2 < 0.10:        # an HTTP-date placed around the backoff, in the past, or right now
            how = "hdr-date"
            a["hdr_date"] = rng.choice([-3, 0, 1, 2, 3, 5, max(0, base - 1), base, base + 1, base + 1] + RA_BIG[:1] + RA_BIG[3:5])
            if rng.random() < 0.5:
                a["hdr_date_form"] = rng.choice(DATE_FORMS[1:])
            if rng.random() < 0.3:
                a["det"] = rng.choice(RA_POOL)
                a["payload"] = "status"
        elif r2 < 0.16:      # garbage: ignored, and the details are not consulted either
            how = "hdr-garbage"
            a["hdr"] = rng.choice(["soon", "abc", "nan", "0x10", "Wed, 99 Foo 2026", "-", "1 2"])
            if rng.random() < 0.5:
                a["det"] = rng.choice(RA_POOL)
                a["payload"] = "status"
        elif r2 < 0.17:      # float overflow: finding F2
            how = "hdr-overflow"
            a["hdr"] = rng.choice(["inf", "1e999", "-inf"])
        elif r2 < 0.19:
            how = "hdr-negative"
            a["hdr"] = rng.choice(["-1", "-5"])
        if how in ("hdr", "both"):
            a["hdr"] = str(val)
        if how == "hdr-empty":
            a["hdr"] = ""
            a["det"] = val
        if how == "hdr-frac":
            a["hdr"] = f"{val}.5"
        if how in ("hdr", "hdr-frac") and rng.random() < 0.12:       # finding F4: another spelling of the name
            a["hdr_name"] = rng.choice(["retry-after", "RETRY-AFTER", "Retry-after"])
            if how == "hdr" and rng.random() < 0.4:
                a["det"] = rng.choice(RA_POOL)
                a["payload"] = "status"
        if how in ("det", "both"):
            a["det"] = val if how == "det" else rng.choice(RA_POOL)
            if how == "det" and rng.random() < 0.08:
                a["det"] = rng.choice([0.5, 1.5, 2.25])              # non-integral retryAfterSeconds: int() truncates
        if how == "none" and rng.random() < 0.3:
            a["empty_details"] = True
        return a
    if r < 0.55:
        st = rng.choice(TRANSIENT_STATUS)
        a = {"kind": "http", "lat": lat, "status": st, "payload": rng.choice(["status", "text", "empty"])}
        if st != 429 and rng.random() < 0.15:     # Retry-After on 5xx/403: ignored by the code (finding F7)
            big = rng.random() < 0.1
            if rng.random() < 0.7:
                a["hdr"] = str(rng.choice(RA_BIG if big else RA_POOL))
            else:
                a["payload"] = "status"
                a["det"] = rng.choice(RA_BIG if big else RA_POOL)
        return a
    if r < 0.68:
        return {"kind": "http", "lat": lat, "status": rng.choice(FATAL_4XX + [401]), "payload": rng.choice(["status", "text", "empty"])}
    if r < 0.71:
        return {"kind": "http", "lat": lat, "status": rng.choice([600, 666, 999]), "payload": "empty"}
    if r < 0.95:
        return {"kind": "exc", "lat": lat, "exc": rng.choice(EXCS[:6] + EXCS[:6] + EXCS)}
    return {"kind": "exc", "lat": lat, "exc": rng.choice(EXCS[6:])}


def _garble_body(rng: random.Random, a: dict) -> dict:
    """error bodies that are not what the client expects (finding F6): non-dict JSON, unusable details"""
    if a["kind"] != "http" or a["status"] < 400:
        return a
    r = rng.random()
    if r < 0.03:
        a = dict(a, payload="other-value", body_value=rng.choice([[1], True, 5, ["rate limited"], 2.5]))
        a.pop("det", None)
    elif r < 0.05 and a["status"] == 429:
        a = dict(a, payload="bad-details", details_value=rng.choice(["see the docs", ["x"], 7]))
        a.pop("det", None)
    elif r < 0.08 and a["status"] == 429 and a.get("hdr") in (None, "") and a.get("hdr_date") is None:
        a = dict(a, payload="status", det=rng.choice(["soon", "Infinity", "NaN", [5], "2.5", "3"]))
    return a


def gen_request(rng: random.Random) -> dict:
    bo = gen_seq(rng, BACKOFF_POOL, ["empty", "scalar", "list", "list", "tuple", "reiter", "inf"])
    n = rng.choice([0, 1, 2, 3, 4, 5, 6, 8])
    mode = rng.random()
    if len(bo.get("ticks", [])) > 8 or (bo["kind"] == "inf" and rng.random() < 0.15):
        n, mode = rng.choice([10, 14, 22]), min(mode, 0.3)       # a long run of transient failures through a long configuration
    prefix = seq_prefix(bo, n + 1) or []
    script = []
    for i in range(n):
        hint = prefix[i] if i < len(prefix) else None
        a = gen_attempt(rng, hint)
        if mode < 0.35 and a["kind"] == "http" and a["status"] not in TRANSIENT_STATUS:
            a = {"kind": "http", "lat": a["lat"], "status": rng.choice(TRANSIENT_STATUS), "payload": "empty"}
        script.append(_garble_body(rng, a))
    case = {"part": "request", "backoffs": bo, "enforce": rng.random() < 0.25, "script": script,
            "pause": rng.choice([0, 1, 7, 1024])}
    if rng.random() < 0.5:           # the retry loop is the same for every method (reads and writes alike),
        case["method"] = rng.choice(["post", "patch", "patch", "delete", "put", "head"])
        # … every kind of payload and every URL
        case["ctype"] = rng.choice(["application/merge-patch+json", "application/json-patch+json", "application/json-patch+json",
                                    "application/strategic-merge-patch+json", "application/json", None])
        case["url"] = rng.choice(["/apis/x", "/apis/kopf.dev/v1/namespaces/ns/kopfexamples/a", "/apis/kopf.dev/v1/namespaces/ns/kopfexamples/a/status",
                                  "/api/v1/namespaces/default/events", "http://other.example/api?watch=true"])
    if rng.random() < 0.08:          # through api.get/post/patch/delete: the body of the final answer is read outside the retry loop
        case["via"] = rng.choice(["get", "get", "post", "patch", "delete"])
        case["script"] = [a if (a["kind"] == "http" and a["status"] != 401) or
                          (a["kind"] == "exc" and a["exc"] in EXCS[:1] + EXCS[3:6] + ["ClientOSError"])
                          else {"kind": "http", "lat": a["lat"], "status": 500, "payload": "empty"} for a in script]
        if rng.random() < 0.6:
            case["body_exc"] = rng.choice(["ServerDisconnectedError", "ClientOSError", "ClientConnectionError"])
    return case


async def _one_request(env: dict, case: dict) -> dict:
    api, auth, credentials, configuration = env["api"], env["auth"], env["credentials"], env["configuration"]
    loop = asyncio.get_running_loop()
    if case.get("pause"):
        await asyncio.sleep(sec(case["pause"]))
    settings = configuration.OperatorSettings()
    settings.networking.error_backoffs = build_seq(case["backoffs"])
    settings.networking.enforce_retry_after = case["enforce"]
    sess = ScriptSession(case["script"])
    ctxt = auth.APIContext(credentials.AiohttpSession(server="http://fake", aiohttp_session=sess))
    sleeps: list[int] = []
    t0 = tk(loop.time())
    exc: BaseException | None = None
    try:
        if case.get("via"):
            # api.get/post/patch/delete → request() under the REAL `authenticated`, then `response.json()` outside the loop
            sess.body_exc = case.get("body_exc")
            vault = credentials.Vault({"k": credentials.AiohttpSession(server="http://fake", aiohttp_session=sess)})
            auth.vault_var.set(vault)
            kw = {} if case["via"] == "get" else {"payload": {"metadata": {"labels": {"x": "y"}}}}
            # (the vault has one credential; behind it an authenticator whose login handlers deliver nothing: a
            # request that asks for a re-authentication gets its LoginError at once instead of waiting for ever)

            async def no_logins() -> None:
                while True:
                    await vault.wait_for_emptiness()
                    await vault.populate({})

            stub = asyncio.ensure_future(no_logins())
            try:
                await getattr(api, case["via"])("/apis/x", settings=settings, logger=env["logger"], **kw)
            finally:
                stub.cancel()
                await asyncio.gather(stub, return_exceptions=True)
        else:
            method = case.get("method", "get")
            ctype = case.get("ctype", "application/merge-patch+json")
            kw: dict[str, Any] = {} if method in ("get", "head", "delete") else \
                {"payload": [{"op": "test", "path": "/metadata/resourceVersion", "value": "1"}] if ctype and "json-patch" in ctype
                 else {"metadata": {"labels": {"x": "y"}}}}
            if kw and ctype:
                kw["headers"] = {"Content-Type": ctype}
            await api.request(method, case.get("url", "/apis/x"), settings=settings, logger=env["logger"], context=ctxt, **kw)
    except Exception as e:       # noqa: BLE001 — every escalation is an observation
        exc = e
    fin = tk(loop.time())
    return {"t0": t0, "times": sess.attempts, "outcome": outcome_class(exc), "fin": fin,
            "exc": type(exc).__name__ if exc is not None else None,
            "status": getattr(exc, "status", None), "facts": sess.facts}


def classify_hdr(hdr: Any, now: int) -> list | None:
    """What kind of Retry-After value this is (an input description, not the code's parser):
    None (absent/empty) | ["secs", ticks] | ["date", when - now in ticks] | ["garbage"] | ["overflow"]."""
    import datetime as _dt
    import email.utils
    import math
    from harness.sim import simloop
    if hdr in (None, ""):
        return None
    try:
        f = float(hdr)
    except ValueError:
        try:
            when = email.utils.parsedate_to_datetime(hdr)
        except (TypeError, ValueError):
            return ["garbage"]
        if when.tzinfo is None:
            when = when.replace(tzinfo=_dt.timezone.utc)
        return ["date", round((when - simloop.EPOCH).total_seconds() * 1024) - now]
    if math.isinf(f):
        return ["overflow"]
    if math.isnan(f):
        return ["garbage"]
    return ["secs", tk(f)]


def attempt_hdr(a: dict, fact: Any) -> list | None:
    """the classified header of an attempt: from what the fake session really sent, if it got that far"""
    if isinstance(fact, list) and fact and fact[0] == "http":
        h = classify_hdr(fact[2], fact[1])
    elif a.get("hdr_date") is not None:
        h = ["date", a["hdr_date"] * 1024]      # never reached: the value is irrelevant
    else:
        h = classify_hdr(a.get("hdr"), 0)
    if h is not None and a.get("hdr_name", "Retry-After") != "Retry-After":
        if h[0] != "secs":
            raise ValueError("generator: only delay-seconds are sent under another spelling of the header name")
        h = ["other-case", h[1]]
    return h


def request_to_lean(case: dict, obs: dict) -> list:
    script = []
    for a, fact in zip(case["script"], obs["facts"] + [None] * len(case["script"])):
        if a["kind"] == "exc":
            f = fact if fact is not None else _exc_facts(a["exc"])
        else:
            d, bad = det_class(a.get("det"))
            f = ["http", a["status"], attempt_hdr(a, fact), a.get("payload", "empty"), d, bad]
        script.append({"lat": a["lat"], "f": f})
    cfg = {"backoffs": seq_to_lean(case["backoffs"]), "enforce": case["enforce"]}
    if case.get("via"):
        return ["C12.getjson", cfg, script, obs["t0"], case.get("body_exc") is not None]
    return ["C12.request", cfg, script, obs["t0"]]


def _exc_facts(name: str) -> list:
    import aiohttp
    e = make_exc(name)
    return ["exc", isinstance(e, aiohttp.ClientConnectionError), isinstance(e, asyncio.TimeoutError),
            isinstance(e, RuntimeError), MARKER in str(e), name == "RuntimeErrorClosed"]


def _transient(a: dict) -> bool:
    """the property's 'transient API failures (network errors, 5xx, 403, 429)'"""
    if a["kind"] == "http":
        return a["status"] in (403, 429) or 500 <= a["status"] < 600
    return a["exc"] in ("ServerDisconnectedError", "ClientOSError", "ClientConnectionError", "ServerTimeoutError", "TimeoutError")


def _special(a: dict) -> bool:
    """attempts the property text says nothing about (session teardown signals, foreign exceptions, >=600)"""
    if a["kind"] == "http":
        return a["status"] >= 600
    return not _transient(a)


def oracle_request(case: dict, obs: dict) -> list[tuple[str, dict]]:
    """From the property text only. Returns [(what, signature)]."""
    out = []
    script = case["script"]
    times = obs["times"]
    n = len(times)
    cfg = case["backoffs"]
    finite = cfg["kind"] != "inf"
    budget = seq_prefix(cfg, len(script) + 2)
    assert budget is not None
    if finite and n > len(budget) + 1:
        out.append((f"{n} attempts with {len(budget)} backoffs", {"site": "api.request", "shape": "attempts>len(backoffs)+1"}))
    # walk the script as the property describes it
    expected_attempts = None
    expected_final = None
    for i in range(len(script) + 1):
        a = script[i] if i < len(script) else {"kind": "http", "status": 200, "lat": 0}
        if a["kind"] == "http" and a["status"] < 400:
            expected_attempts, expected_final = i + 1, "ok"
            break
        if _special(a):
            expected_attempts = None        # not judged beyond this point
            break
        if not _transient(a):               # other 4xx (and 401 at this level): at once
            expected_attempts, expected_final = i + 1, ("status", a["status"])
            break
        if i >= len(budget):                # retries exhausted: escalate this very error
            expected_attempts = i + 1
            expected_final = ("status", a["status"]) if a["kind"] == "http" else ("exc", a["exc"])
            break
    if expected_final == "ok" and case.get("body_exc") is not None and n == expected_attempts:
        # the answer came, reading its body hit a network error: a transient failure, to be retried
        out.append((f"a network error ({obs['exc']}) while reading the body of the answer was not retried: 1 pass, {n} attempt(s)",
                    {"site": "api.get/post/patch/delete", "shape": "network error in response.json() is outside the retry loop"}))
        expected_attempts = None
    if expected_attempts is not None:
        last = script[n - 1] if 0 < n <= len(script) else None
        if last is not None and last["kind"] == "http" and obs["exc"] in ("ValueError", "OverflowError", "TypeError", "AttributeError") \
                and (last.get("payload") in ("other-value", "bad-details") or det_class(last.get("det"))[1]):
            out.append((f"an HTTP {last['status']} whose body is not what the client expects made the error handling raise "
                        f"{obs['exc']}: {'not retried' if _transient(last) else 'escalated as a foreign exception'}",
                        {"site": "errors.APIError/api.request", "shape": "error body (non-dict JSON / unusable details) -> foreign exception, no retry"}))
            expected_attempts = None
    if expected_attempts is not None:
        last_hdr = attempt_hdr(last, obs["facts"][n - 1] if n - 1 < len(obs["facts"]) else None) \
            if last is not None and last["kind"] == "http" and last["status"] == 429 else None
        if n <= expected_attempts and last_hdr is not None and last_hdr[0] == "date" and obs["exc"] == "ValueError":
            out.append(("a 429 whose Retry-After is an HTTP-date was not retried: ValueError escaped api.request",
                        {"site": "api.request", "shape": "429 with non-numeric Retry-After -> ValueError, no retry"}))
        elif n <= expected_attempts and last_hdr is not None and last_hdr[0] == "overflow" and obs["exc"] == "OverflowError":
            out.append(("a 429 whose Retry-After overflows float() was not retried: OverflowError escaped api.request",
                        {"site": "api._parse_retry_after", "shape": "429 with Retry-After inf/1e999 -> OverflowError, no retry"}))
        elif n != expected_attempts:
            kind = "fatal-4xx-retried" if isinstance(expected_final, tuple) and expected_final[0] == "status" and \
                400 <= expected_final[1] < 500 and expected_final[1] not in (403, 429) and n > expected_attempts \
                else ("transient-not-retried" if n < expected_attempts else "too-many-attempts")
            out.append((f"{n} attempts, the property gives {expected_attempts}", {"site": "api.request", "shape": kind}))
        elif expected_final == "ok":
            if obs["outcome"] != "ok":
                out.append(("a request that finally got a 2xx/3xx did not succeed", {"site": "api.request", "shape": "ok-lost"}))
        elif expected_final[0] == "status":
            if obs["status"] != expected_final[1]:
                out.append((f"escalated {obs['exc']} status={obs['status']}, expected status {expected_final[1]}",
                            {"site": "api.request", "shape": "wrong-escalation"}))
        else:
            import aiohttp  # noqa: F401
            if obs["exc"] != type(make_exc(expected_final[1])).__name__:
                out.append((f"escalated {obs['exc']}, expected {expected_final[1]}", {"site": "api.request", "shape": "wrong-escalation"}))
    # gaps: never less than the configured backoff (unless the documented enforce_retry_after override
    # applies to a 429 with Retry-After), never less than a 429's Retry-After
    for i in range(n - 1):
        a = script[i]
        gap = times[i + 1] - (times[i] + a["lat"])
        b = budget[i] if i < len(budget) else None
        ra = None
        shape = None
        if a["kind"] == "http" and a["status"] >= 400:     # every retried status (a next attempt exists)
            h = attempt_hdr(a, obs["facts"][i] if i < len(obs["facts"]) else None)
            if h is not None and h[0] in ("secs", "other-case"):
                ra = h[1]                            # what the server sent, whatever the spelling of the name
                shape = "other-case" if h[0] == "other-case" else ("fraction" if h[1] % 1024 else None)
            elif h is not None and h[0] == "date":
                ra = max(0, h[1])                    # never before the date itself (no tolerance)
            elif h is None and a.get("payload") == "status" and det_class(a.get("det"))[0]:
                ra = det_class(a.get("det"))[0]
                shape = "fraction" if ra % 1024 else None
            if a["status"] != 429:
                shape = "not-429"
        if b is None:
            out.append(("a retry happened beyond the configured backoffs", {"site": "api.request", "shape": "retry-without-backoff"}))
            continue
        if gap < max(0, b) and not (case["enforce"] and ra is not None):
            out.append((f"waited {gap} ticks, configured backoff {b}", {"site": "api.request", "shape": "gap<backoff"}))
        if ra is not None and gap < ra:
            if shape == "not-429":
                out.append((f"waited {gap} ticks after an HTTP {a['status']} asking for {ra}",
                            {"site": "api.request", "shape": "Retry-After / retryAfterSeconds is read for HTTP 429 only (ignored on 5xx/403)"}))
            elif shape == "other-case" and not (ra % 1024 and gap >= (ra // 1024) * 1024):
                out.append((f"waited {gap} ticks after a 429 asking for {ra} in a header spelled {a.get('hdr_name')!r}",
                            {"site": "errors.check_response/api.request", "shape": "Retry-After under another capitalisation is ignored (case-sensitive dict lookup)"}))
            elif shape in ("fraction", "other-case") and ra % 1024 and gap >= (ra // 1024) * 1024:
                out.append((f"waited {gap} ticks after a 429 asking for {ra} (fractional seconds truncated)",
                            {"site": "api.request/_parse_retry_after", "shape": "fractional Retry-After seconds truncated down by int()"}))
            else:
                out.append((f"waited {gap} ticks after a 429 asking for {ra}", {"site": "api.request", "shape": "gap<retry-after"}))
    return out


def key_request(case: dict, obs: dict) -> tuple[str, bool]:
    tags = []
    for a in case["script"][:len(obs["times"])]:
        if a["kind"] == "http":
            t = str(a["status"])
            if a["status"] == 429:
                t += ":" + ("h" if a.get("hdr") else "") + (f"D{a['hdr_date']}" if a.get("hdr_date") is not None else "") + \
                    ((classify_hdr(a.get("hdr"), 0) or ["-"])[0][:1] if a.get("hdr") else "") + ("d" if a.get("det") else "") + a.get("payload", "")[:1]
        else:
            t = a["exc"]
        tags.append(t)
    key = json.dumps([case["backoffs"]["kind"], len(case["backoffs"].get("ticks", [])), case["enforce"], tags, obs["outcome"]])
    return key, (len(obs["times"]) > 1 or obs["outcome"] != "ok")


# =============================================================================================
# part T — throttlers.throttled
# =============================================================================================
DELAY_POOL = [0, 64, 128, 1024, 2048, 3072]      # even ticks; wake-ups into the 2nd sleep are odd


def gen_throttle(rng: random.Random) -> dict:
    cfg = gen_seq(rng, DELAY_POOL, ["empty", "scalar", "list", "list", "tuple", "reiter", "inf"])
    if cfg["kind"] == "scalar" and rng.random() < 0.5:
        cfg = gen_seq(rng, DELAY_POOL, ["list"])
    objs = []
    for _ in range(rng.choice([1, 1, 2, 3])):
        cycles = []
        long_run = rng.random() < 0.06
        for _ in range(rng.choice([1, 2, 3, 4, 6, 8, 10]) if not long_run else rng.choice([14, 18, 24])):
            r = rng.random() if not long_run else 0.33 + 0.5 * rng.random()
            body = "success" if r < 0.33 else "error" if r < 0.83 else "foreign" if r < 0.92 else "base"
            cycles.append({"body": body, "ran": rng.random() < 0.1, "dur": rng.choice([0, 0, 2, 64, 512]),
                           "wake1": rng.choice([None, None, None, 0, 1, 63, 500, 1025, 4000]),
                           "wake2": rng.choice([None, None, None, None, 0, 1, 63, 501, 1025, 2047, 4001]),
                           "gap": rng.choice([0, 0, 1, 64, 1000, 1024, 2048, 3000, 6000])})
        objs.append(cycles)
    return {"part": "throttle", "delays": cfg, "objects": objs, "errors": rng.choice(["Exception", "Exception", "ValueError"])}


class _Interest(ValueError):
    pass


async def _one_object(env: dict, cfgobj: Any, case: dict, cycles: list[dict]) -> dict:
    throttlers = env["throttlers"]
    loop = asyncio.get_running_loop()
    sets: list[tuple[str, Any]] = []

    class RecThrottler(throttlers.Throttler):
        def __setattr__(self, k: str, v: Any) -> None:
            sets.append((k, v))
            object.__setattr__(self, k, v)

    th = RecThrottler()
    errors = Exception if case["errors"] == "Exception" else ValueError
    wakeup = asyncio.Event()
    t0 = tk(loop.time())
    outs = []
    used_cycles = []
    for c in cycles:
        c = dict(c)
        sets.clear()
        wakeup.clear()
        start = loop.time()
        h1 = None
        if c["wake1"] is not None and th.active_until is not None:
            remaining = th.active_until - start
            if remaining > 0 and sec(c["wake1"]) == remaining:
                c["wake1"] += 1
            if c["wake1"] == 0:
                wakeup.set()
            else:
                h1 = loop.call_at(start + sec(c["wake1"]), wakeup.set)
        marks: dict[str, Any] = {"body_start": None, "body_end": None, "should_run": None}
        escaped = "none"
        try:
            async with throttlers.throttled(throttler=th, delays=cfgobj, wakeup=wakeup, logger=env["logger"], errors=errors) as should_run:
                marks["should_run"] = should_run
                marks["body_start"] = loop.time()
                if h1 is not None:
                    h1.cancel()
                if should_run or c["ran"]:
                    if c["dur"]:
                        await asyncio.sleep(sec(c["dur"]))
                    marks["body_end"] = loop.time()
                    wakeup.clear()
                    if c["wake2"] is not None:
                        if c["wake2"] == 0:
                            wakeup.set()
                        else:
                            marks["h2"] = loop.call_at(loop.time() + sec(c["wake2"]), wakeup.set)
                    if c["body"] == "error":
                        raise _Interest("scripted")
                    if c["body"] == "foreign":
                        raise (KeyError("scripted") if errors is ValueError else _NotAnException())
                    if c["body"] == "base":
                        raise asyncio.CancelledError()
                else:
                    marks["body_end"] = loop.time()
        except asyncio.CancelledError:
            escaped = "base-exception"
        except _NotAnException:
            escaped = "base-exception"
        except TypeError:
            escaped = "type-error"
        except Exception:      # noqa: BLE001
            escaped = "exception"
        if h1 is not None:
            h1.cancel()
        if marks.get("h2") is not None:
            marks["h2"].cancel()
        fin = loop.time()
        if marks["body_start"] is None:       # cannot happen: the generator always yields
            marks["body_start"] = marks["body_end"] = fin
        activated = None
        for k, v in sets:
            if k == "last_used_delay" and v is not None:
                activated = tk(v)
        pos: Any
        if th.source_of_delays is None:
            pos = None
        elif isinstance(cfgobj, ReIter):
            pos = cfgobj.taken
        else:
            pos = "some"
        outs.append({"shouldRun": bool(marks["should_run"]), "escaped": escaped, "activated": activated,
                     "sleep1": tk(marks["body_start"] - start), "sleep2": tk(fin - marks["body_end"]), "fin": tk(fin),
                     "st": {"pos": pos, "last": None if th.last_used_delay is None else tk(th.last_used_delay),
                            "until": None if th.active_until is None else tk(th.active_until)},
                     "body_start": tk(marks["body_start"])})
        used_cycles.append(c)
        if c["gap"]:
            await asyncio.sleep(sec(c["gap"]))
    return {"t0": t0, "outs": outs, "cycles": used_cycles}


class _NotAnException(BaseException):
    pass


async def _one_throttle(env: dict, case: dict) -> dict:
    # every object gets its own configuration object when it is a generator-like one (they are
    # re-iterable, but the item counter is per object)
    # one shared settings object for all objects (as `settings.queueing.error_delays` is) unless it is one of the
    # counting re-iterables, whose item counter is per object
    shared = build_seq(case["delays"]) if case["delays"]["kind"] not in ("reiter", "inf") else None
    tasks = [asyncio.ensure_future(_one_object(env, shared if shared is not None else build_seq(case["delays"]), case, cyc))
             for cyc in case["objects"]]
    res = await asyncio.gather(*tasks)
    return {"objects": res}


def throttle_to_lean(case: dict, o: dict) -> list:
    body = {"success": "success", "error": "error", "foreign": "foreign", "base": "base"}
    foreign_is_base = case["errors"] == "Exception"
    cs = []
    for c in o["cycles"]:
        b = body[c["body"]]
        if b == "foreign" and foreign_is_base:
            b = "base"       # with errors=Exception the only foreign thing is a BaseException
        cs.append({"body": b, "ran": c["ran"], "dur": c["dur"], "wake1": c["wake1"], "wake2": c["wake2"], "gap": c["gap"]})
    return ["C12.throttle", seq_to_lean(case["delays"]), o["t0"], cs]


def throttle_canon(case: dict, impl: list[dict], model: list[dict]) -> tuple[list, list]:
    countable = case["delays"]["kind"] in ("reiter", "inf")
    a, b = [], []
    for x, y in itertools.zip_longest(impl, model):
        if x is None or y is None:
            a.append(x), b.append(y)
            continue
        x = {k: v for k, v in x.items() if k != "body_start"}
        x["st"] = dict(x["st"])
        y = json.loads(json.dumps(y))
        if not countable:
            x["st"]["pos"] = x["st"]["pos"] is not None
            y["st"]["pos"] = y["st"]["pos"] is not None
        a.append(x), b.append(y)
    return a, b


def oracle_throttle(case: dict, o: dict) -> list[tuple[str, dict]]:
    out = []
    cfg = case["delays"]
    if cfg["kind"] == "scalar":
        # the property quantifies over scalar configurations too: a scalar d means the one-item list [d]
        cfg = {"kind": "list", "ticks": list(cfg["ticks"])}
    k = 0
    deadline = None
    for c, r in zip(o["cycles"], o["outs"]):
        body = c["body"]
        if body == "foreign" and case["errors"] == "Exception":
            body = "base"
        executed = r["shouldRun"] or c["ran"]
        if r["shouldRun"] and deadline is not None and r["body_start"] < deadline:
            out.append((f"the block ran at {r['body_start']} before the pause ended at {deadline}",
                        {"site": "throttled", "shape": "ran-before-deadline"}))
        if r["shouldRun"]:
            deadline = None
        if not executed:
            continue
        if body == "base" and r["escaped"] != "base-exception":
            out.append(("a BaseException/cancellation was swallowed by throttled()", {"site": "throttled", "shape": "base-swallowed"}))
        if body == "error" and r["shouldRun"]:
            if r["escaped"] == "type-error" and case["delays"]["kind"] == "scalar":
                out.append(("with a scalar error_delays the first error makes iter(delays) raise TypeError out of throttled(): "
                            "nothing is contained (the escape stops the operator)",
                            {"site": "throttlers.throttled", "shape": "scalar error_delays -> TypeError escapes throttled()"}))
                return out
            if r["escaped"] != "none":
                out.append((f"an error escaped throttled(): {r['escaped']}", {"site": "throttled", "shape": "error-escaped"}))
            vals = seq_prefix(cfg, k + 1) or []
            want = None if not vals else vals[min(k, len(vals) - 1)]
            if r["activated"] != want:
                out.append((f"consecutive error #{k} activated a pause of {r['activated']} ticks, the configuration gives {want}",
                            {"site": "throttled", "shape": "delay-not-from-config"}))
            if want is not None:
                deadline = r["fin"] - r["sleep2"] + want
            k += 1
        if body == "success" and r["shouldRun"]:
            k = 0
            if r["st"]["until"] is not None or r["st"]["last"] is not None:
                out.append(("a success did not reset the throttler", {"site": "throttled", "shape": "no-reset"}))
    return out


def key_throttle(case: dict, o: dict) -> tuple[str, bool]:
    seq = [(c["body"][0], int(r["shouldRun"]), r["escaped"][0], r["activated"] is not None, r["st"]["until"] is not None)
           for c, r in zip(o["cycles"], o["outs"])]
    return json.dumps([case["delays"]["kind"], len(case["delays"].get("ticks", [])), case["errors"], seq]), \
        any(r["activated"] is not None or not r["shouldRun"] or r["escaped"] != "none" for r in o["outs"])


# =============================================================================================
# part V — Vault + authenticated + authenticator
# =============================================================================================
class World:
    """Server side of part V: which token is valid until when; the global event log."""

    def __init__(self) -> None:
        self.invalid_from: dict[int, float] = {}
        self.events: list[dict] = []
        self.seq = 0

    def log(self, **kw: Any) -> None:
        self.seq += 1
        kw["seq"] = self.seq
        self.events.append(kw)

    def valid(self, token: int, t: float) -> bool:
        return t < self.invalid_from.get(token, float("inf"))


class TokenSession:
    """Duck-typed aiohttp session bound to one token. Equality is by token: a login handler that
    returns the same credential again yields an *equal* (not identical) connection info."""

    def __init__(self, world: World, key: str, token: int, close_lat: int, answers: dict):
        self.world, self.key, self.token, self.close_lat = world, key, token, close_lat
        self.answers = answers
        self.headers: dict[str, str] = {}
        self.closed = False

    def __eq__(self, other: Any) -> bool:
        return isinstance(other, TokenSession) and other.token == self.token

    def __hash__(self) -> int:
        return hash(self.token)

    def __repr__(self) -> str:
        return f"<session token={self.token}>"

    async def request(self, **kw: Any) -> FakeResp:
        loop = asyncio.get_running_loop()
        who = asyncio.current_task().get_name()      # type: ignore[union-attr]
        if self.closed:
            self.world.log(ev="attempt-closed", who=who, key=self.key, token=self.token, t=tk(loop.time()))
            raise RuntimeError("Session is closed")
        self.world.log(ev="attempt", who=who, key=self.key, token=self.token, t=tk(loop.time()))
        plan = self.answers.get(who) or []
        lat, status = plan.pop(0) if plan else (16, 200)
        if lat:
            await asyncio.sleep(sec(lat))
        if not self.world.valid(self.token, loop.time()):
            self.world.log(ev="401", who=who, key=self.key, token=self.token, t=tk(loop.time()))
            return FakeResp(401, {}, {"kind": "Status", "code": 401, "message": "Unauthorized"})
        if status >= 400:
            return FakeResp(status, {}, {"kind": "Status", "code": status, "message": "scripted"})
        return FakeResp(status, {}, {})

    async def close(self) -> None:
        if self.close_lat:
            await asyncio.sleep(sec(self.close_lat))
        self.closed = True


class Guard:
    """Proxy of `Vault._guard`: delegates to a real asyncio.Condition and reports every
    lock-protected segment (who, in which Vault method, how it began, how it ended)."""

    def __init__(self, report: Any) -> None:
        self.c = asyncio.Condition()
        self.report = report
        self.seg: dict | None = None

    def _begin(self, fn: str, how: str) -> None:
        self.seg = {"who": asyncio.current_task().get_name(), "fn": fn, "how": how, "select": None}   # type: ignore[union-attr]

    def _end(self, end: str, exc: Any = None) -> None:
        seg, self.seg = self.seg, None
        if seg is not None:
            self.report(seg, end, exc)

    async def __aenter__(self) -> None:
        fn = sys._getframe(1).f_code.co_name
        await self.c.acquire()
        self._begin(fn, "acquire")

    async def __aexit__(self, et: Any, ev: Any, tb: Any) -> None:
        self._end("release", et)
        self.c.release()

    async def wait_for(self, pred: Any) -> bool:
        fn = self.seg["fn"] if self.seg else "?"
        result = pred()
        while not result:
            self._end("blocked")
            try:
                await self.c.wait()
            except BaseException:
                self._begin(fn, "cancelled")
                raise
            self._begin(fn, "wake")
            result = pred()
        return result

    def notify_all(self) -> None:
        self.c.notify_all()

    def notify(self, n: int = 1) -> None:
        self.c.notify(n)

    def locked(self) -> bool:
        return self.c.locked()


def gen_vault(rng: random.Random) -> dict:
    nkeys = rng.choice([1, 1, 1, 2, 2])
    keys = [{"prio": rng.choice([0, 0, 0, 1])} for _ in range(nkeys)]
    if rng.random() < 0.15:
        init = []                      # the initial authentication
    else:
        init = sorted(rng.sample(range(nkeys), rng.choice([1, nkeys])))
    nreq = rng.choice([1, 2, 3, 3, 4, 5, 6])
    # tokens get revoked at these times (ticks); `None` = never
    def life() -> int | None:
        return rng.choice([None, None, 64, 256, 1000, 1024, 1031, 2048, 3000])
    logins = []
    for _ in range(rng.choice([2, 3, 4, 6])):
        per_key = []
        for _k in range(nkeys):
            r = rng.random()
            what = "fresh" if r < 0.54 else "same" if r < 0.68 else "old" if r < 0.74 else "none" if r < 0.82 \
                else "same-prio" if r < 0.87 else "other-key" if r < 0.92 else rng.choice(["back2", "back3", "back3", "back4"])
            per_key.append({"what": what, "life": life(), "delay": rng.choice([0, 16, 64, 512, 1024])})
        logins.append(per_key)
    reqs = []
    storm = rng.random() < 0.4       # many requests in flight around one revocation instant
    storm_at = rng.choice([256, 1000, 1024])
    for _ in range(nreq):
        calls = []
        for _c in range(rng.choice([1, 1, 2, 3])):
            calls.append({"gap": rng.choice([0, 0, 1, 16, 500, 1024]),
                          "answers": [[rng.choice([0, 16, 16, 64, 300]), rng.choice([200, 200, 200, 200, 200, 500, 404, 503, 403, 429])]
                                      for _a in range(rng.choice([0, 1, 2, 4]))]})
        start = rng.choice([0, 0, 1, 16, 64, 990, 1000, 1024, 1030])
        if storm:
            start = max(0, storm_at - rng.choice([1, 4, 8, 15, 16, 17, 40]))
            calls[0]["gap"] = 0
            calls[0]["answers"] = [[rng.choice([16, 16, 64, 300]), 200]] + calls[0]["answers"]
        reqs.append({"start": start, "calls": calls})
    init_life = [life() for _ in range(nkeys)]
    if storm and init:
        init_life = [storm_at for _ in range(nkeys)]
    return {"part": "vault", "keys": keys, "init": init, "init_life": init_life,
            "logins": logins, "reqs": reqs, "backoffs": rng.choice([[], [64], [0, 16], [512]]),
            "close_lat": rng.choice([0, 0, 16])}


async def _one_vault(env: dict, case: dict) -> dict:
    api, auth, credentials, configuration = env["api"], env["auth"], env["credentials"], env["configuration"]
    activities, indexing, ephemera = env["activities"], env["indexing"], env["ephemera"]
    registries, handlers, causes, execution, errors = env["registries"], env["handlers"], env["causes"], env["execution"], env["errors"]
    loop = asyncio.get_running_loop()
    t_base = loop.time()
    world = World()
    nkeys = len(case["keys"])
    keyname = [f"k{i}" for i in range(nkeys)]
    next_token = [100]
    revoked_hist: dict[int, list[int]] = {i: [] for i in range(nkeys)}     # tokens handed out per key, in order
    answers: dict[str, list] = {}

    def mk(ki: int, token: int, life: int | None, prio: int | None = None) -> Any:
        if life is not None and token not in world.invalid_from:
            world.invalid_from[token] = loop.time() + sec(life)
        revoked_hist[ki].append(token)
        return credentials.AiohttpSession(server="http://fake", priority=case["keys"][ki]["prio"] if prio is None else prio,
                                          aiohttp_session=TokenSession(world, keyname[ki], token, case["close_lat"], answers))

    def fresh() -> int:
        next_token[0] += 1
        return next_token[0]

    init_src = {keyname[ki]: mk(ki, fresh(), case["init_life"][ki]) for ki in case["init"]}
    serial: dict[int, int] = {}
    keep: list[Any] = []
    counter = [0]
    labels: list[dict] = []
    pending_src: list[Any] = [None]

    class TVault(credentials.Vault):
        def select(self) -> Any:
            try:
                k, it = super().select()
            except credentials.LoginError:
                if self._guard.seg is not None:
                    self._guard.seg["select"] = "fail"
                raise
            if self._guard.seg is not None:
                self._guard.seg["select"] = (k, it)
            return k, it

        async def populate(self, src: Any) -> None:     # type: ignore[override]
            pending_src[0] = dict(src)
            await super().populate(src)

    vault = TVault(init_src)

    def number_new(order: list[str]) -> None:
        for k in order:
            it = vault._current.get(k)
            if it is not None and id(it) not in serial:
                serial[id(it)] = counter[0]
                counter[0] += 1
                keep.append(it)

    number_new(list(init_src))

    def tok(item: Any) -> int:
        return item.info.aiohttp_session.token

    def snapshot() -> dict:
        cur = sorted([keyname.index(k), serial.get(id(v), -1), tok(v), v.info.priority] for k, v in vault._current.items())
        inv = [[ki, [tok(v) for v in vault._invalid.get(keyname[ki], [])]] for ki in range(nkeys)]
        return {"cur": cur, "inv": inv, "ready": vault._ready}

    def emit(label: list, effect: str | None = None, who: str | None = None) -> None:
        world.seq += 1
        labels.append({"label": label, "snap": snapshot(), "effect": effect, "seq": world.seq,
                       "t": tk(loop.time() - t_base)})

    def rid(who: str) -> int | None:
        return int(who[1:]) if who.startswith("r") and who[1:].isdigit() else None

    def report(seg: dict, end: str, exc: Any) -> None:
        who, fn, how = seg["who"], seg["fn"], seg["how"]
        r = rid(who)
        if how == "cancelled":
            return
        if fn == "invalidate" and r is not None:
            if how == "acquire":
                emit(["inval", r], "blocked" if end == "blocked" else "raised" if exc is not None else "released")
            elif end != "blocked":
                emit(["invalWake", r], "raised" if exc is not None else "released")
        elif fn == "_items" and r is not None:
            if end == "blocked":
                return
            if seg["select"] == "fail":
                emit(["acquireFail", r], "raised")
            elif seg["select"] is not None:
                k, it = seg["select"]
                world.log(ev="select", who=who, key=k, token=tok(it), serial=serial.get(id(it), -1))
                emit(["acquire", r, keyname.index(k)], "released")
            else:
                emit(["post", r], "released")
        elif fn == "wait_for_emptiness":
            if end != "blocked":
                emit(["authStart"])
        elif fn == "populate":
            src = pending_src[0] or {}
            number_new([k for k in src])
            emit(["populate", [[keyname.index(k), tok_info(v), v.priority] for k, v in src.items()]])
        elif fn in ("extended", "close", "wait_for_readiness"):
            return
        else:
            emit(["unknown-segment", fn, who])

    def tok_info(info: Any) -> int:
        return info.aiohttp_session.token

    vault._guard = Guard(report)
    auth.vault_var.set(vault)

    # the traced request function: the raw api.request under the REAL `authenticated`
    raw = api.request.__wrapped__

    async def traced(*a: Any, **kw: Any) -> Any:
        who = asyncio.current_task().get_name()      # type: ignore[union-attr]
        r = rid(who)
        try:
            res = await raw(*a, **kw)
        except (errors.APIUnauthorizedError, errors.APISessionClosed):
            emit(["unauth", r])
            raise
        except asyncio.CancelledError:
            raise
        except BaseException:
            emit(["fail", r])
            raise
        emit(["ok", r])
        return res

    traced.__name__ = "request"
    request = auth.authenticated(traced)

    # login handlers: the j-th activity run follows logins[j] (then: fresh, immortal tokens)
    run_no = [0]
    runs: list[dict] = []

    def make_login(ki: int) -> Any:
        calls = [0]

        async def login(**_: Any) -> Any:
            j = calls[0]
            calls[0] += 1
            spec = case["logins"][j][ki] if j < len(case["logins"]) else {"what": "fresh", "life": None, "delay": 16}
            world.log(ev="login", key=keyname[ki], run=j, t=tk(loop.time()))
            if j >= 40:       # a re-authentication storm: park the activity; the requesters show up as stuck
                await asyncio.Event().wait()
            if spec["delay"]:
                await asyncio.sleep(sec(spec["delay"]))
            hist = revoked_hist[ki]
            if spec["what"] == "none":
                return None
            if spec["what"] == "same" and hist:
                return mk(ki, hist[-1], None)
            if spec["what"] == "old" and hist:
                return mk(ki, hist[0], None)
            if spec["what"] in ("back2", "back3", "back4") and len(hist) >= int(spec["what"][4:]):
                # the credential handed out k logins ago: at / just beyond the edge of what the vault remembers
                return mk(ki, hist[-int(spec["what"][4:])], None)
            if spec["what"] == "same-prio" and hist:      # the same credential value with another priority
                return mk(ki, hist[-1], None, prio=case["keys"][ki]["prio"] + 1)
            if spec["what"] == "other-key":               # the credential another login key has handed out
                others = [t for kj, h in revoked_hist.items() if kj != ki for t in h]
                if others:
                    return mk(ki, others[-1], None)
            return mk(ki, fresh(), spec["life"])
        return login

    registry = registries.OperatorRegistry()
    registry._activities._handlers.clear()
    for ki in range(nkeys):
        registry._activities.append(handlers.ActivityHandler(
            id=keyname[ki], fn=make_login(ki), activity=causes.Activity.AUTHENTICATION,
            errors=execution.ErrorsMode.IGNORED, param=None, timeout=None, retries=None, backoff=None, _fallback=False))
    settings = configuration.OperatorSettings()
    settings.networking.error_backoffs = [sec(b) for b in case["backoffs"]]
    auth_task = asyncio.create_task(activities.authenticator(
        registry=registry, settings=settings, indices=indexing.OperatorIndexers().indices, vault=vault,
        memo=ephemera.Memo()), name="auth")

    results: dict[int, list[str]] = {}

    async def requester(i: int, spec: dict) -> None:
        who = f"r{i}"
        if spec["start"]:
            await asyncio.sleep(sec(spec["start"]))
        results[i] = []
        for call in spec["calls"]:
            if call["gap"]:
                await asyncio.sleep(sec(call["gap"]))
            answers[who] = [list(a) for a in call["answers"]]
            emit(["start", i])
            try:
                await request("get", "/apis/x", settings=settings, logger=env["logger"])
                results[i].append("ok")
            except credentials.LoginError:
                results[i].append("login-error")
            except RuntimeError as e:
                results[i].append("impossible" if "impossible state" in str(e) else "error")
            except Exception:      # noqa: BLE001
                results[i].append("error")

    tasks = [asyncio.create_task(requester(i, spec), name=f"r{i}") for i, spec in enumerate(case["reqs"])]
    done, pending = await asyncio.wait(tasks, timeout=120.0)
    stuck = sorted(int(t.get_name()[1:]) for t in pending)
    crashed = [repr(t.exception()) for t in done if t.exception() is not None]
    auth_dead = auth_task.done()
    for t in list(pending) + [auth_task]:
        t.cancel()
    await asyncio.gather(*pending, auth_task, return_exceptions=True)
    await vault.close()
    return {"labels": labels, "results": {str(k): v for k, v in results.items()}, "stuck": stuck, "crashed": crashed,
            "auth_dead": auth_dead, "events": world.events,
            "init": [[ki, tok_info(init_src[keyname[ki]]), case["keys"][ki]["prio"]] for ki in case["init"]]}


PC_AFTER = {  # label kind + effect → the model's pc kind of that requester after the label
    ("inval", "blocked"): "invalWaiting", ("inval", "released"): "postYield",
    ("invalWake", "released"): "postYield", ("invalWake", "raised"): "done", ("inval", "raised"): "done",
    ("acquire", "released"): "using", ("acquireFail", "raised"): "done",
    ("unauth", None): "invalidating", ("ok", None): "done", ("fail", None): "done", ("start", None): "acquiring",
}


def vault_to_lean(case: dict, obs: dict) -> list:
    nreq = len(case["reqs"])
    return ["C12.vault", obs["init"], list(range(len(case["keys"]))), list(range(nreq)), [l["label"] for l in obs["labels"]]]


def vault_compare(case: dict, obs: dict, model: Any) -> tuple[Any, Any]:
    """(implementation view, model view) in the same canonical shape."""
    impl = {"accepted": len(obs["labels"]), "rejected": None,
            "states": [[l["snap"]["cur"], l["snap"]["inv"], l["snap"]["ready"]] for l in obs["labels"]],
            "pcs": [PC_AFTER.get((l["label"][0], l["effect"])) for l in obs["labels"]]}
    if not (isinstance(model, dict) and "trace" in model):
        return impl, model
    tr = model["trace"]
    states = tr.get("states", [])
    pcs = []
    for l, s in zip(obs["labels"], states):
        lab = l["label"]
        want = PC_AFTER.get((lab[0], l["effect"]))
        if want is None or len(lab) < 2 or not isinstance(lab[1], int):
            pcs.append(want)
        else:
            pcs.append(next((p[1] for p in s["pcs"] if p[0] == lab[1]), "?"))
    mod = {"accepted": tr.get("accepted"), "rejected": tr.get("rejected"),
           "states": [[s["cur"], s["inv"], s["ready"]] for s in states], "pcs": pcs}
    return impl, mod


def vault_final(case: dict, obs: dict, model: Any) -> tuple[Any, Any]:
    """last result of every requester: implementation vs. the model's final pcs"""
    impl = {int(k): (v[-1] if v else None) for k, v in obs["results"].items()}
    for i in obs["stuck"]:
        impl[i] = "stuck"
    states = model["trace"].get("states", []) if isinstance(model, dict) and "trace" in model else []
    if not states:
        return impl, impl if not obs["labels"] else None
    mod = {}
    for p in states[-1]["pcs"]:
        if p[1] == "done":
            mod[p[0]] = p[2]
        elif p[1] == "idle":
            continue
        else:
            mod[p[0]] = "stuck"
    return {k: v for k, v in impl.items() if v is not None}, mod


def oracle_vault(case: dict, obs: dict) -> list[tuple[str, dict]]:
    """From the property text, over the label/event log of the real code (no model)."""
    out = []
    labels = obs["labels"]
    # 1. nobody is left blocked, nobody hits the "impossible state", the authenticator is alive
    if obs["stuck"]:
        out.append((f"requesters {obs['stuck']} never finished (blocked forever)", {"site": "vault", "shape": "blocked-forever"}))
    if obs["auth_dead"]:
        out.append(("the authenticator task died", {"site": "authenticator", "shape": "dead"}))
    if any("impossible" in v for v in obs["results"].values()):
        out.append(("a request ended in 'Reached an impossible state'", {"site": "auth.authenticated", "shape": "impossible-state"}))
    if obs["crashed"]:
        out.append((f"requester task crashed: {obs['crashed'][:1]}", {"site": "harness", "shape": "crash"}))
    # 2. single re-authentication: an authentication activity starts only after the vault was emptied by
    #    a 401 on a credential that was current at that moment (or it was found empty); a 401 that arrives
    #    for an already replaced credential must not remove or block anything.
    prev = None
    holding: dict[int, tuple[int, int]] = {}        # requester → (key, serial) of the yielded item
    removed_tokens: dict[int, list[tuple[int, int]]] = collections.defaultdict(list)   # key → (token, priority) removed by invalidation, in order
    episodes = 0
    populated_since_flip = True
    got_401: dict[int, bool] = {}                   # requester → its current attempt series ended in a 401 / closed session
    removed_at: list[tuple[int, int]] = []          # (token, seq of the invalidation that removed it)
    for l in labels:
        lab, snap = l["label"], l["snap"]
        kind = lab[0]
        if kind in ("acquire", "start"):
            got_401[lab[1]] = False
        if kind == "unauth":
            got_401[lab[1]] = True
        if kind == "inval" and not got_401.get(lab[1]):
            # 'a 401 triggers a single re-authentication': nothing else (a 403, a 5xx, a network error) may discard credentials
            out.append(("credentials were reported as invalid by a request that was not answered with a 401",
                        {"site": "auth.authenticated", "shape": "invalidation-without-401"}))
        if kind == "unknown-segment":
            out.append((f"an unexpected lock segment in {lab[1]}", {"site": "vault", "shape": "unknown-segment"}))
        if kind == "acquire":
            r, ki = lab[1], lab[2]
            cur = {c[0]: c for c in snap["cur"]}
            if ki not in cur:
                out.append(("a credential was yielded that is not in the vault", {"site": "Vault._items", "shape": "yield-not-current"}))
            else:
                holding[r] = (ki, cur[ki][1])
                token = cur[ki][2]
                prio = cur[ki][3]
                if any(token == t for lst in removed_tokens.values() for t, _ in lst):
                    # the property has no bound: an invalidated credential value must never be served again.
                    # Inside what the code remembers (last 3 of the SAME key, SAME priority) it is a plain
                    # violation; outside it is the recorded gap of the mechanism (finding F3).
                    if (token, prio) in removed_tokens[ki][-3:]:
                        out.append((f"token {token} was served again under key {ki} after it had been invalidated",
                                    {"site": "Vault", "shape": "invalid-reused"}))
                    else:
                        how = "same key, more than 3 invalidations ago" if any(token == t for t, _ in removed_tokens[ki]) \
                            and (token, prio) in removed_tokens[ki] else \
                            "same key, other priority" if any(token == t for t, _ in removed_tokens[ki]) else "other key"
                        out.append((f"token {token} was served again under key {ki} after it had been invalidated ({how})",
                                    {"site": "Vault.invalidate/_update_converted",
                                     "shape": "invalidated credential re-served: beyond 3 invalidations / under another key / with another priority"}))
                if any(c[3] > cur[ki][3] for c in snap["cur"]):
                    out.append(("a lower-priority credential was selected", {"site": "Vault.select", "shape": "priority"}))
        if kind == "inval" and prev is not None:
            r = lab[1]
            before = {c[0]: c for c in prev["cur"]}
            after = {c[0]: c for c in snap["cur"]}
            held = holding.get(r)
            gone = [k for k in before if k not in after]
            for k in gone:
                if held is None or (k, before[k][1]) != held:
                    out.append(("a 401 on an already replaced credential removed a different (fresh) credential",
                                {"site": "Vault.invalidate", "shape": "stale-401-removed-fresh"}))
                removed_tokens[k].append((before[k][2], before[k][3]))
                removed_at.append((before[k][2], l["seq"]))
            if prev["ready"] and not snap["ready"] and not gone and prev["cur"]:
                out.append(("a 401 on an already replaced credential triggered a re-authentication",
                            {"site": "Vault.invalidate", "shape": "stale-401-reauth"}))
            if l["effect"] == "blocked" and snap["cur"]:
                out.append(("a request was blocked although valid credentials are available", {"site": "Vault.invalidate", "shape": "blocked-with-credentials"}))
        if kind == "authStart":
            episodes += 1
            if not populated_since_flip:
                out.append(("two authentication activities for one emptiness episode", {"site": "authenticator", "shape": "double-reauth"}))
            populated_since_flip = False
            if snap["ready"] or snap["cur"]:
                out.append(("re-authentication started while credentials are available", {"site": "authenticator", "shape": "reauth-while-ready"}))
        if kind == "populate":
            populated_since_flip = True
        if kind == "invalWake" and l["effect"] == "released" and not snap["cur"]:
            out.append(("a blocked request proceeded without credentials", {"site": "Vault.invalidate", "shape": "proceed-empty"}))
        if kind in ("inval", "invalWake", "acquireFail") and l["effect"] == "raised" and not snap["ready"]:
            # "all blocked requests proceed with fresh credentials": while a re-authentication is pending, a
            # request hit by the 401 must WAIT for it, not fail (LoginError is for a re-authentication that
            # has finished and delivered nothing)
            out.append(("a request failed with LoginError while the re-authentication was still pending (it must wait for it)",
                        {"site": "Vault.invalidate", "shape": "login-error-before-reauth-finished"}))
        if kind in ("invalWake", "acquireFail") and l["effect"] == "raised" and snap["cur"]:
            out.append(("a request failed with LoginError although credentials are available", {"site": "Vault", "shape": "login-error-with-credentials"}))
        prev = snap
    # 3. after a re-authentication every blocked request proceeds with a fresh credential: every attempt of
    #    the fake server's log that follows a populate carries a token that is current (not invalidated
    #    before the attempt's selection).
    flips = sum(1 for a, b in zip([{"ready": bool(obs["init"])}] + [l["snap"] for l in labels], [l["snap"] for l in labels])
                if a["ready"] and not b["ready"]) + (0 if obs["init"] else 1)
    if episodes > flips:
        out.append((f"{episodes} authentication activities for {flips} emptiness episodes", {"site": "authenticator", "shape": "episodes>flips"}))
    # walk events+labels by seq: an attempt must use the credential of the requester's latest selection
    last_sel: dict[str, dict] = {}
    for e in sorted(obs["events"], key=lambda x: x["seq"]):
        if e["ev"] == "select":
            last_sel[e["who"]] = e
        elif e["ev"] == "attempt":
            s = last_sel.get(e["who"])
            if s is None or s["token"] != e["token"]:
                out.append(("an attempt carried a credential other than the one selected for it", {"site": "auth.authenticated", "shape": "wrong-credential"}))
            elif any(tok_ == e["token"] and s["seq"] < at < e["seq"] for tok_, at in removed_at):
                # 'invalidated credentials are not reused': a request that holds a credential from before its
                # invalidation (sleeping in a back-off meanwhile) must not send it again - it has to come back for a fresh one
                out.append((f"{e['who']} sent token {e['token']} again after that credential had been invalidated "
                            f"(selected before the invalidation, used after it)",
                            {"site": "Vault.invalidate/APIContext", "shape": "stale-credential-sent-after-invalidation"}))
    return out


def key_vault(case: dict, obs: dict) -> tuple[str, bool]:
    kinds = [l["label"][0][:5] + (l["effect"] or "")[:1] for l in obs["labels"]]
    return json.dumps([len(case["keys"]), len(case["reqs"]), kinds]), any(l["label"][0] == "inval" for l in obs["labels"])


# =============================================================================================
# part C — containment across objects: the REAL queueing.watcher/worker + the REAL process_resource_event
# (oracle only: no Lean model above throttled())
# =============================================================================================
def gen_contain(rng: random.Random) -> dict:
    n = rng.choice([2, 2, 3, 4])
    objs = []
    for i in range(n):
        r = rng.random()
        kind = "good" if i == n - 1 or r < 0.45 else "bad-index" if r < 0.72 else "bad-event"
        objs.append({"kind": kind, "events": sorted(rng.sample([1024, 2048, 3000, 5120, 9000, 20000], rng.choice([0, 1, 2])))})
    if all(o["kind"] == "good" for o in objs) and rng.random() < 0.8:
        objs[0]["kind"] = rng.choice(["bad-index", "bad-event"])
    r = rng.random()
    delays = {"kind": "list", "ticks": [rng.choice([1024, 61440, 614400])] * rng.choice([1, 2])} if r < 0.7 else \
        {"kind": "empty", "ticks": []} if r < 0.8 else {"kind": "scalar", "ticks": [rng.choice([1024, 5120])], "ints": True}
    with_index = rng.random() < 0.6
    # NB: worker_limit is generated without index handlers only: with an index handler and fewer slots than listed
    # objects the first workers wait for the others' toggles and start-up dead-locks even with no error at all
    # (not this property's clause; reported to C17)
    return {"part": "contain", "objects": objs, "delays": delays, "with_index": with_index,
            "worker_limit": None if with_index else rng.choice([None, None, 1, 2])}


async def _one_contain(env: dict, case: dict) -> dict:
    import functools
    import kopf
    from kopf._cogs.aiokits import aiotoggles
    from kopf._cogs.clients import watching
    from kopf._cogs.structs import references
    from kopf._core.actions import lifecycles
    from kopf._core.reactor import inventory, processing, queueing
    configuration, ephemera, indexing, registries = env["configuration"], env["ephemera"], env["indexing"], env["registries"]
    loop = asyncio.get_running_loop()
    t0 = loop.time()
    handled: list[list] = []
    registry = registries.OperatorRegistry()
    res = references.Resource("example.com", "v1", "things", namespaced=True, kind="Thing", singular="thing",
                              shortcuts=[], categories=[], subresources=[], verbs=["list", "watch", "patch"], preferred=True)
    if case["with_index"]:
        @kopf.index("example.com", "v1", "things", registry=registry, when=lambda spec, **_: spec["idx"] == "ok")
        async def idx(**_: Any) -> int:      # async: no executor thread under the virtual clock
            return 1

    @kopf.on.event("example.com", "v1", "things", registry=registry, when=lambda spec, **_: spec["ev"] == "ok")
    async def ev(name: str, **_: Any) -> None:
        handled.append([name, tk(loop.time() - t0)])

    settings = configuration.OperatorSettings()
    settings.queueing.error_delays = build_seq(case["delays"])
    settings.queueing.worker_limit = case["worker_limit"]
    settings.queueing.idle_timeout = 5
    settings.posting.enabled = False
    settings.persistence.consistency_timeout = 0
    indexers = indexing.OperatorIndexers()
    indexers.ensure(registry._indexing.get_all_handlers())
    memories = inventory.ResourceMemories()
    operator_indexed = aiotoggles.ToggleSet(all)
    # as the orchestrator does: a kind toggle only for resources that have index handlers
    resource_indexed = await operator_indexed.make_toggle(name="things") if case["with_index"] else None

    def body(i: int, o: dict, rv: int) -> dict:
        spec = {"idx": "ok", "ev": "ok", "n": rv}
        if o["kind"] == "bad-index" and case["with_index"]:
            del spec["idx"]            # the index handler's when= raises KeyError
        if o["kind"] == "bad-event" or (o["kind"] == "bad-index" and not case["with_index"]):
            del spec["ev"]             # the event handler's when= raises KeyError
        return {"apiVersion": "example.com/v1", "kind": "Thing", "spec": spec,
                "metadata": {"name": f"o{i}", "namespace": "ns", "uid": f"u{i}", "resourceVersion": str(rv)}}

    delivered: list[list] = []

    async def stream(**_: Any) -> Any:
        for i, o in enumerate(case["objects"]):
            delivered.append([f"o{i}", tk(loop.time() - t0)])
            yield {"type": None, "object": body(i, o, 1)}
        yield watching.Bookmark.LISTED
        later = sorted((t, i) for i, o in enumerate(case["objects"]) for t in o["events"])
        rv = 1
        for t, i in later:
            await asyncio.sleep(max(0.0, t0 + sec(t) - loop.time()))
            rv += 1
            delivered.append([f"o{i}", tk(loop.time() - t0)])
            yield {"type": "MODIFIED", "object": body(i, case["objects"][i], rv)}
        await asyncio.Event().wait()

    processor = functools.partial(processing.process_resource_event, lifecycle=lifecycles.all_at_once, indexers=indexers,
                                  registry=registry, settings=settings, memories=memories, memobase=ephemera.Memo(),
                                  resource=res, event_queue=asyncio.Queue())
    orig = watching.infinite_watch
    watching.infinite_watch = stream
    died = None
    try:
        w = asyncio.create_task(queueing.watcher(namespace=None, settings=settings, resource=res, processor=processor,
                                                 operator_indexed=operator_indexed, resource_indexed=resource_indexed))
        await asyncio.wait([w], timeout=sec(40000))
        if w.done() and not w.cancelled() and w.exception() is not None:
            died = type(w.exception()).__name__ + ": " + repr(w.exception().__cause__)[:80]
        w.cancel()
        await asyncio.gather(w, return_exceptions=True)
    finally:
        watching.infinite_watch = orig
    return {"handled": handled, "delivered": delivered, "died": died, "gate_on": operator_indexed.is_on()}


CONTAIN_SIG = {
    "scalar": {"site": "throttlers.throttled", "shape": "scalar error_delays -> TypeError escapes throttled()"},
    "gate": {"site": "processing.process_resource_event", "shape": "index-readiness toggle not dropped after a swallowed/skipped cycle -> all objects wait"},
    "limit": {"site": "queueing.watcher/throttlers.throttled", "shape": "worker_limit: an object pausing in throttled() keeps its worker slot, other objects wait"},
}


def oracle_contain(case: dict, obs: dict) -> list[tuple[str, dict]]:
    """'pauses only that object … does not stop the operator or delay other objects': every event of a
    healthy object is handled when it is delivered (nothing in these runs takes time), whatever happens to
    the failing objects; the watcher stays alive."""
    out = []
    bad = [i for i, o in enumerate(case["objects"]) if o["kind"] != "good"]
    cause = None
    if bad:
        cause = "scalar" if case["delays"]["kind"] == "scalar" else \
            "gate" if case["with_index"] and any(case["objects"][i]["kind"] == "bad-index" for i in bad) else \
            "limit" if case["worker_limit"] is not None else None
    if obs["died"]:
        out.append((f"the watcher (hence the operator) stopped: {obs['died']}",
                    CONTAIN_SIG["scalar"] if cause == "scalar" else {"site": "queueing.watcher", "shape": "operator-stopped"}))
        return out
    if not bad:
        return out        # no failing object: nothing of this property's to judge (a limit alone delays by design)
    good = {f"o{i}" for i, o in enumerate(case["objects"]) if o["kind"] == "good"}
    todo = [d for d in obs["delivered"] if d[0] in good]
    runs = list(obs["handled"])
    for name, t in todo:
        hit = next((h for h in runs if h[0] == name and h[1] >= t), None)
        if hit is not None:
            runs.remove(hit)
        if hit is None or hit[1] - t > 64:
            late = "never" if hit is None else f"{hit[1] - t} ticks late"
            dcause = "gate" if case["with_index"] and any(case["objects"][i]["kind"] == "bad-index" for i in bad) else \
                "limit" if case["worker_limit"] is not None else None
            sig = CONTAIN_SIG[dcause] if dcause else {"site": "processing", "shape": "healthy-object-delayed"}
            out.append((f"the event of healthy object {name} delivered at {t} was handled {late} while object(s) "
                        f"{['o%d' % i for i in bad]} were failing", sig))
            break
    return out


def key_contain(case: dict, obs: dict) -> tuple[str, bool]:
    return json.dumps([[o["kind"], len(o["events"])] for o in case["objects"]] + [case["delays"]["kind"], case["with_index"],
                      case["worker_limit"], bool(obs["died"]), len(obs["handled"])]), any(o["kind"] != "good" for o in case["objects"])


# =============================================================================================
# part S — the whole operator: the REAL kopf.operator() against the fake API server (harness.sim), scripted
# faults on the operator's own PATCH requests of some objects. Nothing inside kopf is wrapped: the retries
# (api.patch under the real @authenticated), their escalation into process_resource_event, the per-object
# pause of the real throttler in the real worker, the other objects' handling and the operator's survival are
# judged from the fake server's request log and the handler invocations only (oracle only).
# =============================================================================================
SIM_RUNNER = "harness.props.sim_c12:run_contained"
SIM_EPS = 8 / 64            # seconds: a few API latencies (1/64 s each) between an event and the reaction to it
SIM_END = 400.0
SIM_B = [0, 0.25, 0.5, 1, 2]
SIM_D = [2, 4, 8, 16]
SIM_TRANSIENT = [500, 502, 503, 504, 429, 429, 403]
SIM_FATAL = [400, 405, 409, 410, 415, 422, 422, 422, 402, 413, 418, 451, 404]
# 422 and 404 are answers `patching.patch_obj` has clauses of its own for: which of its requests the fault hits (the
# merge-patch of the object / of its /status: an 'other 4xx'; a JSON-patch: a failed resourceVersion test) is decided
# by what the real operator sends at that position — see the `shape` of a scenario below.
SIM_MARKER = "ev"           # id of the on.event handler of a scenario: invoked once per processing cycle that runs


def _gen_sim_fault(rng: random.Random, transient: bool) -> list:
    if not transient:
        return ["status", 422 if rng.random() < 0.2 else rng.choice(SIM_FATAL)]
    r = rng.random()
    if r < 0.15:
        return ["conn-before"]
    if r < 0.22:
        return ["timeout"]
    st = rng.choice(SIM_TRANSIENT)
    if rng.random() < (0.6 if st == 429 else 0.25):
        ra = rng.choice([0, 1, 2, 3, 5, 1.5, 0.25] + ([75] if rng.random() < 0.3 else []))
        if rng.random() < 0.7:
            return ["status", st, {rng.choice(["Retry-After", "Retry-After", "retry-after"]): str(ra)}]
        return ["status", st, {}, {"retryAfterSeconds": ra}]
    return ["status", st]


def gen_sim(rng: random.Random) -> dict:
    nb = rng.choice([0, 1, 2, 2, 3])
    backoffs: Any = [rng.choice(SIM_B) for _ in range(nb)]
    if nb == 1 and rng.random() < 0.4:
        backoffs = backoffs[0]                       # a scalar error_backoffs
    r = rng.random()
    delays: Any = [rng.choice(SIM_D + [700] * (rng.random() < 0.2)) for _ in range(rng.choice([1, 2, 3]))] if r < 0.75 else \
        rng.choice(SIM_D) if r < 0.9 else []
    nobj = rng.choice([2, 2, 3])
    nfaulty = 1 if nobj == 2 else rng.choice([1, 2])
    names = [f"o{i}" for i in range(nobj)]
    faults: dict[str, list] = {}
    timeline: list[list] = []
    serial = [0]

    def edit(t: float, name: str) -> None:
        serial[0] += 1
        timeline.append([t, "edit", name, {"spec": {"x": serial[0]}}])

    for name in names[:nfaulty]:
        script: list = []
        for _ in range(rng.choice([1, 1, 2, 3, 4])):
            how = rng.choice(["exhaust", "exhaust", "fatal", "recover"])
            if how == "exhaust":
                script += [_gen_sim_fault(rng, True) for _ in range(nb + 1)]
            else:
                script += [_gen_sim_fault(rng, True) for _ in range(rng.randint(0, nb))]
                script.append(_gen_sim_fault(rng, False) if how == "fatal" else None)
        # 0-3 requests served normally first: the scripted faults then fall on later requests of the object (the
        # merge-patch of its /status, the JSON-patch of a finalizer, the requests of a later cycle)
        faults[name] = [None] * rng.choice([0, 0, 0, 1, 1, 2, 3]) + script
        for _ in range(rng.choice([2, 3, 4, 6])):
            edit(rng.randrange(2, 320) / 4, name)              # 0.5 … 80 s: into the passes and the pauses
        edit(300.0, name)                                      # long after the last scripted fault
    for name in names[nfaulty:]:
        for _ in range(rng.choice([1, 2, 3])):
            edit(rng.randrange(2, 480) / 4, name)
    sc = {"seed": rng.randrange(1 << 30), "runner": SIM_RUNNER,
          "settings": {"queueing.error_delays": delays, "networking.error_backoffs": backoffs,
                       "networking.enforce_retry_after": rng.random() < 0.25, "networking.request_timeout": 4.0},
          "handlers": [{"kind": "create", "id": "c1", "script": []}, {"kind": "update", "id": "u1", "script": []}],
          "objects": [{"name": n} for n in names], "timeline": sorted(timeline, key=lambda e: e[0]),
          "patch_faults": faults, "end": SIM_END}
    # the shape of the cycle's API work: what the REAL application.apply -> patching.patch_obj has to send. Two
    # thirds of the scenarios make it more than the one merge-patch of the object: results for the status stanza
    # (with /status a subresource: a second merge-patch), a deletion handler (the finalizer goes in by a JSON-patch
    # with a resourceVersion test, in a cycle of its own before the handlers). The scripted faults fall on these
    # requests in the order the operator sends them.
    if rng.random() < 0.67:
        results, sub, fin = rng.random() < 0.7, rng.random() < 0.6, rng.random() < 0.5
        if results:
            sc["handlers"][0]["default"] = ["ok", {"r": 1}]
            sc["handlers"][1]["default"] = ["ok", {"r": 2}]
        if sub:
            sc["status_subresource"] = True
        if fin:
            sc["handlers"].append({"kind": "delete", "id": "d1", "script": []})
        sc["handlers"].append({"kind": "event", "id": SIM_MARKER, "script": []})
    return {"part": "sim", "sc": sc}


def run_sims(cases: list[dict], wall: float = 40.0) -> list[dict]:
    """Every scenario in a subprocess worker (stall-safe); one observation per case."""
    from harness.sim import pool
    if not cases:
        return []
    res = pool.run_many([dict(c["sc"], runner=SIM_RUNNER) for c in cases], wall=wall, batch=4 if len(cases) <= 200 else 16)
    out = []
    for r in res:
        if "trace" in r:
            out.append(r["trace"])
        elif r.get("stall"):
            out.append({"sim_error": "stall: the simulation spun without suspending", "stderr": (r.get("stderr") or "")[-1500:]})
        else:
            raise RuntimeError(f"whole-operator run failed in the harness: {r.get('harness_error')}: {r.get('tb', '')[-1500:]}")
    return out


def _sim_requested(spec: list | None) -> float | None:
    """what the server asked for in this answer (seconds), from the injected fault itself"""
    if not spec or spec[0] != "status":
        return None
    for k, v in (spec[2] if len(spec) > 2 and isinstance(spec[2], dict) else {}).items():
        if k.lower() == "retry-after":
            return float(v)
    det = spec[3] if len(spec) > 3 and isinstance(spec[3], dict) else {}
    return float(det["retryAfterSeconds"]) if det.get("retryAfterSeconds") else None


def _sim_class(p: dict) -> str:
    """the property's reading of one answer: ok | transient | fatal | special (not judged)"""
    r = p["resp"]
    if r in ("conn-error", "timeout"):
        return "transient"
    if not isinstance(r, int):
        return "special"
    if r < 400:
        return "ok"
    if r in (403, 429) or 500 <= r < 600:
        return "transient"
    if r == 422 and "json-patch" not in (p.get("ctype") or ""):
        return "fatal"            # an 'other 4xx' like any: only a JSON-patch (it carries a `test` of the
                                  # resourceVersion) can be refused with 422 because newer changes exist
    if r in (401, 404, 422) or r >= 600:
        return "special"          # re-authentication / 'the object is gone' / a failed resourceVersion test of a
                                  # JSON-patch: other mechanisms
    return "fatal"


def oracle_sim(case: dict, obs: dict) -> list[tuple[str, dict]]:
    """From the property text over the fake server's request log and the handler invocations."""
    out: list[tuple[str, dict]] = []
    sc = case["sc"]
    if obs.get("sim_error"):
        out.append((f"the operator's run did not complete: {obs['sim_error']}", {"site": "operator", "shape": "stalled"}))
        return out
    st = sc["settings"]
    B = st["networking.error_backoffs"]
    B = list(B) if isinstance(B, list) else [B]
    D = st["queueing.error_delays"]
    D = list(D) if isinstance(D, list) else [D]
    enforce = st["networking.enforce_retry_after"]
    end = float(sc["end"])
    final = [m for m in obs["marks"] if m["what"] == "stopped" and m.get("final")]
    if obs.get("died") or not final or final[0].get("result") != "None":
        out.append((f"the operator did not survive the faults: {obs.get('died') or (final[0].get('result') if final else 'not running at the end')}",
                    {"site": "operator", "shape": "operator-stopped"}))
        return out
    faulty = set(sc.get("patch_faults") or {})
    for o in sc["objects"]:
        name = o["name"]
        P = obs["patches"].get(name, [])
        edits = sorted(e[0] for e in sc["timeline"] if e[1] == "edit" and e[2] == name)
        acts = sorted([c[1] for c in obs["calls"] if c[0] == name] + [p["t"] for p in P])

        def reacted(t0: float, what: str, shape: str) -> None:
            """something of this object (a handler, a request) must run within SIM_EPS of t0"""
            if t0 + SIM_EPS >= end:
                return
            hit = next((a for a in acts if a >= t0), None)
            if hit is None or hit - t0 > SIM_EPS:
                late = "never" if hit is None else f"{hit - t0:g} s late"
                out.append((f"{name}: {what} at {t0:g}: handled {late}", {"site": "operator", "shape": shape}))

        if name not in faulty:
            # 'does not delay other objects': a healthy object is handled when its events arrive
            reacted(0.0, "listed", "healthy-object-delayed")
            for te in edits:
                reacted(te, "changed", "healthy-object-delayed")
            bad = [p for p in P if _sim_class(p) != "ok"]
            if bad:
                out.append((f"{name}: a request of a healthy object failed: {bad[0]['resp']}", {"site": "harness", "shape": "fault-leak"}))
            continue
        i, k = 0, 0
        spans: list[tuple[float, float]] = []       # (start of a cycle's first request, until when the object is busy or paused)
        judged_all = True
        # a processing of the object = one invocation of its handlers and the requests up to the next one (with the
        # on.event marker of the scenario: one per cycle that runs). An answered request followed by another request
        # of the same processing is not yet 'a success' of the processing: the count of consecutive errors stands.
        starts = _sim_starts(case, obs, name)

        def cyc(p: dict) -> int:
            return sum(1 for t0 in starts if t0 <= p["t"])
        while i < len(P) and len(out) < 6:
            j, idx, ending = i, 0, None
            while ending is None:
                p = P[j]
                cls = _sim_class(p)
                if cls in ("ok", "fatal", "special"):
                    ending = cls
                elif idx >= len(B):
                    ending = "exhausted"
                else:
                    b, ra = B[idx], _sim_requested(p["spec"])
                    due = max(b, ra or 0.0) if not (enforce and ra is not None) else ra
                    nxt = P[j + 1] if j + 1 < len(P) else None
                    if nxt is None or nxt["t"] - p["t_end"] > due + 1.0 + SIM_EPS:
                        if p["t_end"] + due + 1.0 + SIM_EPS < end:
                            gap = "never" if nxt is None else f"after {nxt['t'] - p['t_end']:g} s"
                            out.append((f"{name}: a transient failure ({p['resp']}) of attempt #{idx + 1} was retried {gap}; "
                                        f"backoff {b:g} s, {len(B) - idx} retries left", {"site": "operator", "shape": "transient-not-retried"}))
                        ending = "abandoned"
                        break
                    gap = nxt["t"] - p["t_end"]
                    if gap < b and not (enforce and ra is not None):
                        out.append((f"{name}: waited {gap:g} s before retry #{idx + 1}, configured backoff {b:g} s",
                                    {"site": "operator", "shape": "gap<backoff"}))
                    if ra is not None and gap < ra:
                        out.append((f"{name}: waited {gap:g} s after an HTTP {p['resp']} asking for {ra:g} s",
                                    {"site": "operator", "shape": "gap<retry-after"}))
                    j, idx = j + 1, idx + 1
            p = P[j]
            if ending in ("special", "abandoned"):
                judged_all = False
                break
            if ending == "ok":
                if not (j + 1 < len(P) and cyc(P[j + 1]) == cyc(p)):
                    k = 0
                spans.append((P[i]["t"], p["t_end"]))
            elif ending in ("fatal", "exhausted"):
                # 'an escalated error pauses that object for the configured error delays (growing per consecutive error)'
                T = p["t_end"]
                pause = D[min(k, len(D) - 1)] if D else None
                k += 1
                deadline = T + (pause or 0.0)
                later = [a for a in acts if a >= T and a > p["t"]]
                if pause and later and later[0] < deadline:
                    out.append((f"{name}: escalated at {T:g} (consecutive error #{k}), the configured pause is {pause:g} s, "
                                f"but the object was processed again at {later[0]:g}", {"site": "operator", "shape": "pause-not-served"}))
                spans.append((P[i]["t"], deadline))
            if j + 1 < len(P) and cyc(P[j + 1]) > cyc(p) + 1 and _sim_marked(case):
                k = 0        # 'reset by a success': a processing ran in between that needed no request at all
            i = j + 1
        # 'processing recovers once errors stop': every change of the object is taken up — at once, or, when it comes
        # while the object is busy with a request (and its retries) or serving a pause, when that is over
        if judged_all and not out:
            for te in edits:
                x = te
                for a, b in spans:
                    if a < x < b:
                        x = b
                reacted(x, f"changed at {te:g}, free (no request in flight, no pause to serve)", "no-recovery-after-pause")
    return out


def _sim_marked(case: dict) -> bool:
    return any(h.get("id") == SIM_MARKER for h in case["sc"].get("handlers", []))


def _sim_starts(case: dict, obs: dict, name: str) -> list[float]:
    """when the processings of the object that ran began, as observed: the invocations of the scenario's on.event
    marker (one per cycle that runs, before anything else of the cycle); without a marker: of any handler"""
    marked = _sim_marked(case)
    return sorted(c[1] for c in obs["calls"] if c[0] == name and (not marked or c[2] == SIM_MARKER))


def _sim_kind(p: dict) -> str:
    """which request of patch_obj this is, from what was sent: Content-Type and URL"""
    return ("json" if "json-patch" in (p.get("ctype") or "") else "merge") + "-" + ("status" if p.get("sub") == "status" else "body")


def sim_cycles(case: dict, obs: dict, name: str) -> list[dict]:
    """the observed processings of one object, marker by marker: start, and the API calls made in it (a call = the
    consecutive requests of one kind up to an answered one; grouping by observation only)."""
    P = obs["patches"].get(name, [])

    def split(ps: list[dict]) -> list[list[dict]]:
        calls: list[list[dict]] = []
        for p in ps:
            prev = calls[-1][-1] if calls else None
            if prev is not None and _sim_kind(prev) == _sim_kind(p) and not (isinstance(prev["resp"], int) and prev["resp"] < 400):
                calls[-1].append(p)
            else:
                calls.append([p])
        return calls

    if not _sim_marked(case):
        # no marker in the scenario (the one-merge-patch shape): a cycle = a handler invocation and its requests
        return [{"t": ps[0]["t"], "calls": split(ps)} for ps in sim_passes(obs, name)]
    starts = _sim_starts(case, obs, name)
    out = []
    for n, t0 in enumerate(starts):
        t1 = starts[n + 1] if n + 1 < len(starts) else float("inf")
        out.append({"t": t0, "calls": split([p for p in P if t0 <= p["t"] < t1])})
    return out


def sim_passes(obs: dict, name: str) -> list[list[dict]]:
    """the observed cycles of one object that made requests: a cycle starts with a handler invocation, its
    requests are those up to the next one (grouping by observation, not by what the retry logic should do)"""
    starts = sorted(c[1] for c in obs["calls"] if c[0] == name)
    passes: list[tuple[int | None, list[dict]]] = []
    for p in obs["patches"].get(name, []):
        k = max((i for i, t in enumerate(starts) if t <= p["t"]), default=None)
        if passes and passes[-1][0] == k:
            passes[-1][1].append(p)
        else:
            passes.append((k, [p]))
    return [ps for _, ps in passes]


def _sim_att(p: dict) -> dict | None:
    """one answered PATCH as the model's attempt (None: an answer outside the model's vocabulary)"""
    lat = tk(p["t_end"] - p["t"])
    r = p["resp"]
    if r == "conn-error":
        return {"lat": lat, "f": ["exc", True, False, False, False, False]}
    if r == "timeout":
        return {"lat": lat, "f": ["exc", False, True, False, False, False]}
    if not isinstance(r, int):
        return None
    if r < 400:
        return {"lat": lat, "f": ["ok"]}
    spec = p["spec"] or ["status", r]
    hdr = None
    for k, v in (spec[2] if len(spec) > 2 and isinstance(spec[2], dict) else {}).items():
        if k.lower() == "retry-after":
            hdr = classify_hdr(v, 0)
            if hdr is not None and k != "Retry-After":
                hdr = ["other-case", hdr[1]]
    det = spec[3].get("retryAfterSeconds") if len(spec) > 3 and isinstance(spec[3], dict) else None
    return {"lat": lat, "f": ["http", r, hdr, "status", None if det is None else tk(float(det)), False]}


def sim_to_lean(case: dict, obs: dict) -> tuple[list[list], list[tuple[str, list[list[dict]]]]]:
    """one C12.object request per faulty object: its observed cycles (start, the answers its call met)"""
    st = case["sc"]["settings"]
    B, D = st["networking.error_backoffs"], st["queueing.error_delays"]
    cfg = {"backoffs": {"list": [tk(b) for b in B]} if isinstance(B, list) else {"scalar": tk(B)},
           "enforce": st["networking.enforce_retry_after"]}
    delays = {"list": [tk(d) for d in D]} if isinstance(D, list) else {"scalar": tk(D)}
    reqs, index = [], []
    if obs.get("sim_error") or obs.get("died"):
        return reqs, index
    for name in sorted(case["sc"].get("patch_faults") or {}):
        # the cycle's API work is one patch_obj: its calls with their kinds (model part 5), every cycle that ran
        cycles = sim_cycles(case, obs, name)
        if not cycles or any(p["t"] < cycles[0]["t"] for p in obs["patches"].get(name, [])):
            continue
        atts = [[[_sim_att(p) for p in call] for call in c["calls"]] for c in cycles]
        if any(a is None for cc in atts for aa in cc for a in aa):
            continue
        reqs.append(["C12.objectP", cfg, delays,
                     [{"t": tk(c["calls"][0][0]["t"] if c["calls"] else c["t"]),
                       "calls": [{"kind": _sim_kind(call[0]), "script": aa} for call, aa in zip(c["calls"], cc)],
                       "wake2": 0} for c, cc in zip(cycles, atts)]])
        index.append((name, cycles))
    return reqs, index


def sim_compare(case: dict, obs: dict, answers: list[Any]) -> list[tuple[str, Any, Any]]:
    """the operator's PATCH schedule of every faulty object against patch_obj-model ∘ request-model ∘ throttler-model:
    the calls of every cycle and their attempts (exact ticks), how each call ended, and — when a change of the object was
    waiting — the instant the object is processed again = the model's `active_until`."""
    res = []
    _, index = sim_to_lean(case, obs)
    sc = case["sc"]
    for (name, passes), m in zip(index, answers):
        edits = sorted(e[0] for e in sc["timeline"] if e[1] == "edit" and e[2] == name)
        cycles = passes
        impl = [[{"times": [tk(p["t"]) for p in call], "ok": isinstance(call[-1]["resp"], int) and call[-1]["resp"] < 400}
                 for call in c["calls"]] for c in cycles]
        if not isinstance(m, list):
            res.append((f"operator: PATCH schedule of {name}", impl, m))
            continue
        res.append((f"operator: the calls of patch_obj for {name} and their attempts, cycle by cycle", impl,
                    [[{"times": x.get("times"), "ok": x.get("outcome") == "ok"} for x in (c.get("calls") or [])] for c in m]))
        resume_i, resume_m = [], []
        for i, (c, x) in enumerate(zip(cycles, m)):
            u = x.get("until")
            if u is None or i + 1 >= len(cycles) or not c["calls"]:
                continue
            if any(tk(c["calls"][0][0]["t"]) < tk(te) <= u for te in edits):
                resume_i.append(tk(cycles[i + 1]["t"]))
                resume_m.append(u)
        res.append((f"operator: {name} is processed again when its pause ends", resume_i, resume_m))
        if any(x.get("escaped") != "none" for x in m):
            res.append((f"operator: nothing escapes the cycles of {name}", "none", [x.get("escaped") for x in m]))
    return res


def key_sim(case: dict, obs: dict) -> tuple[str, bool]:
    sc = case["sc"]
    kinds = {n: [_sim_class(p)[0] + str(p["resp"])[:3] + _sim_kind(p)[0] + _sim_kind(p)[-1] for p in obs.get("patches", {}).get(n, [])]
             for n in sorted(sc.get("patch_faults") or {})}
    st = sc["settings"]
    return json.dumps([kinds, st["networking.error_backoffs"], st["queueing.error_delays"], st["networking.enforce_retry_after"]]), \
        any(_sim_class(p) != "ok" for ps in obs.get("patches", {}).values() for p in ps)


# =============================================================================================
# running cases (in-process or in a pool of shard workers)
# =============================================================================================
GEN = {"request": gen_request, "throttle": gen_throttle, "vault": gen_vault, "contain": gen_contain, "sim": gen_sim}


def _env() -> dict:
    env = _imports()
    lg = logging.getLogger("verif.c12")
    lg.setLevel(logging.CRITICAL + 1)
    lg.propagate = False
    logging.getLogger("kopf").setLevel(logging.CRITICAL + 1)
    env["logger"] = lg
    # api.py reads the wall clock for HTTP-date Retry-After values: same shim as install_wall_clock()
    if hasattr(env["api"], "datetime"):
        env["api"].datetime = env["simloop"]._SHIM
    return env


def run_cases(cases: list[dict], wall_limit: float = 900.0) -> list[dict]:
    """Run the cases on the real code under virtual time; returns one observation per case."""
    if any(c["part"] == "sim" for c in cases):      # whole-operator runs: each on its own loop, in subprocesses
        sims = iter(run_sims([c for c in cases if c["part"] == "sim"]))
        rest = iter(run_cases([c for c in cases if c["part"] != "sim"], wall_limit))
        return [next(sims) if c["part"] == "sim" else next(rest) for c in cases]
    if not cases:
        return []
    env = _env()
    simloop = env["simloop"]
    out: list[dict] = []

    async def main() -> None:
        for case in cases:
            if case["part"] == "request":
                out.append(await _one_request(env, case))
            elif case["part"] == "throttle":
                out.append(await _one_throttle(env, case))
            elif case["part"] == "vault":
                out.append(await _one_vault(env, case))
            elif case["part"] == "contain":
                out.append(await _one_contain(env, case))
            else:
                raise ValueError(f"unknown part {case['part']!r}")

    simloop.run_sim(main, wall_limit=wall_limit)
    return out


def judge(case: dict, obs: dict) -> list[tuple[str, dict]]:
    if case["part"] == "request":
        return oracle_request(case, obs)
    if case["part"] == "throttle":
        fails = []
        for o in obs["objects"]:
            fails += oracle_throttle(case, o)
        return fails
    if case["part"] == "contain":
        return oracle_contain(case, obs)
    if case["part"] == "sim":
        return oracle_sim(case, obs)
    return oracle_vault(case, obs)


def product_events(case: dict, obs: dict) -> list[tuple[int, int, dict, dict]]:
    """(start, object, cycle input, observed output) of every cycle of every object, in clock order"""
    evs = []
    for k, o in enumerate(obs["objects"]):
        for c, r in zip(throttle_to_lean(case, o)[3], o["outs"]):
            evs.append((r["body_start"] - r["sleep1"], k, c, r))
    evs.sort(key=lambda e: (e[0], e[1]))
    return evs


def lean_requests(case: dict, obs: dict) -> list[list]:
    if case["part"] == "request":
        return [request_to_lean(case, obs)]
    if case["part"] == "throttle":
        reqs = [throttle_to_lean(case, o) for o in obs["objects"]]
        if len(obs["objects"]) > 1:      # the product system: all objects on the one observed clock
            reqs.append(["C12.product", seq_to_lean(case["delays"]),
                         [{"obj": k, "at": t, "in": c} for t, k, c, _ in product_events(case, obs)]])
        return reqs
    if case["part"] == "contain":
        return []                       # oracle only
    if case["part"] == "sim":
        return sim_to_lean(case, obs)[0]
    return [vault_to_lean(case, obs)]


def tie_compare(case: dict, obs: dict, answers: list[Any]) -> list[tuple[str, Any, Any]]:
    """[(what, impl, model)] for every comparison of this case (equal or not)."""
    res = []
    models = [a[1] if isinstance(a, list) and len(a) == 2 and a[0] == "ok" else a for a in answers]
    if case["part"] == "request":
        impl = {"times": obs["times"], "outcome": obs["outcome"], "fin": obs["fin"]}
        m = models[0]
        mod = {k: m[k] for k in ("times", "outcome", "fin")} if isinstance(m, dict) else m
        res.append(("api.request attempt times and result", impl, mod))
        if isinstance(m, dict):      # the sleeps are the gaps between an attempt's end and the next attempt
            gaps = [obs["times"][i + 1] - obs["times"][i] - case["script"][i]["lat"] for i in range(len(obs["times"]) - 1)]
            res.append(("api.request back-off sleeps", gaps, [max(0, w) for w in m["waits"]]))
    elif case["part"] == "throttle":
        for o, m in zip(obs["objects"], models):
            a, b = throttle_canon(case, o["outs"], m if isinstance(m, list) else [m])
            res.append(("throttled cycle outputs", a, b))
        if len(obs["objects"]) > 1:
            m = models[len(obs["objects"])]
            evs = product_events(case, obs)
            if isinstance(m, list) and all(isinstance(x, list) and len(x) == 2 for x in m):
                a, b = throttle_canon(case, [e[3] for e in evs], [x[1] for x in m])
                res.append(("product run of all objects on one clock", [[e[1] for e in evs], a], [[x[0] for x in m], b]))
            else:
                res.append(("product run of all objects on one clock", "ok", m))
    elif case["part"] == "contain":
        pass
    elif case["part"] == "sim":
        res += sim_compare(case, obs, models)
    else:
        m = models[0]
        a, b = vault_compare(case, obs, m)
        res.append(("vault trace acceptance and state after every label", a, b))
        a, b = vault_final(case, obs, m)
        res.append(("vault requesters' final results", a, b))
    return res


def case_key(case: dict, obs: dict) -> tuple[str, bool]:
    if case["part"] == "request":
        return key_request(case, obs)
    if case["part"] == "throttle":
        keys = [key_throttle(case, o) for o in obs["objects"]]
        return json.dumps([k for k, _ in keys]), any(nt for _, nt in keys)
    if case["part"] == "contain":
        return key_contain(case, obs)
    if case["part"] == "sim":
        return key_sim(case, obs)
    return key_vault(case, obs)


def histogram(case: dict, obs: dict, hist: dict) -> None:
    def c(g: str, t: Any, n: int = 1) -> None:
        hist.setdefault(g, {})
        hist[g][str(t)] = hist[g].get(str(t), 0) + n
    c("part", case["part"])
    if case["part"] == "request":
        c("request.backoffs", case["backoffs"]["kind"])
        c("request.attempts", len(obs["times"]))
        c("request.outcome", obs["outcome"])
        c("request.enforce_retry_after", case["enforce"])
        for a in case["script"][:len(obs["times"])]:
            c("request.fault", a["status"] if a["kind"] == "http" else a["exc"])
            if a["kind"] == "http" and a["status"] == 429:
                kind = "http-date" if a.get("hdr_date") is not None else (classify_hdr(a.get("hdr"), 0) or ["none"])[0]
                if a.get("hdr_name", "Retry-After") != "Retry-After":
                    kind += "(other spelling)"
                if kind == "secs" and float(a["hdr"]) < 0:
                    kind = "secs(negative)"
                c("request.retry_after", kind + ("+details" if a.get("det") else ""))
            if a["kind"] == "http" and a["status"] >= 400:
                c("request.body", a.get("payload", "empty") + ("+unusable-details" if det_class(a.get("det"))[1] else ""))
        c("request.method", case.get("method", "get") if not case.get("via") else "api." + case["via"])
        if case.get("method") and not case.get("via"):
            c("request.content_type", case.get("ctype"))
        if case.get("via"):
            c("request.via_get", "body-read-fails" if case.get("body_exc") else "body-ok")
        for a in case["script"][:len(obs["times"])]:
            if a.get("hdr_date") is not None:
                c("request.http_date_form", a.get("hdr_date_form", "gmt"))
    elif case["part"] == "throttle":
        c("throttle.delays", case["delays"]["kind"])
        c("throttle.objects", len(case["objects"]))
        for o in obs["objects"]:
            c("throttle.cycles", len(o["outs"]))
            for cy, r in zip(o["cycles"], o["outs"]):
                c("throttle.body", cy["body"])
                c("throttle.should_run", r["shouldRun"])
                c("throttle.escaped", r["escaped"])
                c("throttle.activated", r["activated"])
                c("throttle.interrupted", r["st"]["until"] is not None)
    elif case["part"] == "sim":
        st = case["sc"]["settings"]
        c("sim.objects", f"{len(case['sc']['objects'])} ({len(case['sc'].get('patch_faults') or {})} faulty)")
        c("sim.error_backoffs", "scalar" if not isinstance(st["networking.error_backoffs"], list) else len(st["networking.error_backoffs"]))
        c("sim.error_delays", "scalar" if not isinstance(st["queueing.error_delays"], list) else len(st["queueing.error_delays"]))
        c("sim.enforce_retry_after", st["networking.enforce_retry_after"])
        hs = case["sc"].get("handlers", [])
        c("sim.shape", "+".join(["merge"] + (["results"] if any(isinstance(h.get("default"), list) for h in hs) else [])
                                + (["status-subresource"] if case["sc"].get("status_subresource") else [])
                                + (["finalizer"] if any(h["kind"] == "delete" for h in hs) else [])))
        for ps in obs.get("patches", {}).values():
            for p_ in ps:
                c("sim.patch_answer", p_["resp"])
                c("sim.patch_request", _sim_kind(p_))
                if p_["spec"] is not None:
                    c("sim.fault_on", f"{_sim_kind(p_)}:{_sim_class(p_)}" + (f":{p_['resp']}" if p_["resp"] in (404, 422) else ""))
                if _sim_requested(p_["spec"]) is not None:
                    c("sim.retry_after", "header" if len(p_["spec"]) > 2 and p_["spec"][2] else "details")
        c("sim.outcome", "stalled" if obs.get("sim_error") else "died" if obs.get("died") else "alive")
    elif case["part"] == "contain":
        c("contain.objects", "/".join(sorted(o["kind"] for o in case["objects"])))
        c("contain.delays", case["delays"]["kind"])
        c("contain.worker_limit", case["worker_limit"])
        c("contain.with_index", case["with_index"])
        c("contain.watcher_died", bool(obs["died"]))
        c("contain.handled", len(obs["handled"]))
    else:
        c("vault.requesters", len(case["reqs"]))
        c("vault.keys", len(case["keys"]))
        c("vault.trace_length", (len(obs["labels"]) // 10) * 10)
        for l in obs["labels"]:
            c("vault.label", l["label"][0] + ("/" + l["effect"] if l["effect"] else ""))
        c("vault.episodes", sum(1 for l in obs["labels"] if l["label"][0] == "authStart"))
        c("vault.concurrent_401", max([0] + [sum(1 for l in obs["labels"] if l["label"][0] == "inval" and l["effect"] == "blocked")]))
        for v in obs["results"].values():
            for x in v:
                c("vault.result", x)


_PRIVATE_DRIVER = '''import Kopf.Drv.C12
open Lean Kopf.Drv
def respond (line : String) : Json :=
  match Json.parse line with
  | .ok (.arr xs) =>
    match xs.toList with
    | .str op :: args => (C12.handle op args).getD (.arr #[.str "bad-op"])
    | _ => .arr #[.str "bad-op"]
  | _ => .arr #[.str "bad-op"]
partial def loop (h : IO.FS.Stream) (out : IO.FS.Stream) : IO Unit := do
  let line ← h.getLine
  if line.isEmpty then return ()
  let l := line.trimAscii.toString
  if l.isEmpty then loop h out else
  out.putStrLn (respond l).compress
  loop h out
def main : IO Unit := do
  let out ← IO.getStdout
  loop (← IO.getStdin) out
  out.flush
'''


def ask_lean(requests: list) -> list:
    """The shared line-protocol driver; if it cannot start because ANOTHER property's module is
    missing/broken in the shared tree (Driver.lean imports all of them), the same protocol is served
    by a private main that imports Kopf.Drv.C12 only (local harness feature; same handler)."""
    try:
        return leanio.Driver(["C12"]).ask(requests)
    except leanio.LeanError as first:
        import shutil
        import tempfile
        d = tempfile.mkdtemp(prefix="c12drv")
        try:
            path = os.path.join(d, "DriverC12.lean")
            with open(path, "w") as f:
                f.write(_PRIVATE_DRIVER)
            payload = "".join(json.dumps(r, ensure_ascii=False, separators=(",", ":")) + "\n" for r in requests)
            p = leanio._run(["lake", "env", "lean", "--run", path], timeout=1800, input=payload)
            outs = [json.loads(l) for l in p.stdout.splitlines() if l.startswith("[")]
            if p.returncode != 0 or len(outs) != len(requests):
                raise first
            return outs
        finally:
            shutil.rmtree(d, ignore_errors=True)


def evaluate(cases: list[dict], with_lean: bool = True) -> dict:
    """Run cases, judge them, (optionally) compare with the Lean model. Pure function of the cases."""
    observations = run_cases(cases)
    res: dict[str, Any] = {"n": len(cases), "keys": [], "oracle": [], "tie": [], "hist": {}, "samples": [],
                           "comparisons": 0, "traces": 0, "lean_error": None}
    reqs: list[list] = []
    spans = []
    for case, obs in zip(cases, observations):
        for what, sig in judge(case, obs):
            res["oracle"].append({"what": what, "signature": sig, "replay": {"case": case, "impl": _brief(case, obs)}})
        k, nt = case_key(case, obs)
        res["keys"].append((k, nt))
        histogram(case, obs, res["hist"])
        lr = lean_requests(case, obs) if with_lean else []
        spans.append((len(reqs), len(reqs) + len(lr)))
        reqs += lr
    if with_lean and reqs:
        try:
            answers = ask_lean(reqs)
        except leanio.LeanError as e:
            res["lean_error"] = f"{e}: {e.log[-1500:]}"
            return res
        for case, obs, (a, b) in zip(cases, observations, spans):
            for what, impl, model in tie_compare(case, obs, answers[a:b]):
                res["comparisons"] += 1
                if leanio.canon(impl) != leanio.canon(model):
                    if len(res["tie"]) < 20:
                        res["tie"].append({"what": what, "replay": {"case": case, "impl": impl, "model": model}})
            res["traces"] += 1
    for case, obs in list(zip(cases, observations))[:2]:
        res["samples"].append({"case": case, "impl": _brief(case, obs)})
    return res


def _brief(case: dict, obs: dict) -> Any:
    if case["part"] == "request":
        return {k: obs[k] for k in ("t0", "times", "outcome", "fin", "exc", "status")}
    if case["part"] == "throttle":
        return [o["outs"] for o in obs["objects"]]
    if case["part"] in ("contain", "sim"):
        return obs
    return {"labels": [[l["label"], l["effect"], l["t"]] for l in obs["labels"]][:200], "results": obs["results"],
            "stuck": obs["stuck"]}


def _shard(args: tuple) -> dict:
    seed, counts, with_lean = args
    rng = random.Random(seed)
    cases = []
    for part, n in counts:
        for _ in range(n):
            cases.append(GEN[part](rng))
    return evaluate(cases, with_lean)


def _absorb(ctx: Ctx, res: dict, oracle_only: bool = False) -> None:
    for k, nt in res["keys"]:
        ctx.case(key=k, nontrivial=nt)
    for s in res["samples"]:
        if len(ctx.samples) < 6:
            ctx.samples.append(s)
    for g, d in res["hist"].items():
        for t, n in d.items():
            ctx.count(g, t, n)
    for f in res["oracle"]:
        ctx.oracle_fail(f["what"], f["replay"], f["signature"])
    if oracle_only:
        return
    if res["lean_error"]:
        # a toolchain failure is not a verdict about the property (exit 2, never a VIOLATION line)
        raise RuntimeError("Lean driver failed: " + res["lean_error"])
    ctx.tie_comparisons += res["comparisons"]
    ctx.traces += res["traces"]
    for t in res["tie"]:
        if sum(1 for f in ctx.failures if f.kind == "tie") < 50:
            ctx.tie_fail(f"{t['what']}: implementation and model differ", t["replay"])


def _plan(ctx: Ctx, total: int, shards: int) -> list[tuple]:
    nc = max(shards, int(total * 0.03))
    per = {"request": int(total * 0.5), "throttle": int(total * 0.28), "contain": nc,
           "vault": total - int(total * 0.5) - int(total * 0.28) - nc}
    jobs = []
    for i in range(shards):
        counts = [(p, n // shards + (1 if i < n % shards else 0)) for p, n in per.items()]
        jobs.append((f"C12-{ctx.seed}-{ctx.rng.random()}-{i}", counts, True))
    return jobs


def _pool_map(jobs: list[tuple], workers: int) -> list[dict]:
    import concurrent.futures as cf
    if workers <= 1 or len(jobs) <= 1:
        return [_shard(j) for j in jobs]
    mp = multiprocessing.get_context("fork")
    with cf.ProcessPoolExecutor(max_workers=workers, mp_context=mp) as ex:
        return list(ex.map(_shard, jobs))


def run(ctx: Ctx) -> None:
    from ..core import load_corpus
    corpus = [(n, d) for n, d in load_corpus(ID)]
    if corpus:
        res = evaluate([d["case"] for _, d in corpus])
        _absorb(ctx, res)
        ctx.count("corpus", "cases", len(corpus))
    total = ctx.budget(3000, 100_000)
    workers = min(16, os.cpu_count() or 1, max(1, total // 250))
    shards = workers * (4 if ctx.tier == "thorough" else 1)
    for res in _pool_map(_plan(ctx, total, shards), workers):
        _absorb(ctx, res)
    # part S: whole-operator runs (their own subprocess workers, see run_sims)
    srng = random.Random(f"C12-sim-{ctx.seed}-{ctx.rng.random()}")
    _absorb(ctx, evaluate([gen_sim(srng) for _ in range(ctx.budget(40, 1500))]))
    # the finite table of check_response, exhaustively: every status 100..1000 through the real code
    _status_table(ctx)


def _status_table(ctx: Ctx) -> None:
    """every status 100..1000 through the real check_response, against the model and the property"""
    from kopf._cogs.clients import errors

    async def one(status: int) -> str:
        try:
            await errors.check_response(FakeResp(status, {}, None, ""))      # type: ignore[arg-type]
        except Exception as e:      # noqa: BLE001
            return outcome_class(e)
        return "ok"

    async def all_() -> list[str]:
        return [await one(s) for s in range(100, 1001)]

    got = asyncio.run(all_())
    reqs = [["C12.classify", s] for s in range(100, 1001)]
    try:
        outs = ask_lean(reqs)
    except leanio.LeanError as e:
        raise RuntimeError(f"Lean driver failed: {e}: {e.log[-1500:]}")
    names = {"notFound": "not-found", "tooMany": "too-many", "apiError": "api-error"}
    for s, g, o in zip(range(100, 1001), got, outs):
        m = o[1] if o and o[0] == "ok" else o
        model = (m["cls"] if m["raises"] else "ok") if isinstance(m, dict) else m
        ctx.compare("check_response class", g, model, {"status": s})
        ctx.case(key=f"status-{g}-{s // 100}", nontrivial=g != "ok")
        want = "ok" if s < 400 else {401: "unauthorized", 403: "forbidden", 404: "not-found", 409: "conflict",
                                     422: "unprocessable", 429: "too-many"}.get(s, "client" if s < 500 else "server" if s < 600 else "api-error")
        if g != want:
            ctx.oracle_fail(f"status {s} raised as {g}, expected {want}", {"status": s}, {"site": "check_response", "shape": f"{want}->{g}"})
    ctx.count("status_table", "statuses", len(got))


def _new_failures(res: dict) -> list:
    """oracle failures of a result that are not the recorded open findings (those never end a search)"""
    from ..core import FINDINGS
    known = []
    try:
        for line in FINDINGS.read_text().splitlines():
            if line.strip():
                k = json.loads(line)
                if k.get("property") == ID and k.get("status") == "open":
                    known.append(k.get("signature"))
    except OSError:
        pass
    return [f for f in res["oracle"] if f["signature"] not in known]


def search(ctx: Ctx, broken: list) -> None:
    """A proof/tie is broken and the oracle saw nothing: 10x budget, oracle only; cases near the
    first disagreeing input first."""
    near = []
    for b in broken:
        rep = b.replay if isinstance(b.replay, dict) else {}
        case = rep.get("case") or (rep.get("input") or {}).get("case")
        if isinstance(case, dict) and "part" in case:
            near.append(case)
    if near:
        res = evaluate(near[:50], with_lean=False)
        _absorb(ctx, res, oracle_only=True)
        if _new_failures(res):
            return
    total = ctx.budget(2000, 100_000) * (10 if ctx.tier == "quick" else 2)
    workers = min(16, os.cpu_count() or 1)
    jobs = [(j[0] + "-search", j[1], False) for j in _plan(ctx, total, workers * 4)]
    for res in _pool_map(jobs, workers):
        _absorb(ctx, res, oracle_only=True)
        if _new_failures(res):
            return
    srng = random.Random(f"C12-sim-search-{ctx.seed}-{ctx.rng.random()}")
    _absorb(ctx, evaluate([gen_sim(srng) for _ in range(ctx.budget(160, 3000))], with_lean=False), oracle_only=True)


def replay(ctx: Ctx, data: dict) -> None:
    rep = data.get("replay") or {}
    case = rep.get("case") or (rep.get("input") or {}).get("case") or (rep.get("first") or {}).get("case") \
        or data.get("case")          # corpus files carry the case at top level
    if not isinstance(case, dict):
        if "status" in rep:
            _status_table(ctx)
            return
        print("replay file carries no case (a broken obligation without a failing input)", file=sys.stderr)
        return
    res = evaluate([case], with_lean=False)
    for f in res["oracle"]:
        print("still fails:", f["what"])
    _absorb(ctx, res, oracle_only=True)
