"""C14's own scenario runner: the shared scenario language (harness/sim/scenario.py) plus the one neighbour of the
resuming mechanism it cannot express — the admission webhooks, the only other code that creates an object's
`ResourceMemory` (`admission.serve_admission_request` → `memories.recall_memo`).

* scenario key `"webhook": true` — every incarnation gets `settings.admission.server` = a fake webhook server that
  only keeps the `webhookfn` kopf hands to it: the REAL `functools.partial(admission.serve_admission_request, …)` bound
  by `running.spawn_tasks` to the operator's own memories / memobase / registry / insights / indices. No HTTP.
  (Handlers of kind "validate" / "mutate" are registered by the shared `build_registry` as they are.)
* timeline op `[t, "admit", name, operation]` — an AdmissionReview request (operation = "UPDATE" | "DELETE" | "CREATE")
  for the object's current state is served through that function as soon as the incarnation's webhook server is up
  (immediately, if it is already). The mark `{"what": "admit", "uid", "operation", "t", "inc", "allowed", "mem_before",
  "mem_after"}` (the object's `ResourceMemory` flags right before / after the request) is logged when it has been served.

* handler RESULTS that JSON cannot write down (scenario action `["ok", value]`, where `value` may contain nodes
  `{"$py": kind, …}`: see `pyvalue`): what a handler returns is arbitrary Python — a datetime, a set, bytes, a Decimal,
  a tuple, a dict with non-string keys, a kopf view (`spec`, `meta`, …: a Mapping that is not a dict), a mappingproxy, a
  self-referencing list, an object, a lock, a generator (the forgotten `list(…)` / `await`). Each call record gets
  `result_shape` = what the framework's delivery of the result can depend on, measured on the returned value itself, with
  no kopf code involved: is it None, a Mapping, does `copy.deepcopy` take it, does `json.dumps` take it as it is
  (`json_raw`), and as it goes into the patch (a mapping's items merged into a dict, anything else as it is: `json_patch`).
* the fake session becomes faithful for such payloads: the real HTTP client serialises `json=payload` with `json.dumps`
  when the request is made, and the TypeError / ValueError comes out of `session.request(...)`; the shared fake
  deep-copies the payload instead (`before_request` hook `_wire`, for every incarnation of every scenario run here).
* `cycle["pcc_raised"]` = the type of the exception that left `process_changing_cause` (the shared observer keeps only
  what left `process_resource_event`, and the error throttler swallows everything before that), `cycle["apply_raised"]`
  likewise for `application.apply`.

* SEVERAL KINDS AND NAMESPACES in one operator (scenario key `"kinds"`: a list of names out of `KINDS`): the operator's
  ONE `ResourceMemories` container is shared by all the objects of all the kinds it serves. The extra resources are
  added to the fake cluster; handlers pick theirs with `"resource": plural`; an object is referred to as `name`
  (kopfexamples in namespace "ns", as everywhere) or `plural/name`, `plural/namespace/name` (`plural//name` for a
  cluster-scoped kind) in `objects[].ref` and in the timeline ops create / edit / delete / recreate / admit;
  `["compact", plural]` and `["break", how, plural]` act on that kind's watch-streams. Every processing cycle of every such
  kind is observed like those of kopfexamples (the shared observer asks `sim.kex` which resource it records: here a
  property that answers with the resource being processed in the current task).

Selected per scenario with `"runner": "harness.props.sim_c14:run_scenario"` (see harness/sim/worker.py).
"""
from __future__ import annotations

import asyncio
import collections
import collections.abc
import contextlib
import contextvars
import copy
import datetime
import decimal
import json
import threading
import types
from typing import Any, Iterator

from ..sim import fakeapi, observe, scenario, simloop

# the extra kinds an operator may serve beside kopfexamples (all in one memories container)
KINDS = {
    "kopfsiblings": ("kopf.dev", "v1", "kopfsiblings", "KopfSibling", True),
    "kopfglobals": ("kopf.dev", "v1", "kopfglobals", "KopfGlobal", False),
    "kopfcousins": ("cousins.example", "v1beta1", "kopfcousins", "KopfCousin", True),
}
_res_ctx: contextvars.ContextVar = contextvars.ContextVar("c14_resource", default=None)


class Opaque:
    """An application object: copyable, nothing JSON knows."""

    def __init__(self, x: Any = 1) -> None:
        self.x = x

    def __repr__(self) -> str:
        return f"Opaque({self.x!r})"


VIEWS = ("spec", "meta", "status", "body", "labels", "annotations")
PY_KINDS = ("datetime", "date", "timedelta", "set", "frozenset", "tuple", "bytes", "decimal", "complex", "object",
            "view", "userdict", "mappingproxy", "intkeys", "tuplekeys", "circular", "lock", "generator")


def pyvalue(node: Any, kwargs: dict) -> Any:
    """The scenario's (JSON) description of a handler's result → the Python value the handler returns."""
    if isinstance(node, list):
        return [pyvalue(x, kwargs) for x in node]
    if not isinstance(node, dict):
        return node
    kind = node.get("$py")
    if kind is None:
        return {k: pyvalue(v, kwargs) for k, v in node.items()}
    of = node.get("of")
    if kind == "datetime":
        return datetime.datetime(2020, 12, 31, 23, 59, 59, tzinfo=datetime.timezone.utc)
    if kind == "date":
        return datetime.date(2020, 12, 31)
    if kind == "timedelta":
        return datetime.timedelta(seconds=90)
    if kind == "set":
        return set(pyvalue(of if of is not None else ["a", "b"], kwargs))
    if kind == "frozenset":
        return frozenset(pyvalue(of if of is not None else ["a"], kwargs))
    if kind == "tuple":
        return tuple(pyvalue(of if of is not None else [1, 2], kwargs))
    if kind == "bytes":
        return str(node.get("s", "abc")).encode()
    if kind == "decimal":
        return decimal.Decimal(str(node.get("s", "1.50")))
    if kind == "complex":
        return complex(1, 2)
    if kind == "object":
        return Opaque(pyvalue(of, kwargs))
    if kind == "view":                  # one of kopf's own views of the object, as handed to the handler
        return kwargs[of or "spec"]
    if kind == "userdict":
        return collections.UserDict(pyvalue(of if of is not None else {"a": 1}, kwargs))
    if kind == "mappingproxy":
        return types.MappingProxyType(pyvalue(of if of is not None else {"a": 1}, kwargs))
    if kind == "intkeys":
        return {i: pyvalue(v, kwargs) for i, v in enumerate(of if of is not None else ["a", "b"])}
    if kind == "tuplekeys":
        return {(1, 2): pyvalue(of, kwargs)}
    if kind == "circular":
        out: list = [1]
        out.append(out)
        return out
    if kind == "lock":
        return threading.Lock()
    if kind == "generator":
        return (x for x in (of if of is not None else [1, 2]))
    raise ValueError(f"unknown $py kind {kind!r}")


def _takes(fn: Any, x: Any) -> bool:
    try:
        fn(x)
        return True
    except Exception:  # noqa: BLE001
        return False


def result_shape(x: Any) -> dict:
    """What the delivery of a handler's result can depend on — measured on the value, no kopf code involved."""
    mapping = isinstance(x, collections.abc.Mapping)

    def as_patched(v: Any) -> Any:       # a mapping's items are merged into a dict of the patch; the rest goes in as it is
        d: dict = {}
        d.update(v)
        return d
    return {"none": x is None, "mapping": mapping, "copyable": _takes(copy.deepcopy, x), "json_raw": _takes(json.dumps, x),
            "json_patch": _takes(lambda v: json.dumps(as_patched(v) if mapping else v), x), "type": type(x).__name__}


class Observer14(observe.Observer):
    async def _perform(self, action: Any, rec: dict, kwargs: dict) -> Any:
        def decode(a: Any) -> Any:
            if isinstance(a, list) and a and a[0] in ("sleep", "patch"):
                return a[:2] + [decode(a[2])] if len(a) > 2 else a
            if isinstance(a, list) and len(a) > 1 and a[0] == "ok":
                value = pyvalue(a[1], kwargs)
                rec["result_shape"] = result_shape(value)
                rec["result_spec"] = a[1]
                return ["ok", value]        # the shared performer returns `action[1]` as it is
            return a
        return await super()._perform(decode(action), rec, kwargs)


@contextlib.contextmanager
def installed14(sim: Any = None) -> Iterator[None]:
    """On top of `observe.installed`: what left `process_changing_cause` / `application.apply` in each cycle."""
    from kopf._core.actions import application
    from kopf._core.reactor import processing
    inner_pcc, inner_apply = processing.process_changing_cause, application.apply
    inner_pre = processing.process_resource_event

    async def process_resource_event(**kw: Any) -> Any:
        # the shared observer records the cycles of `sim.kex` only: tell it that this task is processing another kind
        res = kw.get("resource")
        rd = None if sim is None else sim.extra.get((getattr(res, "group", None), getattr(res, "version", None), getattr(res, "plural", None)))
        if rd is None:
            return await inner_pre(**kw)
        tok = _res_ctx.set(rd)
        try:
            return await inner_pre(**kw)
        finally:
            _res_ctx.reset(tok)

    async def process_changing_cause(**kw: Any) -> Any:
        try:
            return await inner_pcc(**kw)
        except Exception as e:  # noqa: BLE001
            cyc = observe._cycle.get()
            if cyc is not None:
                cyc["pcc_raised"] = type(e).__name__
            raise

    async def apply(**kw: Any) -> Any:
        try:
            return await inner_apply(**kw)
        except Exception as e:  # noqa: BLE001
            cyc = observe._cycle.get()
            if cyc is not None:
                cyc["apply_raised"] = type(e).__name__
            raise

    processing.process_changing_cause = process_changing_cause  # type: ignore[assignment]
    application.apply = apply  # type: ignore[assignment]
    processing.process_resource_event = process_resource_event  # type: ignore[assignment]
    try:
        yield
    finally:
        processing.process_resource_event = inner_pre  # type: ignore[assignment]
        processing.process_changing_cause = inner_pcc  # type: ignore[assignment]
        application.apply = inner_apply  # type: ignore[assignment]


class FakeWebhookServer:
    """`settings.admission.server`: called by `admission.admission_webhook_server(webhookfn)` once the resources are
    scanned; yields one client config and then serves nothing on its own — the scenario calls `fn` directly."""

    def __init__(self) -> None:
        self.fn: Any = None
        self.ready = asyncio.Event()

    async def __call__(self, fn: Any) -> Any:
        self.fn = fn
        self.ready.set()
        yield {"url": "https://fake.invalid/"}
        await asyncio.Event().wait()


class Sim14(scenario.Sim):
    extra: dict = {}

    @property
    def kex(self) -> Any:
        """The resource whose cycles the shared observer records: the one being processed in this task, if it is one of
        the scenario's extra kinds; kopfexamples otherwise (and always on the scenario's own timeline)."""
        return _res_ctx.get() or self._kex

    @kex.setter
    def kex(self, value: Any) -> None:
        self._kex = value

    def _echo_delay(self, w: Any, etype: str, body: dict) -> float:
        tok = _res_ctx.set(None)        # echo rules and slips are about kopfexamples, whoever's request it is
        try:
            return super()._echo_delay(w, etype, body)
        finally:
            _res_ctx.reset(tok)

    def _slip(self, req: dict) -> None:
        tok = _res_ctx.set(None)
        try:
            super()._slip(req)
        finally:
            _res_ctx.reset(tok)

    def resolve(self, ref: str) -> tuple[Any, str | None, str]:
        """`name` | `plural/name` | `plural/namespace/name` → (resource, namespace, name)."""
        parts = str(ref).split("/")
        if len(parts) == 1:
            return self._kex, "ns", parts[0]
        rd = self._kex if parts[0] == self._kex.plural else self.by_plural[parts[0]]
        ns = "ns" if len(parts) == 2 else (parts[1] or None)
        return rd, (ns if rd.namespaced else None), parts[-1]

    def __init__(self, sc: dict):
        super().__init__(sc)
        self.extra = {}
        self.by_plural: dict[str, Any] = {}
        for k in sc.get("kinds") or []:
            group, version, plural, kind, namespaced = KINDS[k]
            rd = fakeapi.ResourceDef(group, version, plural, kind, namespaced=namespaced)
            self.cluster.add_resource(rd)
            self.extra[rd.key] = rd
            self.by_plural[plural] = rd
        # scripted handlers that can return what JSON cannot write down (the registry is rebuilt around them)
        self.obs = Observer14(self)
        self.registry = scenario.build_registry(sc, self.obs)
        self.cluster.before_request.append(self._wire)
        self.webhook_servers: list[FakeWebhookServer] = []
        self.side_tasks: list[asyncio.Task] = []
        self._admit_n = 0

    @staticmethod
    def _wire(req: dict) -> None:
        """`aiohttp` serialises `json=payload` when the request is made: TypeError / ValueError for what JSON cannot hold."""
        if req.get("payload") is not None:
            try:
                json.dumps(req["payload"])
            except Exception as e:  # noqa: BLE001
                req["response"] = f"unserialisable: {type(e).__name__}"
                req["payload"] = observe._jsonable(req["payload"])
                raise

    def settings(self) -> Any:
        s = super().settings()
        if self.sc.get("webhook"):
            srv = FakeWebhookServer()
            self.webhook_servers.append(srv)
            s.admission.server = srv
            s.admission.managed = None
        return s

    def _apply_ref_op(self, op: list) -> bool:
        """The cluster ops on an object / a kind given by reference (see `resolve`). False: not such an op."""
        c, kind, args = self.cluster, op[0], op[1:]
        if kind in ("create", "edit", "delete", "recreate") and "/" in str(args[0]):
            rd, ns, name = self.resolve(args[0])
            if kind == "create":
                if c.get(rd, ns, name) is None:
                    c.create_raw(rd, ns, name, args[1] if len(args) > 1 else {"spec": {"x": 0}})
            elif kind == "edit":
                c.edit(rd, ns, name, args[1])
            elif kind == "delete":
                c.delete(rd, ns, name)
            else:
                if c.get(rd, ns, name) is not None:
                    c.mutate(rd, ns, name, lambda b: b["metadata"].pop("finalizers", None))
                    c.delete(rd, ns, name)
                c.create_raw(rd, ns, name, args[1] if len(args) > 1 else {"spec": {"x": 0}})
        elif kind == "compact" and args:
            c.compact(self.resolve(args[0] + "/-")[0])
        elif kind == "break" and len(args) > 1:
            c.break_watches(self.resolve(args[1] + "/-")[0], args[0])
        else:
            return False
        self.mark("op", op=op)
        return True

    def apply_op(self, op: list) -> None:
        if op[0] != "admit":
            if not self._apply_ref_op(op):
                super().apply_op(op)
            return
        ref, operation = op[1], (op[2] if len(op) > 2 else "UPDATE")
        rd, ns, name = self.resolve(ref)
        # the object as it is NOW (the request is about this state, whenever the server gets to serve it); the review of
        # a creation comes before the object exists: no uid, no resourceVersion yet
        body = self.cluster.get(rd, ns, name)
        if body is None and operation == "CREATE":
            body = {"apiVersion": rd.api_version, "kind": rd.kind,
                    "metadata": {"name": name, "labels": {"l": "1"}, **({"namespace": ns} if rd.namespaced else {})}, "spec": {"x": 1}}
        self.side_tasks.append(asyncio.get_running_loop().create_task(
            self._admit(name, operation, None if body is None else copy.deepcopy(body), rd)))
        self.mark("op", op=op)

    async def run(self) -> dict:
        # objects that exist before the operator starts, of any kind / namespace (`ref`); the plain ones are the parent's
        plain = []
        for o in self.sc.get("objects", []):
            if "ref" in o:
                rd, ns, name = self.resolve(o["ref"])
                self.cluster.create_raw(rd, ns, name, o.get("body", {"spec": {"x": 0}}))
            else:
                plain.append(o)
        self.sc["objects"] = plain
        return await super().run()

    async def _admit(self, name: str, operation: str, body: Any, rd: Any = None) -> None:
        rd = rd or self._kex
        if not self.webhook_servers:
            self.mark("admit-skipped", why="no webhook server in this scenario")
            return
        if body is None:
            self.mark("admit-skipped", why="no such object", name=name)
            return
        srv = self.webhook_servers[-1]
        await srv.ready.wait()
        self._admit_n += 1
        request = {"apiVersion": "admission.k8s.io/v1", "kind": "AdmissionReview", "request": {
            "uid": f"review-{self._admit_n}", "operation": operation, "dryRun": False,
            "resource": {"group": rd.group, "version": rd.version, "resource": rd.plural},
            "userInfo": {"username": "somebody", "uid": "u1", "groups": []},
            "object": None if operation == "DELETE" else body,
            "oldObject": None if operation == "CREATE" else body}}
        op = self.ops.get("op")
        # the object's memory right before and right after the request (the operator's own `memories`, as bound)
        memories = getattr(srv.fn, "keywords", {}).get("memories")
        snap = (lambda: None if memories is None else self.obs._mem_snapshot(memories, body))
        mem_before = snap()
        try:
            response = await srv.fn(request)
            allowed = bool(response.get("response", {}).get("allowed"))
            err = None
        except Exception as e:  # noqa: BLE001
            allowed, err = None, repr(e)
        self.mark("admit", uid=body["metadata"].get("uid"), name=name, operation=operation,
                  inc=getattr(op, "n", None), allowed=allowed, error=err,
                  mem_seen=memories is not None, mem_before=mem_before, mem_after=snap())


def run_scenario(sc: dict, wall_limit: float = 60.0) -> dict:
    if not all(simloop.dyadic(e[0]) for e in sc.get("timeline", [])):
        raise ValueError("non-dyadic time in the scenario")
    holder: dict[str, Any] = {}

    async def main() -> dict:
        sim = Sim14(copy.deepcopy(sc))
        holder["sim"] = sim
        with observe.installed(sim.obs), installed14(sim):
            try:
                return await sim.run()
            finally:
                for t in sim.side_tasks:
                    t.cancel()

    try:
        return simloop.run_sim(main, wall_limit=wall_limit)
    except (simloop.SimDeadlock, simloop.SimStall) as e:
        sim = holder.get("sim")
        tr = sim.obs.trace() if sim is not None else {}
        tr["sim_error"] = f"{type(e).__name__}: {e}"
        return tr
