"""C14's own scenario runner: the shared scenario language (harness/sim/scenario.py) plus the one neighbour of the
resuming mechanism it cannot express — the admission webhooks, the only other code that creates an object's
`ResourceMemory` (`admission.serve_admission_request` → `memories.recall_memo`).

* scenario key `"webhook": true` — every incarnation gets `settings.admission.server` = a fake webhook server that
  only keeps the `webhookfn` kopf hands to it: the REAL `functools.partial(admission.serve_admission_request, …)` bound
  by `running.spawn_tasks` to the operator's own memories / memobase / registry / insights / indices. No HTTP.
  (Handlers of kind "validate" / "mutate" are registered by the shared `build_registry` as they are.)
* timeline op `[t, "admit", name, operation]` — an AdmissionReview request (operation = "UPDATE" | "DELETE" | "CREATE")
  for the object's current state is served through that function as soon as the incarnation's webhook server is up
  (immediately, if it is already). The mark `{"what": "admit", "uid", "operation", "t", "inc", "allowed", "mem_before",
  "mem_after"}` (the object's `ResourceMemory` flags right before / after the request) is logged when it has been served.

Selected per scenario with `"runner": "harness.props.sim_c14:run_scenario"` (see harness/sim/worker.py).
"""
from __future__ import annotations

import asyncio
import copy
from typing import Any

from ..sim import observe, scenario, simloop


class FakeWebhookServer:
    """`settings.admission.server`: called by `admission.admission_webhook_server(webhookfn)` once the resources are
    scanned; yields one client config and then serves nothing on its own — the scenario calls `fn` directly."""

    def __init__(self) -> None:
        self.fn: Any = None
        self.ready = asyncio.Event()

    async def __call__(self, fn: Any) -> Any:
        self.fn = fn
        self.ready.set()
        yield {"url": "https://fake.invalid/"}
        await asyncio.Event().wait()


class Sim14(scenario.Sim):
    def __init__(self, sc: dict):
        super().__init__(sc)
        self.webhook_servers: list[FakeWebhookServer] = []
        self.side_tasks: list[asyncio.Task] = []
        self._admit_n = 0

    def settings(self) -> Any:
        s = super().settings()
        if self.sc.get("webhook"):
            srv = FakeWebhookServer()
            self.webhook_servers.append(srv)
            s.admission.server = srv
            s.admission.managed = None
        return s

    def apply_op(self, op: list) -> None:
        if op[0] != "admit":
            return super().apply_op(op)
        name, operation = op[1], (op[2] if len(op) > 2 else "UPDATE")
        # the object as it is NOW (the request is about this state, whenever the server gets to serve it); the review of
        # a creation comes before the object exists: no uid, no resourceVersion yet
        body = self.cluster.get(self.kex, "ns", name)
        if body is None and operation == "CREATE":
            body = {"apiVersion": f"{self.kex.group}/{self.kex.version}", "kind": "KopfExample",
                    "metadata": {"name": name, "namespace": "ns", "labels": {"l": "1"}}, "spec": {"x": 1}}
        self.side_tasks.append(asyncio.get_running_loop().create_task(
            self._admit(name, operation, None if body is None else copy.deepcopy(body))))
        self.mark("op", op=op)

    async def _admit(self, name: str, operation: str, body: Any) -> None:
        if not self.webhook_servers:
            self.mark("admit-skipped", why="no webhook server in this scenario")
            return
        if body is None:
            self.mark("admit-skipped", why="no such object", name=name)
            return
        srv = self.webhook_servers[-1]
        await srv.ready.wait()
        self._admit_n += 1
        request = {"apiVersion": "admission.k8s.io/v1", "kind": "AdmissionReview", "request": {
            "uid": f"review-{self._admit_n}", "operation": operation, "dryRun": False,
            "resource": {"group": self.kex.group, "version": self.kex.version, "resource": self.kex.plural},
            "userInfo": {"username": "somebody", "uid": "u1", "groups": []},
            "object": None if operation == "DELETE" else body,
            "oldObject": None if operation == "CREATE" else body}}
        op = self.ops.get("op")
        # the object's memory right before and right after the request (the operator's own `memories`, as bound)
        memories = getattr(srv.fn, "keywords", {}).get("memories")
        snap = (lambda: None if memories is None else self.obs._mem_snapshot(memories, body))
        mem_before = snap()
        try:
            response = await srv.fn(request)
            allowed = bool(response.get("response", {}).get("allowed"))
            err = None
        except Exception as e:  # noqa: BLE001
            allowed, err = None, repr(e)
        self.mark("admit", uid=body["metadata"].get("uid"), name=name, operation=operation,
                  inc=getattr(op, "n", None), allowed=allowed, error=err,
                  mem_seen=memories is not None, mem_before=mem_before, mem_after=snap())


def run_scenario(sc: dict, wall_limit: float = 60.0) -> dict:
    if not all(simloop.dyadic(e[0]) for e in sc.get("timeline", [])):
        raise ValueError("non-dyadic time in the scenario")
    holder: dict[str, Any] = {}

    async def main() -> dict:
        sim = Sim14(copy.deepcopy(sc))
        holder["sim"] = sim
        with observe.installed(sim.obs):
            try:
                return await sim.run()
            finally:
                for t in sim.side_tasks:
                    t.cancel()

    try:
        return simloop.run_sim(main, wall_limit=wall_limit)
    except (simloop.SimDeadlock, simloop.SimStall) as e:
        sim = holder.get("sim")
        tr = sim.obs.trace() if sim is not None else {}
        tr["sim_error"] = f"{type(e).__name__}: {e}"
        return tr
