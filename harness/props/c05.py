"""C05 — each event maps to exactly one cause; handler kinds are mutually exclusive.

Tie: (T) `detect_changing_cause`, the `ChangingRegistry.iter_handlers` gate and HANDLER_REASONS are
re-extracted from the AST on every run and proved equal to the model (Kopf/Tie/C05.lean);
(D, exhaustive) every combination is pushed through the real `_detect_causes` and `get_handlers`
(handler shapes: reason x initial x deleted x field_needs_change, i.e. top-level handlers, field handlers
and sub-handlers), under kopf's default finalizer name and a configured one, with look-alike foreign finalizers,
all six facts constructed by the harness; every decision-table row also through the real `process_changing_cause`
and the real `process_resource_causes` (finalizer cycles: `invocableRC`) with handlers built by the real decorators
and sub-handlers made in kopf's four ways (a sub-handler runs iff its parent does: /repo 17e5c42); closed-loop
histories (`gen_histories`: configured names, foreign finalizers, run-time restored objects, creations while down,
re-listings before the first handling ends, gaps of the watch next to daemons/timers).
The fourth fact ("never handled") also comes from its REAL producer, the configured diff-base storage's `fetch` (`_records`,
`gen_owned`): objects of every kind x owners placement (a Deployment's ReplicaSets store under names marked "-ofDRS") with
records of their own and FOREIGN records (the owner's propagated ones, left-overs under the marked names, other operators'
prefixes, the other kind of storage) under kopf's default storage, configured prefixes, the status storage and a
multi-storage; modelled in Model/C05_Record.lean (`markKey`, `fetchAnn`, `fetchMulti`), tied through `C05.fetch`.
White-box review: review/wb/C05/NOTES.md.
"""
from __future__ import annotations

import ast
import itertools
import logging
from typing import Any

from .. import leanio, pyextract
from ..core import Ctx, ExtractError

ID = "C05"
LEVEL = "proof"
STRENGTH = "full"
ENGINES = ["lean-model", "pyextract", "purediff", "kopfsim"]
LEVEL_TEXT = ("Lean theorems (all inputs of the decision table, all handler kinds) about a model that is regenerated from the AST and re-proved equal on every run; the real _detect_causes and get_handlers are additionally enumerated exhaustively against the model and an independent oracle.")
TIE = ("T (AST → Lean, re-proved equal to the model) + D exhaustive over the decision table, also through process_resource_causes; "
       "D for whose record it is (storage.fetch inside _detect_causes vs. C05.fetch)")
THEOREMS = [
    ("Kopf.Props.C05", "Kopf.C05.detect_spec"),
    ("Kopf.Props.C05", "Kopf.C05.exactly_one"),
    ("Kopf.Props.C05", "Kopf.C05.no_create_update_on_marked"),
    ("Kopf.Props.C05", "Kopf.C05.delete_only_while_held"),
    ("Kopf.Props.C05", "Kopf.C05.none_for_gone_free_noop"),
    ("Kopf.Props.C05", "Kopf.C05.resume_needs_initial_and_optin"),
    ("Kopf.Props.C05", "Kopf.C05.kinds_exclusive"),
    ("Kopf.Props.C05", "Kopf.C05.no_field_on_marked"),
    ("Kopf.Props.C05", "Kopf.C05.kindless_only_in_handled_causes"),
    ("Kopf.Props.C05", "Kopf.C05.gate_eq_shape"),
    ("Kopf.Props.C05", "Kopf.C05.invocable_eq_shape"),
    ("Kopf.Props.C05", "Kopf.C05.shape_wellFormed"),
    ("Kopf.Props.C05", "Kopf.C05.sub_of_delete_selected"),
    ("Kopf.Props.C05", "Kopf.C05.sub_follows_parent"),
    ("Kopf.Props.C05", "Kopf.C05.decorated_wellFormed"),
    ("Kopf.Props.C05", "Kopf.C05.sub_wellFormed"),
    ("Kopf.Props.C05", "Kopf.C05.sub_of_delete_invocable"),
    ("Kopf.Props.C05", "Kopf.C05.sub_of_delete_only_while_held"),
    ("Kopf.Props.C05", "Kopf.C05.no_sub_of_create_update_field_on_marked"),
    ("Kopf.Props.C05", "Kopf.C05.old_gate_sub_regression_witness"),
    ("Kopf.Props.C05", "Kopf.C05.old_gate_differs_only_for_subs"),
    # the whole pass `process_resource_causes` (finalizer cycles between detection and handling)
    ("Kopf.Props.C05", "Kopf.C05.rc_le"),
    ("Kopf.Props.C05", "Kopf.C05.rc_sub_le"),
    ("Kopf.Props.C05", "Kopf.C05.rc_no_create_update_field_on_marked"),
    ("Kopf.Props.C05", "Kopf.C05.rc_delete_only_while_held"),
    ("Kopf.Props.C05", "Kopf.C05.rc_none_for_gone_free_noop"),
    ("Kopf.Props.C05", "Kopf.C05.rc_delete_needs_requirement"),
    ("Kopf.Props.C05", "Kopf.C05.rc_nothing_before_the_finalizer"),
    ("Kopf.Props.C05", "Kopf.C05.rc_eq_outside_finalizer_cycles"),
    # whose record is it: "never handled" = no record of the object's OWN under the configured storage
    ("Kopf.Props.C05", "Kopf.C05.fetch_reads_own_record_only"),
    ("Kopf.Props.C05", "Kopf.C05.never_handled_iff_no_own_record"),
    ("Kopf.Props.C05", "Kopf.C05.fetched_is_own_record"),
    ("Kopf.Props.C05", "Kopf.C05.never_handled_is_creation"),
    ("Kopf.Props.C05", "Kopf.C05.handled_is_not_creation"),
    ("Kopf.Props.C05", "Kopf.C05.fallback_agrees_off_DRS"),
    ("Kopf.Props.C05", "Kopf.C05.fallback_agrees_when_handled"),
    ("Kopf.Props.C05", "Kopf.C05.fallback_witness"),
]
TIE_THEOREMS = [
    ("Kopf.Tie.C05", "Kopf.C05.Tie.detect_eq"),
    ("Kopf.Tie.C05", "Kopf.C05.Tie.create_forces_noninitial"),
    ("Kopf.Tie.C05", "Kopf.C05.Tie.gate_eq"),
    ("Kopf.Tie.C05", "Kopf.C05.Tie.sub_gate_is_match"),
    ("Kopf.Tie.C05", "Kopf.C05.Tie.field_gate_on_marked"),
    ("Kopf.Tie.C05", "Kopf.C05.Tie.handler_reasons_eq"),
]
RULE = ("exhaustive: finalizer setting (kopf's default name / a configured one) x 4 event types x marked x own-finalizer x "
        "stored-essence x essential-diff (in spec / labels / annotations; against noise in status, system metadata and kopf's own "
        "annotations) x (noticed_by_listing, fully_handled_once) x foreign finalizers (none / plain / look-alikes of the own name, "
        "among them the unprefixed marker of old kopf versions and, under a configured name, kopf's default name) through the real "
        "_detect_causes, all six facts constructed by the harness, none read back; every handler kind "
        "(reason x initial x deleted opt-in x field_needs_change: top-level handlers, field handlers AND sub-handler "
        "shapes) x every cause through the real ChangingRegistry.get_handlers; every decision-table row through the "
        "real _detect_causes + process_changing_cause AND through the real process_resource_causes (mandatory / optional deletion "
        "handler: the finalizer cycles) with handlers built by the real kopf.on decorators, each with "
        "sub-handlers made by @kopf.subhandler, kopf.register, kopf.execute(fns={...}) and kopf.execute(fns=[...]); closed-loop "
        "histories incl. deletion handlers with sub-handlers, configured finalizer names, foreign finalizers (objects lingering "
        "released), objects appearing at run time with a stored state, objects created while the operator is down, re-listings "
        "before the first handling ends, changes inside a gap of the watch, daemons/timers next to the change handlers; "
        "whose record: 5 diff-base storages (default, configured prefix, long prefix with two key forms, status, multi) x 12 "
        "kind/owners placements (Deployment-owned ReplicaSets and look-alikes) x own record (absent / equal / differing; in all "
        "own slots or the last only) x foreign records (none / counterpart name / counterpart with the object's own content / "
        "elsewhere / all) x deletion mark x first sight through the real storage.fetch in _detect_causes + process_changing_cause "
        "with decorated create/update/resume handlers; closed-loop histories of owned objects (roll-out, listed, created while "
        "down, propagation arriving later, adoption, orphaning); "
        "a case is non-trivial when it is a distinct (input, output) pair")
TRUSTED = ["pyextract atom vocabulary for causes.detect_changing_cause / ChangingRegistry.iter_handlers",
           "the six booleans are read off real bodies by kopf's own finalizers/diffbase code (exercised here; of the diff-base "
           "storages the choice of the object's own names and the fetch are modelled, the forming of a name into annotation keys "
           "(prefix, V1/V2 forms, cuts, hashes: `make_keys` without a body) is taken from the real code in model and oracle alike)"]
ASSUMPTIONS = ["filters (`match`) are C15's subject and appear here as an opaque boolean",
               "'never handled' = the object carries no last-handled record OF ITS OWN under the configured storage; which names are "
               "an object's own is read from the text of kopf's convention (conventions.CollisionEvadingConvention): the names marked "
               "'-ofDRS' for a ReplicaSet with a Deployment among its owners, the plain names for every other object — so the "
               "own names change when such a ReplicaSet is adopted or orphaned (by this definition an adopted, formerly standalone "
               "ReplicaSet is a creation again; unchanged kopf does that); closed-loop objects get their kind/ownerReferences from "
               "the scenario body on the simulated kopfexamples resource (the convention reads nothing else of the object)",
               "reading of 'creation/update handlers': on.create/on.update handlers AND on.field handlers (no cause kind, "
               "not resuming, field_needs_change=True; "
               "docs/handlers.rst: 'there is no special detection of the causes for the fields, such as create/update/delete, "
               "so the field handler is effective only when the object is updated'): since /repo 345a874 none of them runs on "
               "an object marked for deletion (`no_create_update_on_marked`, `no_field_on_marked`); field handlers still run "
               "in the creation cause when the field is present (the code's reading of 'changed'), which the property allows",
               "sub-handlers (@kopf.subhandler, kopf.register, kopf.execute(fns=): no cause kind, not resuming, "
               "field_needs_change None or inherited from the parent) are of the kind of their parent: they must run exactly "
               "when the parent does (`sub_follows_parent`), in particular the sub-handlers of a deletion handler run in the "
               "deletion cause (/repo 17e5c42; `sub_of_delete_selected`, `sub_of_delete_invocable`); the oracle requires "
               "this in both directions",
               "between detection and handling `process_resource_causes` dedicates a cycle to the framework's finalizer (to be added: "
               "required, absent, object not marked; to be removed: not required, present) and runs no change handler in it: modelled "
               "(`finalizerCycle`, `invocableRC`), tied exhaustively to the real function with a mandatory and with an optional deletion "
               "handler; its other exits (object pre-matches no handler: C15; inconsistent view: C07) are not modelled here — they only "
               "suppress handlers, the property's clauses are all of the form 'never invoked unless'",
               "closed-loop first sight = the object's first cycle in this process came from a listing (event without a type) and no "
               "handling cycle has ended for it since; an object that first appears through the watch is never at its first sight",
               "the oracle's positive obligations ('must be selected') are stated for the causes detection can produce "
               "(deletion mark <-> delete/free cause, creation never first-sight, resume always first-sight); the negative "
               "ones for every combination the registry function accepts"]

REASONS = ["create", "update", "delete", "resume", "noop", "free", "gone"]

DETECT_VOCAB = {
    "raw_event['type'] == 'DELETED'": "a.deleted",
    "finalizers.is_deletion_ongoing(body=body)": "a.marked",
    "finalizers.is_deletion_blocked(body=body, finalizer=finalizer)": "a.blocked",
    "old is None": "a.oldAbsent",
    "diff": "a.diffNonEmpty",
    "initial": "a.initial",
}
DETECT_IGNORE = {
    "kwargs |= dict(body=body, old=old, new=new, initial=initial)",
    "if diff is not None:\n    kwargs |= dict(diff=diff)",
}
GATE_VOCAB = {
    "handler.reason is None": "(h.reason == none)",
    "handler.reason == cause.reason": "(h.reason == some c.reason)",
    "handler.initial": "h.initial",
    "cause.initial": "c.initial",
    "cause.deleted": "c.marked",
    "handler.deleted": "h.deletedOptIn",
    "handler.field_needs_change": "h.needsChange",
    "match(handler=handler, cause=cause)": "m",
}


def _reason_of_return(stmts: list[ast.stmt]) -> str | None:
    """`[kwargs['initial'] = False;] return ChangingCause(reason=Reason.X, **kwargs)` → Lean pair."""
    forced = False
    for st in stmts[:-1]:
        if pyextract.norm(st) == "kwargs['initial'] = False":
            forced = True
        else:
            raise ExtractError(f"unexpected statement in a cause branch: `{pyextract.norm(st)[:100]}`")
    st = stmts[-1]
    if not isinstance(st, ast.Return) or not isinstance(st.value, ast.Call):
        return None
    call = st.value
    if pyextract.norm(call.func) != "ChangingCause":
        return None
    kws = {k.arg: k.value for k in call.keywords}
    if set(kws) != {"reason", None} or pyextract.norm(kws[None]) != "kwargs":
        raise ExtractError(f"ChangingCause(...) built with unexpected arguments: `{pyextract.norm(call)}`")
    r = pyextract.norm(kws["reason"])
    if not r.startswith("Reason."):
        raise ExtractError(f"unknown reason expression `{r}`")
    name = r.split(".", 1)[1].lower()
    if name not in REASONS:
        raise ExtractError(f"unknown reason `{r}`")
    return f"(Reason.{name}, {'true' if forced else 'false'})"


def _gate_result(stmts: list[ast.stmt]) -> str | None:
    if len(stmts) != 1:
        return None
    t = pyextract.norm(stmts[0])
    if t == "pass":
        return "false"
    if t == "yield handler":
        return "true"
    return None


def extract(ctx: Ctx) -> None:
    src = ctx.repo / "kopf/_core/intents/causes.py"
    tree = pyextract.parse_file(src)
    fn = pyextract.find_def(tree, "detect_changing_cause")
    tr = pyextract.BoolTranslator(DETECT_VOCAB)
    chain = pyextract.if_chain(pyextract.body_without_docstring(fn), tr, _reason_of_return, DETECT_IGNORE)
    detect_body = pyextract.chain_to_lean(chain)
    # HANDLER_REASONS
    hr = pyextract.module_constant(tree, "HANDLER_REASONS")
    if not isinstance(hr, ast.Tuple):
        raise ExtractError("HANDLER_REASONS is not a tuple literal")
    hrs = []
    for e in hr.elts:
        t = pyextract.norm(e)
        if not t.startswith("Reason.") or t.split(".")[1].lower() not in REASONS:
            raise ExtractError(f"unexpected HANDLER_REASONS member `{t}`")
        hrs.append("Reason." + t.split(".")[1].lower())
    # the gate in ChangingRegistry.iter_handlers
    rtree = pyextract.parse_file(ctx.repo / "kopf/_core/intents/registries.py")
    it = pyextract.find_def(rtree, "ChangingRegistry.iter_handlers")
    body = pyextract.body_without_docstring(it)
    if len(body) != 1 or not isinstance(body[0], ast.For) or pyextract.norm(body[0].iter) != "self._handlers":
        raise ExtractError("ChangingRegistry.iter_handlers is no longer a single loop over self._handlers")
    inner = body[0].body
    if len(inner) != 1 or not isinstance(inner[0], ast.If) or pyextract.norm(inner[0].test) != "handler.id not in excluded" \
            or inner[0].orelse:
        raise ExtractError("iter_handlers: expected the `handler.id not in excluded` guard")
    inner = inner[0].body
    if len(inner) != 1 or not isinstance(inner[0], ast.If) or inner[0].orelse:
        raise ExtractError("iter_handlers: expected one reason guard")
    gtr = pyextract.BoolTranslator(GATE_VOCAB)
    reason_guard = gtr.tr(inner[0].test)
    gchain = pyextract.if_chain(inner[0].body, gtr, _gate_result, ())
    gate_body = pyextract.chain_to_lean(gchain, default="false")
    # the HANDLER_REASONS gate of process_changing_cause
    ptree = pyextract.parse_file(ctx.repo / "kopf/_core/reactor/processing.py")
    pcc = pyextract.find_def(ptree, "process_changing_cause")
    guarded = [st for st in pcc.body if isinstance(st, ast.If)
               and pyextract.norm(st.test) == "cause.reason in causes.HANDLER_REASONS"]
    if len(guarded) != 1:
        raise ExtractError("process_changing_cause: the `cause.reason in causes.HANDLER_REASONS` gate is gone")
    calls_in = sum(1 for n in ast.walk(guarded[0]) if isinstance(n, ast.Call) and pyextract.norm(n.func).endswith("execute_handlers_once"))
    calls_all = sum(1 for n in ast.walk(pcc) if isinstance(n, ast.Call) and pyextract.norm(n.func).endswith("execute_handlers_once"))
    if calls_in != 1 or calls_all != 1:
        raise ExtractError("process_changing_cause: handler execution is no longer exactly inside the HANDLER_REASONS gate")
    out = pyextract.HEADER.format(src="kopf/_core/intents/causes.py, registries.py, reactor/processing.py")
    out += "import Kopf.Model.C05_Cause\nnamespace Kopf.C05.Extracted\nopen Kopf.C05\n\n"
    out += "/-- (reason, `kwargs['initial']` forced to False in that branch) -/\n"
    out += f"def detect (a : In) : Reason × Bool :=\n    {detect_body}\n\n"
    out += f"def handlerReasons : List Reason := [{', '.join(hrs)}]\n\n"
    out += f"def gate (h : Shape) (c : Cause) (m : Bool) : Bool :=\n  {reason_guard} &&\n    ({gate_body})\n\n"
    out += "end Kopf.C05.Extracted\n"
    leanio.write_generated("Kopf/Extracted/C05.lean", out)


# ---------------------------------------------------------------------------------------------
def oracle_reason(deleted, marked, blocked, old_absent, diff, initial) -> str:
    """The property's precedence list, read from the statement (not from the model)."""
    if deleted:
        return "gone"          # really gone
    if marked and not blocked:
        return "free"          # released
    if marked:
        return "delete"
    if old_absent:
        return "create"        # never handled before
    if initial and not diff:
        return "resume"        # first sight after start, nothing changed
    if not diff:
        return "noop"
    return "update"


def _kopf_env():
    import kopf
    from kopf._cogs.configs import configuration
    from kopf._cogs.structs import bodies, patches, references
    from kopf._core.engines import indexing
    from kopf._core.intents import causes, handlers, registries
    from kopf._core.reactor import inventory, processing
    return locals()


DEFAULT_OWN = "kopf.zalando.org/KopfFinalizerMarker"
CUSTOM_OWN = "example.com/verif-finalizer"


def near_misses(own: str) -> list[str]:
    """Foreign finalizers that are NOT the framework's: names that look like it (the unprefixed marker of old
    kopf versions, prefix/suffix/case variants, the domain alone) and, for a configured name, kopf's default name."""
    dom, _, nm = own.rpartition("/")
    out = [nm, f"{dom}/", own + "2", own[:-1], own.lower(), own.upper(), "x" + own, f"{dom}/x{nm}",
           "KopfFinalizerMarker", "kopf.zalando.org/kopffinalizermarker"]
    if own != DEFAULT_OWN:
        out.append(DEFAULT_OWN)
    return [f for f in dict.fromkeys(out) if f != own]


DIFF_KINDS = ["spec", "label", "annotation"]


def make_body(settings, marked: bool, blocked: bool, old_absent: bool, diff: bool, variant: int,
              diff_kind: str = "spec") -> dict:
    """variant: 0 plain; 3 foreign finalizers on both sides of the own one + inessential noise (status, system
    metadata, kopf's own annotations); 4 an object whose whole essence is empty; 5 look-alike foreign finalizers
    (`near_misses`) + noise. `diff_kind`: where the essential difference to the stored state is (if `diff`)."""
    import json
    fin = settings.persistence.finalizer
    meta: dict[str, Any] = {"name": "obj", "namespace": "ns", "uid": "u1", "resourceVersion": "5"}
    body: dict[str, Any] = {"apiVersion": "kopf.dev/v1", "kind": "KopfExample", "metadata": meta,
                            "spec": {"field": "same", "n": variant}}
    if variant == 4:
        # an object whose whole essence is empty: its last-handled state is stored as `{}` (present but falsy)
        del body["spec"]
    if diff and (diff_kind == "spec" or variant == 4):
        body["spec"] = dict(body.get("spec", {}), field="new")
    elif diff and diff_kind == "label":
        meta["labels"] = {"changed": "yes"}
    elif diff and diff_kind == "annotation":
        meta.setdefault("annotations", {})["example.com/changed"] = "yes"
    if variant == 5:
        nm = near_misses(fin)
        fins = nm[:len(nm) // 2] + ([fin] if blocked else []) + nm[len(nm) // 2:]
    elif variant & 1:
        fins = ["other.io/a"] + ([fin] if blocked else []) + (["other.io/b"] if variant & 2 else [])
    else:
        fins = [fin] if blocked else []
    if fins:
        meta["finalizers"] = fins
    if marked:
        meta["deletionTimestamp"] = "2020-01-01T00:00:00Z"
    if variant in (3, 5):
        # nothing of this is essential: the status stanza, system metadata, the framework's own annotations
        body["status"] = {"phase": "Running", "kopf": {"progress": {}}, "observedGeneration": 7}
        meta.update({"generation": 7, "creationTimestamp": "2019-12-31T00:00:00Z", "selfLink": "/x",
                     "managedFields": [{"manager": "kubectl", "operation": "Update"}]})
        meta.setdefault("annotations", {}).update({
            "kopf.zalando.org/touch-dummy": "2020-01-01T00:00:00.000000",
            "kubectl.kubernetes.io/last-applied-configuration": "{}"})
    if not old_absent:
        essence = {"spec": {"field": "same", "n": variant}} if variant != 4 else {}
        meta.setdefault("annotations", {})["kopf.zalando.org/last-handled-configuration"] = json.dumps(essence) + "\n"
    return body


def settings_variants(configuration: Any) -> list[tuple[str, Any]]:
    """kopf's default finalizer name and a configured one (`settings.persistence.finalizer`)."""
    default = configuration.OperatorSettings()
    custom = configuration.OperatorSettings()
    custom.persistence.finalizer = CUSTOM_OWN
    if default.persistence.finalizer == CUSTOM_OWN:
        raise RuntimeError("the configured finalizer name must differ from the default one")
    return [("default", default), ("configured", custom)]


# ---------------------------------------------------------------------------------------------
# Whose record is it. "Never handled" = the object carries no last-handled record OF ITS OWN. Which names are the
# object's own is kopf's documented convention (conventions.CollisionEvadingConvention, the text): Kubernetes copies
# a Deployment's annotations — Kopf's records of the DEPLOYMENT among them — down to its ReplicaSets, so the records
# of a ReplicaSet owned by a Deployment go under names marked "-ofDRS"; every other object goes by the plain names.
RECORD = "last-handled-configuration"
MARK = "-ofDRS"
PLACEMENTS: list[tuple[str, list[str] | None]] = [      # (kind, kinds of the owners | None: no ownerReferences at all)
    ("KopfExample", None), ("KopfExample", ["Deployment"]), ("ReplicaSet", None), ("ReplicaSet", []),
    ("ReplicaSet", ["Deployment"]), ("ReplicaSet", ["StatefulSet"]), ("ReplicaSet", ["StatefulSet", "Deployment"]),
    ("ReplicaSet", ["Deployment", "StatefulSet"]), ("ReplicaSet", ["deployment"]), ("replicaset", ["Deployment"]),
    ("Deployment", ["Deployment"]), ("StatefulSet", ["ReplicaSet"]),
]
FOREIGN = ["none", "counterpart", "counterpart-same", "elsewhere", "all"]
OTHER_PREFIX = "other.example.com"
LONG_PREFIX = "verif." + "x" * 30 + ".example.com"      # long enough for kopf's two forms of a key (V1/V2) to differ


def own_marked(kind: Any, owner_kinds: list | None) -> bool:
    """The convention, read from its text: a ReplicaSet with a Deployment among its owners."""
    return kind == "ReplicaSet" and "Deployment" in (owner_kinds or [])


def owner_kinds_of(body: dict) -> list:
    return [o.get("kind") for o in (body.get("metadata", {}).get("ownerReferences") or [])]


def own_record_name(body: dict, prefix: str = "kopf.zalando.org") -> str:
    """The annotation that holds the object's own last-handled record under kopf's default storage."""
    return f"{prefix}/{RECORD}{MARK if own_marked(body.get('kind'), owner_kinds_of(body)) else ''}"


def storage_variants(diffbase: Any) -> list[tuple[str, Any, list]]:
    """(name, storage, its simple parts): kopf's default, configured prefixes (a long one: two key forms), the status
    storage, and a multi-storage of both."""
    ann, status = diffbase.AnnotationsDiffBaseStorage, diffbase.StatusDiffBaseStorage
    a, p, l, st, ma, ms = ann(), ann(prefix="verif.example.com"), ann(prefix=LONG_PREFIX), status(), ann(), status()
    return [("default", a, [a]), ("prefixed", p, [p]), ("long-prefix", l, [l]), ("status", st, [st]),
            ("multi", diffbase.MultiDiffBaseStorage([ma, ms]), [ma, ms])]


def record_body(parts: list, placement: tuple, marked: bool, blocked: bool, old_absent: bool, diff: bool,
                foreign: str, own_slots: str, fin: str) -> tuple[dict, list, list]:
    """An object of the given kind/owners with its own record (unless `old_absent`; equal to its state unless `diff`)
    in the slots that are its own under the storage, and FOREIGN records in slots that are not: the counterpart
    names (plain for a Deployment's ReplicaSet: what the Deployment's operator stored, propagated; marked for all
    others: a left-over), other operators' prefixes, the other kind of storage. → (body, own slots, foreign slots)."""
    import json
    kind, owners = placement
    meta: dict[str, Any] = {"name": "obj", "namespace": "ns", "uid": "u1", "resourceVersion": "5",
                            "labels": {"app": "web"}}
    if owners is not None:
        meta["ownerReferences"] = [{"apiVersion": "apps/v1", "kind": k, "name": f"o{n}", "uid": f"ou{n}",
                                    "controller": n == 0} for n, k in enumerate(owners)]
    body: dict[str, Any] = {"apiVersion": "kopf.dev/v1", "kind": kind, "metadata": meta,
                            "spec": {"field": "new" if diff and not old_absent else "same", "replicas": 3}}
    if blocked:
        meta["finalizers"] = [fin]
    if marked:
        meta["deletionTimestamp"] = "2020-01-01T00:00:00Z"
    own_essence = {"metadata": {"labels": {"app": "web"}}, "spec": {"field": "same", "replicas": 3}}
    owners_essence = {"metadata": {"labels": {"app": "web"}},
                      "spec": {"replicas": 3, "strategy": {"type": "RollingUpdate"}, "template": {"spec": {}}}}
    is_marked = own_marked(kind, owners)
    ann = meta.setdefault("annotations", {})
    own: list = []
    foreign_slots: dict[str, list] = {"counterpart": [], "elsewhere": []}
    has_ann = False
    for part in parts:
        if hasattr(part, "make_keys"):
            has_ann = True
            plain, mark = list(part.make_keys(RECORD)), list(part.make_keys(RECORD + MARK))
            own += [("ann", k) for k in (mark if is_marked else plain)]
            foreign_slots["counterpart"] += [("ann", k) for k in (plain if is_marked else mark)]
            if part.prefix != "kopf.zalando.org":     # what kopf's `store` leaves next to its records
                ann[f"{part.prefix}/kopf-managed"] = "yes"
        else:
            own.append(("status", None))
    prefixes = {getattr(part, "prefix", None) for part in parts}
    for prefix in ["kopf.zalando.org", OTHER_PREFIX]:
        if prefix not in prefixes:
            foreign_slots["elsewhere" if has_ann else "counterpart"] += [("ann", f"{prefix}/{RECORD}"), ("ann", f"{prefix}/{RECORD}{MARK}")]
    if ("status", None) not in own:
        foreign_slots["elsewhere"].append(("status", None))

    def put(slot: tuple, essence: dict) -> None:
        if slot[0] == "status":
            body.setdefault("status", {}).setdefault("kopf", {})[RECORD] = json.dumps(essence, separators=(",", ":"))
        else:
            ann[slot[1]] = json.dumps(essence, separators=(",", ":")) + "\n"
            if slot[1].startswith(OTHER_PREFIX):
                ann[f"{OTHER_PREFIX}/kopf-managed"] = "yes"
    used_foreign: list = []
    if foreign != "none":
        for group, slots in foreign_slots.items():
            if foreign == "all" or foreign.startswith(group):
                for slot in slots:
                    put(slot, own_essence if foreign == "counterpart-same" else owners_essence)
                    used_foreign.append(slot)
    used_own = [] if old_absent else own[-1:] if own_slots == "last-only" else own
    for slot in used_own:
        put(slot, own_essence)
    return body, used_own, used_foreign


async def _records(ctx: Ctx, env: dict, resource: Any, logger: Any) -> None:
    """The fourth fact from its REAL producer: real bodies of every placement (kind x owners) with own and foreign
    records through the configured storage's `fetch` inside the real `_detect_causes`, then the real
    `process_changing_cause` with creation/update/resume handlers built by the real decorators. Oracle, from the
    statement: the cause is the precedence list's with 'never handled' = no record of the object's own; for a never
    handled unmarked object the creation handler runs and the update/resume handlers do not (and the other way round
    for a handled one). Tie: the storage's answer and the cause vs. the model (`C05.fetch`)."""
    import json
    import kopf
    from kopf._cogs.configs import diffbase
    from kopf._core.actions import lifecycles
    configuration, registries, processing, inventory = env["configuration"], env["registries"], env["processing"], env["inventory"]
    indexing, bodies, patches = env["indexing"], env["bodies"], env["patches"]
    called: list[str] = []
    registry = registries.OperatorRegistry()
    for hid, deco in (("c", kopf.on.create), ("u", kopf.on.update), ("r", kopf.on.resume)):
        def fn(hid: str = hid, **_: Any) -> None:
            called.append(hid)
        fn.__name__ = fn.__qualname__ = hid
        deco("kopfexamples", id=hid, registry=registry)(fn)
    indexers = indexing.OperatorIndexers()
    tags: dict[str, int] = {}

    def tag(text: Any, decoded: bool = False) -> int | None:
        """A number per distinct record content (`null` for a text that is JSON null)."""
        try:
            val = text if decoded else json.loads(text)
            canon = json.dumps(val, sort_keys=True)
        except ValueError:
            canon = "text:" + str(text)
        return None if canon == "null" else tags.setdefault(canon, len(tags) + 1)

    reqs, impls, inps = [], [], []
    for sname, storage, parts in storage_variants(diffbase):
        stg = configuration.OperatorSettings()
        stg.persistence.diffbase_storage = storage
        fin = stg.persistence.finalizer
        sspec = [["ann", RECORD, list(p.make_keys(RECORD)), list(p.make_keys(RECORD + MARK))] if hasattr(p, "make_keys")
                 else ["status"] for p in parts]
        multi_slot = len(parts) > 1 or any(len(x[2]) > 1 for x in sspec if x[0] == "ann")
        for placement, foreign, own_slots, (marked, blocked), (old_absent, diff), noticed in itertools.product(
                PLACEMENTS, FOREIGN, ["all", "last-only"] if multi_slot else ["all"],
                [(False, False), (False, True), (True, True)], [(True, False), (False, False), (False, True)], [False, True]):
            if own_slots == "last-only" and old_absent:
                continue
            body, used_own, used_foreign = record_body(parts, placement, marked, blocked, old_absent, diff, foreign, own_slots, fin)
            ev_type = None if noticed else "MODIFIED"
            memory = inventory.ResourceMemory(noticed_by_listing=noticed)
            del called[:]
            cs = processing._detect_causes(indexers=indexers, registry=registry, settings=stg, resource=resource,
                                           raw_event={"type": ev_type, "object": body}, body=bodies.Body(body),
                                           patch=patches.Patch(), memory=memory, local_logger=logger, event_logger=logger)
            cause = cs.changing_cause
            await processing.process_changing_cause(lifecycle=lifecycles.all_at_once, registry=registry, settings=stg,
                                                    memory=memory, cause=cause)
            ran = sorted(called)
            six = [False, marked, blocked, old_absent, diff and not old_absent, noticed]
            want = oracle_reason(*six)
            got = cause.reason.value
            pl = f"{placement[0]}<-{'+'.join(placement[1]) if placement[1] else ('[]' if placement[1] is not None else '-')}"
            ctx.case(key={"rec": [sname, pl, foreign, own_slots, six, got, ran]}, nontrivial=True,
                     sample={"storage": sname, "object": pl, "foreign_records": foreign, "six": six, "reason": got, "ran": ran}
                     if foreign == "counterpart" and old_absent and not marked and sname == "default" else None)
            ctx.count("record_input", f"storage={sname}:own={'absent' if old_absent else own_slots}:foreign={foreign}")
            ctx.count("record_object", f"{pl}:{'marked-names' if own_marked(*placement) else 'plain-names'}")
            ctx.count("record_reason", got)
            rep = {"six": six, "event_type": ev_type, "body": body, "storage": sname, "own_record_in": used_own,
                   "foreign_records_in": used_foreign, "impl": {"reason": got, "ran": ran}}
            whose = (f"{'no' if old_absent else 'a'} record of its own, "
                     f"{'foreign records in ' + ', '.join(str(s[1] or 'status') for s in used_foreign) if used_foreign else 'no foreign records'}")
            if got != want:
                ctx.oracle_fail(f"an object with {whose} is classified as {got}, the property's precedence gives {want}", rep,
                                {"site": "diffbase_storage.fetch", "shape": "whose record", "want": want, "got": got})
            expect = {"create": ["c"], "update": ["u"], "resume": ["r"]}.get(want, [])
            if want == "update" and noticed:
                expect = ["r", "u"]
            if ran != expect:
                ctx.oracle_fail(f"for an object with {whose} ({want} by the precedence list) the handlers {ran} ran, "
                                f"{expect} are the ones to run", rep,
                                {"site": "diffbase_storage.fetch", "shape": "handlers for whose record", "want": want})
            old = storage.fetch(body=bodies.Body(body))
            annotations = body["metadata"].get("annotations", {})
            raw_status = body.get("status", {}).get("kopf", {}).get(RECORD)
            reqs.append(["C05.fetch", {"kind": placement[0], "owners": placement[1] or [],
                                       "annotations": [[k, tag(v)] for k, v in annotations.items()],
                                       "status": tag(raw_status) if raw_status is not None else None},
                         sspec, [False, marked, blocked, diff, noticed]])
            ann_parts = [p for p in parts if hasattr(p, "mark_key")]      # (the status storage marks nothing)
            impls.append({"old": None if old is None else tag(old, decoded=True), "reason": got, "initial": bool(cause.initial),
                          "is_drs": any(p.mark_key(RECORD, body=bodies.Body(body)) != RECORD for p in ann_parts)
                          if ann_parts else own_marked(*placement)})
            inps.append({"storage": sname, "object": pl, "foreign": foreign, "own_slots": own_slots, "six": six, "body": body})
    try:
        outs = ctx.driver.ask(reqs)
    except leanio.LeanError as e:
        ctx.tie_fail(f"Lean driver failed: {e}", {"log": e.log})
        return
    for inp, impl, out in zip(inps, impls, outs):
        ctx.compare("C05 whose record", impl, out[1] if out and out[0] == "ok" else out, inp)
    ctx.traces += len(reqs)


def run(ctx: Ctx) -> None:
    import asyncio
    asyncio.run(_run(ctx))
    closed_loop(ctx)


def consistent_cause(reason: str, cinit: bool, marked: bool) -> bool:
    """Causes that detection can produce (the property's precedence list): the deletion mark goes with the
    deletion/released causes exactly; a creation is never a first sight; a resume always is."""
    if reason == "gone":
        return True
    if (reason in ("delete", "free")) != marked:
        return False
    if reason == "create" and cinit:
        return False
    if reason == "resume" and not cinit:
        return False
    return True


def gate_oracle(ctx: Ctx, hj: dict, cj: dict, selected: bool) -> None:
    """From the statement, over what the registry was given and what it returned (no filters involved).
    A handler is: of a cause kind (reason set) | resuming (initial) | a field handler (no kind, not resuming, needs a
    change of its field: update-only) | a sub-handler (no kind, not resuming, no change needed: of its parent's kind,
    reached through the parent only)."""
    hr, hi, hd, hn = hj["reason"], hj["initial"], hj["deleted"], hj["needs_change"]
    reason, cinit, marked = cj["reason"], cj["initial"], cj["marked"]
    site = "ChangingRegistry.iter_handlers"
    is_field = hr is None and not hi and hn
    is_sub = hr is None and not hi and not hn
    bad = False
    if selected and hr is not None and hr != reason:
        bad = True
        ctx.oracle_fail(f"a {hr} handler was selected for a {reason} cause", {"handler": hj, "cause": cj},
                        {"site": site, "shape": "kind-mismatch"})
    if selected and is_field and marked:
        bad = True
        ctx.oracle_fail("a field handler (no cause kind, not resuming, needs a change of its field) was selected on an "
                        "object marked for deletion", {"handler": hj, "cause": cj}, {"site": site, "shape": "field-on-marked"})
    if selected and hi and (not cinit or (marked and not hd)):
        bad = True
        ctx.oracle_fail("a resume handler was selected without first sight / on a deleting object without opt-in",
                        {"handler": hj, "cause": cj}, {"site": site, "shape": "resume-gate"})
    if bad or selected or reason not in REASONS[:4] or not consistent_cause(reason, cinit, marked):
        return
    # --- not selected, in a handled cause that detection can produce: was it entitled to run?
    if is_sub:
        ctx.oracle_fail(f"a sub-handler (no cause kind, not resuming, no change of a field needed) was not selected for a "
                        f"{reason} cause{' on an object marked for deletion' if marked else ''}: sub-handlers are of their "
                        "parent's kind and must run when the parent does", {"handler": hj, "cause": cj},
                        {"site": site, "shape": "sub-not-selected"})
    elif (hr is None or hr == reason) and (not hi or (cinit and (not marked or hd))) and not (is_field and marked):
        ctx.oracle_fail(f"a handler entitled to the {reason} cause (kind, first-sight and deletion criteria all met) was "
                        "not selected", {"handler": hj, "cause": cj}, {"site": site, "shape": "eligible-not-selected"})


def _gate_case(ctx, env, mk_handler, resource, indexers, logger, settings, kind, c, greqs, gimpl, ginp) -> None:
    causes, registries, bodies, patches = env["causes"], env["registries"], env["bodies"], env["patches"]
    hr, hi, hd, hn = kind
    reason, cinit, marked = c
    reg = registries.OperatorRegistry()
    reg._changing.append(mk_handler(causes.Reason(hr) if hr else None, hi, hd, hn))
    body = make_body(settings, marked, True, False, False, 0)
    cause = causes.ChangingCause(
        resource=resource, indices=indexers.indices, logger=logger, patch=patches.Patch(), body=bodies.Body(body),
        memo=None, initial=cinit, reason=causes.Reason(reason))
    selected = len(reg._changing.get_handlers(cause=cause)) == 1
    hj = {"reason": hr, "initial": bool(hi), "deleted": bool(hd), "needs_change": bool(hn)}
    cj = {"reason": reason, "initial": cinit, "marked": marked}
    ctx.case(key={"h": hj, "c": cj, "sel": selected}, nontrivial=True)
    ctx.count("gate", selected)
    shape = ("kind:" + hr) if hr else "resuming" if hi else "field" if hn else "sub"
    ctx.count("gate_shape", f"{shape}{'+resuming' if hr and hi else ''}:{'marked' if marked else 'unmarked'}:{selected}")
    gate_oracle(ctx, hj, cj, selected)
    if greqs is not None:
        greqs.append(["C05.gate", hj, cj])
        gimpl.append(selected)
        ginp.append({"handler": hj, "cause": cj})


def _shape(h: Any) -> dict:
    return {"reason": h.reason.value if h.reason is not None else None, "initial": bool(h.initial),
            "deleted": bool(h.deleted), "needs_change": bool(h.field_needs_change)}


COMPOSITION_PASSES = [
    # (name, through process_resource_causes?, the deletion handler is optional?)
    ("detect+handle", False, False),      # `_detect_causes` + `process_changing_cause`, as the model's `invocableS`
    ("whole-pass", True, False),          # `process_resource_causes`: + the finalizer cycles (`invocableRC … true`)
    ("whole-pass/optional", True, True),  # … with an optional deletion handler: no finalizer required (`… false`)
]


async def _composition(ctx: Ctx, env: dict, settings: Any, resource: Any, logger: Any,
                       greqs: list, gimpl: list, ginp: list, sname: str = "default",
                       whole: bool = False, optional: bool = False, pass_name: str = "detect+handle") -> None:
    """Real body -> real `_detect_causes` -> real `process_changing_cause` (or, `whole`: the real
    `process_resource_causes`, which does both and the finalizer cycles in between), with one handler of every kind
    built by the real `kopf.on` decorators, each creating sub-handlers in the four ways kopf offers. Observed:
    which functions were called. Oracle (strict, from the statement): a handler with a cause kind runs only for
    the event the precedence list gives that kind to; resume handlers only at first sight, never in a creation,
    on a marked object only when opted in; field handlers only in creations/updates; a sub-handler runs iff its
    parent runs; nothing of creation/update/field parentage on a marked object; deletion parentage only marked +
    held by the configured finalizer; nothing in gone/released/no-op events."""
    import kopf
    from kopf._core.actions import lifecycles
    registries, processing, inventory, indexing = env["registries"], env["processing"], env["inventory"], env["indexing"]
    bodies, patches = env["bodies"], env["patches"]
    called: list[str] = []
    sub_shapes: dict[str, dict] = {}
    registry = registries.OperatorRegistry()
    HOWS = ("dec", "reg", "fn", "lst")

    def mk_parent(pid: str):
        async def sub_reg(**_: Any) -> None:
            called.append(f"{pid}/reg")

        async def sub_fn(**_: Any) -> None:
            called.append(f"{pid}/fn")

        async def sub_lst(**_: Any) -> None:
            called.append(f"{pid}/lst")

        async def parent(**_: Any) -> None:
            called.append(pid)

            @kopf.subhandler(id="dec")
            async def sub_dec(**_: Any) -> None:
                called.append(f"{pid}/dec")

            kopf.register(sub_reg, id="reg")
            from kopf._core.reactor import subhandling
            for h in subhandling.subregistry_var.get()._handlers:
                sub_shapes[f"{pid}/{str(h.id).rsplit('/', 1)[-1]}"] = _shape(h)
            await kopf.execute()                    # the accumulated (inheriting) sub-handlers
            await kopf.execute(fns={"fn": sub_fn})   # the plain ones, given as a mapping id -> function
            await kopf.execute(fns=[sub_lst])        # … and as a list of functions
        parent.__name__ = parent.__qualname__ = pid
        return parent

    kopf.on.create("kopfexamples", id="c", registry=registry)(mk_parent("c"))
    kopf.on.update("kopfexamples", id="u", registry=registry)(mk_parent("u"))
    kopf.on.delete("kopfexamples", id="d", registry=registry, optional=optional)(mk_parent("d"))
    kopf.on.resume("kopfexamples", id="r", registry=registry)(mk_parent("r"))
    kopf.on.resume("kopfexamples", id="rd", deleted=True, registry=registry)(mk_parent("rd"))
    kopf.on.field("kopfexamples", id="f", field="spec.field", registry=registry)(mk_parent("f"))
    parents = {h.fn.__name__: h for h in registry._changing._handlers}   # (ids get a field suffix)
    kind_of = {"c": "create", "u": "update", "d": "delete", "r": "resume", "rd": "resume", "f": "field"}
    if set(parents) != set(kind_of):
        raise RuntimeError(f"decorators registered unexpected handlers: {sorted(parents)}")
    for pid, h in parents.items():
        greqs.append(["C05.decorated", _shape(h)])
        gimpl.append(True)
        ginp.append({"decorated": pid, "shape": _shape(h)})
    indexers = indexing.OperatorIndexers()
    own = settings.persistence.finalizer
    must_block = not optional       # a mandatory deletion handler without filters: the finalizer is required
    sreqs, simpl, sinp = [], [], []
    for ev_type, marked, blocked, old_absent, diff, noticed, handled_once, variant in itertools.product(
            ["DELETED", "MODIFIED", None], [False, True], [False, True], [False, True], [False, True],
            [False, True], [False, True], [0, 5]):
        body = make_body(settings, marked, blocked, old_absent, diff, variant)
        memory = inventory.ResourceMemory(noticed_by_listing=noticed)
        memory.fully_handled_once = handled_once
        del called[:]
        if whole:
            patch = patches.Patch()
            await processing.process_resource_causes(
                lifecycle=lifecycles.all_at_once, indexers=indexers, registry=registry, settings=settings,
                resource=resource, raw_event={"type": ev_type, "object": body}, body=bodies.Body(body), patch=patch,
                memory=memory, local_logger=logger, event_logger=logger, stream_pressure=None, operator_paused=None,
                consistency_time=None)
        else:
            cs = processing._detect_causes(indexers=indexers, registry=registry, settings=settings, resource=resource,
                                           raw_event={"type": ev_type, "object": body}, body=bodies.Body(body),
                                           patch=patches.Patch(), memory=memory, local_logger=logger, event_logger=logger)
            await processing.process_changing_cause(lifecycle=lifecycles.all_at_once, registry=registry, settings=settings,
                                                    memory=memory, cause=cs.changing_cause)
        ran = list(called)
        # the six facts, by construction (none read back from the implementation)
        six = [ev_type == "DELETED", marked, blocked, old_absent, diff and not old_absent, noticed and not handled_once]
        reason = oracle_reason(*six)
        ctx.case(key={"comp": six, "pass": pass_name, "ran": sorted(ran)}, nontrivial=True,
                 sample={"six": six, "pass": pass_name, "reason": reason, "ran": sorted(ran)}
                 if marked and blocked and ran and noticed and sname == "default" and variant == 0 else None)
        ctx.count("composition_reason", f"{pass_name}:{reason}")
        rep = {"six": six, "event_type": ev_type, "body": body, "reason": reason, "ran": sorted(ran), "pass": pass_name,
               "finalizer_setting": own, "deletion_handler_optional": optional}
        held = marked and own in (body["metadata"].get("finalizers") or [])
        site = "process_resource_causes" if whole else "process_changing_cause"
        for hid in ran:
            pid = hid.split("/")[0]
            k = kind_of[pid]
            who = f"a {k} handler" if hid == pid else f"a sub-handler ({hid}) of a {k} handler"
            ctx.count("composition_calls", f"{k}{'/sub' if hid != pid else ''}:{'marked' if marked else 'unmarked'}")
            if k in ("create", "update", "field") and marked:
                ctx.oracle_fail(f"{who} was invoked on an object marked for deletion", dict(rep, handler=hid),
                                {"site": "process_changing_cause", "shape": f"{k} handler on a marked object"})
            if k == "delete" and not (held and ev_type != "DELETED"):
                ctx.oracle_fail(f"{who} was invoked while the object was not marked for deletion or not held by the "
                                "framework's finalizer", dict(rep, handler=hid),
                                {"site": "process_changing_cause", "shape": "delete handler outside a held deletion"})
            if reason in ("gone", "free", "noop"):
                ctx.oracle_fail(f"{who} was invoked for a {reason} event", dict(rep, handler=hid),
                                {"site": "process_changing_cause", "shape": "handler in an informational cause"})
            elif k in ("create", "update", "delete") and k != reason:
                ctx.oracle_fail(f"{who} was invoked for an event that the precedence list classifies as {reason}",
                                dict(rep, handler=hid), {"site": site, "shape": f"{k} handler in a {reason} cause"})
            elif k == "resume" and (not six[5] or reason == "create" or (marked and pid == "r")):
                why = ("although the object is not at its first sight" if not six[5] else
                       "in a creation (creation never mixes with resuming)" if reason == "create" else
                       "on an object marked for deletion without deleted=True")
                ctx.oracle_fail(f"{who} was invoked {why}", dict(rep, handler=hid),
                                {"site": site, "shape": "resume handler outside a first sight"})
            elif k == "field" and reason not in ("create", "update"):
                ctx.oracle_fail(f"{who} was invoked for a {reason} event (field handlers are for creations/updates)",
                                dict(rep, handler=hid), {"site": site, "shape": f"field handler in a {reason} cause"})
            if hid != pid and pid not in ran:
                ctx.oracle_fail(f"{who} ran although its parent did not", dict(rep, handler=hid),
                                {"site": "subhandling.execute", "shape": "sub-handler without its parent"})
        for pid in kind_of:
            for how in HOWS:
                hid = f"{pid}/{how}"
                if pid in ran and hid not in ran:
                    ctx.oracle_fail(f"the {kind_of[pid]} handler {pid} ran{' on an object marked for deletion' if marked else ''}, "
                                    f"its sub-handler {hid} was not selected: the parent finishes without the sub-handler's work",
                                    dict(rep, handler=hid),
                                    {"site": "ChangingRegistry.iter_handlers", "shape": f"sub-handler of a {kind_of[pid]} handler not run"})
                kind = "inherit" if how in ("dec", "reg") else "plain"
                sreqs.append(["C05.subRC", _shape(parents[pid]), kind, six, must_block] if whole else
                             ["C05.sub", _shape(parents[pid]), kind, six])
                simpl.append({"parent": pid in ran, "sub": hid in ran,
                              "needs_change": sub_shapes.get(hid, {}).get("needs_change") if kind == "inherit" else False})
                sinp.append({"parent": pid, "sub": hid, "six": six, "event_type": ev_type, "pass": pass_name,
                             "finalizer_setting": sname, "variant": variant})
    try:
        outs = ctx.driver.ask(sreqs)
    except leanio.LeanError as e:
        ctx.tie_fail(f"Lean driver failed: {e}", {"log": e.log})
        return
    for inp, impl, out in zip(sinp, simpl, outs):
        model = out[1] if out and out[0] == "ok" else out
        if isinstance(model, dict):
            if inp["parent"] == "f":      # the field filter (C15's subject) also decides for the field handler
                model = dict(model, parent=impl["parent"] and model["parent"], sub=impl["parent"] and model["sub"])
            model = {k: model[k] for k in ("parent", "sub", "needs_change")}
            if impl["needs_change"] is None:   # the parent never ran: no sub-handler was built
                impl = dict(impl, needs_change=model["needs_change"])
        ctx.compare("C05 sub-handlers", impl, model, inp)
    ctx.traces += len(sreqs) // (len(kind_of) * len(HOWS))


async def _run(ctx: Ctx) -> None:
    env = _kopf_env()
    causes, registries, handlers = env["causes"], env["registries"], env["handlers"]
    processing, inventory, indexing = env["processing"], env["inventory"], env["indexing"]
    configuration, bodies, patches, references = env["configuration"], env["bodies"], env["patches"], env["references"]
    settings = configuration.OperatorSettings()
    resource = references.Resource("kopf.dev", "v1", "kopfexamples", namespaced=True)
    logger = logging.getLogger("verif.c05")
    logger.setLevel(logging.CRITICAL)

    def fn(**_: Any) -> None:
        pass

    def mk_handler(reason, initial, deleted, fnc=None, hid="h"):
        return handlers.ChangingHandler(
            fn=fn, id=hid, param=None, errors=None, timeout=None, retries=None, backoff=None,
            selector=references.Selector("kopfexamples"), labels=None, annotations=None, when=None,
            field=None, value=None, old=None, new=None, field_needs_change=fnc,
            initial=initial, deleted=deleted, requires_finalizer=None, reason=reason)

    registry = registries.OperatorRegistry()
    registry._changing.append(mk_handler(None, None, None))
    indexers = indexing.OperatorIndexers()

    # ---- part 1: the decision table through the real _detect_causes --------------------------
    # The six facts are CONSTRUCTED here (event type, deletion mark, which finalizers the body carries under
    # which configured name, whether a last-handled state is stored, where the body differs from it, the two
    # memory flags); nothing of them is read back from the implementation.
    requests, impl_out, inputs = [], [], []
    for (sname, stg), ev_type, marked, blocked, old_absent, diff, noticed, handled_once, variant in itertools.product(
            settings_variants(configuration), ["DELETED", "MODIFIED", "ADDED", None], [False, True], [False, True],
            [False, True], [False, True], [False, True], [False, True], [0, 3, 4, 5]):
        for diff_kind in (DIFF_KINDS if diff and not old_absent and variant != 4 else ["spec"]):
            body = make_body(stg, marked, blocked, old_absent, diff, variant, diff_kind)
            raw_event = {"type": ev_type, "object": body}
            memory = inventory.ResourceMemory(noticed_by_listing=noticed)
            memory.fully_handled_once = handled_once
            patch = patches.Patch()
            cs = processing._detect_causes(indexers=indexers, registry=registry, settings=stg, resource=resource,
                                           raw_event=raw_event, body=bodies.Body(body), patch=patch, memory=memory,
                                           local_logger=logger, event_logger=logger)
            cause = cs.changing_cause
            deleted = ev_type == "DELETED"
            initial = noticed and not handled_once
            # NB: with no stored essence, kopf diffs None against the new essence: its diff is non-empty;
            # the decision does not read it in that case (`old is None` decides first).
            six = [deleted, marked, blocked, old_absent, (diff and not old_absent), initial]
            got = {"reason": cause.reason.value, "initial": bool(cause.initial)}
            want = oracle_reason(*six)
            key = {"in": six, "out": got}
            rep = {"six": six, "event_type": ev_type, "body": body, "impl": got, "finalizer_setting": stg.persistence.finalizer}
            ctx.case(key=key, nontrivial=True, sample={"event_type": ev_type, "six": six, "impl": got} if variant == 0 and noticed and sname == "default" else None)
            ctx.count("reason", got["reason"])
            ctx.count("detect_input", f"finalizer={sname}:variant={variant}:diff={diff_kind if six[4] else '-'}")
            if got["reason"] != want:
                ctx.oracle_fail(f"event classified as {got['reason']}, the property's precedence gives {want}", rep,
                                {"site": "detect_changing_cause", "want": want, "got": got["reason"]})
            if not old_absent and bool(cause.diff) != six[4]:
                ctx.oracle_fail(f"the essential difference to the last-handled state is {'missed' if six[4] else 'invented'} "
                                f"(difference in: {diff_kind if six[4] else 'status/system metadata/own annotations only'})",
                                rep, {"site": "processing._detect_causes", "shape": "essential difference"})
            if got["reason"] == "create" and got["initial"]:
                ctx.oracle_fail("creation cause carries initial=True (resume handlers would mix into creation)",
                                rep, {"site": "detect_changing_cause", "shape": "create+initial"})
            if got["reason"] != "create" and got["initial"] != initial:
                ctx.oracle_fail("the cause's first-sight flag is not 'noticed by the listing and not fully handled yet'",
                                rep, {"site": "processing._detect_causes", "shape": "first-sight flag"})
            if bool(cause.deleted) != marked:
                ctx.oracle_fail("cause.deleted disagrees with the deletion mark", {"body": body}, {"site": "ChangingCause.deleted"})
            requests.append(["C05.detect", six])
            impl_out.append(got)
            inputs.append({"event_type": ev_type, "six": six, "finalizer_setting": sname, "variant": variant, "diff_kind": diff_kind})

    # ---- part 2: the handler gate through the real registry ----------------------------------
    # the full finite space of what the gate reads: reason x initial x deleted x field_needs_change (None/False/
    # True: top-level handlers, field handlers, sub-handlers of every parentage) x every cause
    greqs, gimpl, ginp = [], [], []
    kinds = [(r, i, d, n) for r in [None, "create", "update", "delete", "resume"]
             for i in [None, False, True] for d in [None, False, True] for n in [None, False, True]]
    causes_all = list(itertools.product(REASONS, [False, True], [False, True]))
    corpus_gate = [d for _, d in __import__("harness.core", fromlist=["load_corpus"]).load_corpus("C05") if d.get("kind") == "gate"]
    for d in corpus_gate:     # corpus first
        hj, cj = d["replay"]["handler"], d["replay"]["cause"]
        _gate_case(ctx, env, mk_handler, resource, indexers, logger, settings,
                   (hj["reason"], hj["initial"], hj["deleted"], hj["needs_change"]),
                   (cj["reason"], cj["initial"], cj["marked"]), None, None, None)
        ctx.count("corpus", "gate")
    for kind in kinds:
        for c in causes_all:
            _gate_case(ctx, env, mk_handler, resource, indexers, logger, settings, kind, c, greqs, gimpl, ginp)

    # ---- part 3: real decorators, real sub-handlers, real detection + real handling pass ------------
    for sname, stg in settings_variants(configuration):
        for pass_name, whole, optional in COMPOSITION_PASSES:
            await _composition(ctx, env, stg, resource, logger, greqs, gimpl, ginp, sname=sname, whole=whole,
                               optional=optional, pass_name=pass_name)

    # ---- the tie: same inputs through the Lean model ------------------------------------------
    try:
        outs = ctx.driver.ask(requests + greqs)
    except leanio.LeanError as e:
        ctx.tie_fail(f"Lean driver failed: {e}", {"log": e.log})
        return
    for inp, impl, out in zip(inputs + ginp, impl_out + gimpl, outs):
        model = out[1] if out and out[0] == "ok" else out
        ctx.compare("C05 decision", impl, model, inp)
    ctx.exhaustive = True
    ctx.traces = len(requests) + len(greqs)

    # ---- part 4: whose record is it — the fourth fact from the real storages -----------------------
    await _records(ctx, env, resource, logger)


def _essence(body: dict) -> dict:
    """Independent reading of the essence for default settings: everything but status, system metadata and
    kopf's own annotations (used only to tell "essential difference" in closed-loop histories)."""
    out = {k: v for k, v in body.items() if k not in ("status", "metadata", "apiVersion", "kind")}
    meta = body.get("metadata", {})
    m = {}
    if meta.get("labels"):
        m["labels"] = meta["labels"]
    ann = {k: v for k, v in (meta.get("annotations") or {}).items()
           if not k.startswith("kopf.zalando.org/") and k != "kubectl.kubernetes.io/last-applied-configuration"}
    if ann:
        m["annotations"] = ann
    if m:
        out["metadata"] = m
    return out


def closed_loop(ctx: Ctx) -> None:
    """Every cycle of whole-operator histories: the cause kopf computed vs. the property's precedence list
    evaluated on independently observed facts (event type, deletion mark, own finalizer, stored last-handled
    state, essential difference, first sight = seen in the start-up listing and no handling cycle ended yet
    for this object in this process)."""
    import json as _json
    from ..sim import pool
    from . import c02, c14
    n = ctx.budget(60, 1500)
    scenarios = [c14.gen_scenario(ctx.rng, 31_000_000 + ctx.seed * 100000 + i) for i in range(n)]
    scenarios += [c02.gen_supersede(ctx.rng, 32_000_000 + ctx.seed * 100000 + i) for i in range(n // 2)]
    scenarios += [gen_field_delete(ctx.rng, 33_000_000 + ctx.seed * 100000 + i) for i in range(max(12, n // 3))]
    scenarios += [gen_sub_delete(ctx.rng, 34_000_000 + ctx.seed * 100000 + i) for i in range(max(16, n // 3))]
    scenarios += [gen_histories(ctx.rng, 35_000_000 + ctx.seed * 100000 + i) for i in range(max(48, n // 2))]
    scenarios += [gen_owned(ctx.rng, 36_000_000 + ctx.seed * 100000 + i) for i in range(max(32, n // 3))]
    corpus = [d["scenario"] for _, d in __import__("harness.core", fromlist=["load_corpus"]).load_corpus("C05")
              if d.get("kind") == "scenario"]
    scenarios = corpus + scenarios     # corpus first
    ctx.count("corpus", "scenario", len(corpus))
    for sc, res in zip(scenarios, pool.run_many(scenarios, wall=40.0)):
        if "trace" not in res or res["trace"].get("sim_error"):
            raise RuntimeError(f"simulation failed: {str(res)[:1500]}")
        ctx.traces += 1
        judge(ctx, sc, res["trace"])


def judge(ctx: Any, sc: dict, tr: dict) -> None:
    """All closed-loop oracle clauses over one trace."""
    import json as _json
    if True:
        _call_clauses(ctx, sc, tr)
        _sub_clauses(ctx, sc, tr)
        _body_clauses(ctx, sc, tr)
        _record_clauses(ctx, sc, tr)
        own = own_of(sc)
        ctx.count("closed_loop_finalizer_setting", "default" if own == DEFAULT_OWN else "configured")
        ctx.count("closed_loop_generator", str(sc.get("c05", "c14/c02")))
        first_by_listing: dict[tuple, bool] = {}
        ended: set[tuple] = set()
        for cyc in tr["cycles"]:
            key = (cyc["inc"], cyc["uid"])
            first_by_listing.setdefault(key, cyc["event_type"] is None)
            cause = cyc.get("cause")
            if cause is None or cyc.get("error"):
                continue
            meta = cyc["body"].get("metadata", {})
            marked = bool(meta.get("deletionTimestamp"))
            blocked = own in (meta.get("finalizers") or [])
            foreign = [f for f in (meta.get("finalizers") or []) if f != own]
            raw = (meta.get("annotations") or {}).get(own_record_name(cyc["body"]))   # the object's OWN record
            old_absent = raw is None
            try:
                diff = (not old_absent) and _json.loads(raw) != _essence(cyc["body"])
            except ValueError:
                continue
            initial = first_by_listing[key] and key not in ended
            want = oracle_reason(cyc["event_type"] == "DELETED", marked, blocked, old_absent, diff, initial)
            got = cause["reason"]
            ctx.case(key={"loop": [cyc["event_type"] is None, marked, blocked, old_absent, diff, initial, got]}, nontrivial=True)
            ctx.count("closed_loop_reason", got)
            others = sorted(k.split("/", 1)[1] for k in (meta.get("annotations") or {})
                            if k.startswith("kopf.zalando.org/" + RECORD) and k != own_record_name(cyc["body"]))
            ctx.count("closed_loop_record", f"{cyc['body'].get('kind')}<-{'+'.join(map(str, owner_kinds_of(cyc['body']))) or '-'}:"
                                            f"own={'absent' if old_absent else 'present'}:foreign={'+'.join(others) or 'none'}")
            ctx.count("closed_loop_input", f"{'marked' if marked else 'unmarked'}:{'held' if blocked else 'not-held'}:"
                                           f"{'foreign-finalizers' if foreign else 'no-foreign'}:"
                                           f"{'listed' if cyc['event_type'] is None else cyc['event_type']}:"
                                           f"{'first-sight' if initial else 'seen'}")
            if got != want:
                ctx.oracle_fail(f"closed loop: event classified as {got}, the property's precedence gives {want} "
                                f"(first sight={initial}, essential difference={diff})",
                                {"scenario": sc, "cycle": cyc["i"]},
                                {"site": "processing._detect_causes", "shape": "closed-loop cause", "want": want, "got": got})
            if cause["initial"] and not initial and got != "create":
                ctx.oracle_fail("closed loop: the cause carries first-sight although the object "
                                + ("first appeared through the watch, not in a listing that started the process's view of it"
                                   if not first_by_listing[key] else
                                   "has been through a whole handling cycle in this process") +
                                " (resume handlers would be mixed in)",
                                {"scenario": sc, "cycle": cyc["i"]},
                                {"site": "processing._detect_causes", "shape": "stale first-sight flag"})
            p = cyc.get("pcc")
            if p and p["reason"] in REASONS[:4] and "P_after" in p and p.get("outcomes") is not None or (p and not p["selected"] and p["reason"] in REASONS[:4]):
                fin = all(bool((p["P"].get(h) and (p["P"][h]["success"] or p["P"][h]["failure"])) or
                               ((p.get("outcomes") or {}).get(h) or {}).get("final")) for h in p["selected"])
                if fin:
                    ended.add(key)


def gen_field_delete(rng: Any, i: int) -> dict:
    """Field handlers next to create/update/delete handlers; a field is changed shortly before (or while the
    operator is down, or together with) the deletion request, so that the deletion cause carries a changed field."""
    handlers = [{"kind": "field", "id": "f0", "opts": {"field": "spec.x"}, "script": [rng.choice(["ok", ["temp", 1.0]])], "default": "ok"},
                {"kind": "delete", "id": "d0", "opts": {"optional": rng.random() < 0.3},
                 "script": [rng.choice(["ok", ["temp", 1.0], ["sleep", 0.5, "ok"]])], "default": "ok"}]
    if rng.random() < 0.6:
        handlers.append({"kind": "update", "id": "u0", "script": [rng.choice(["ok", ["temp", 2.0]])], "default": "ok"})
    if rng.random() < 0.6:
        handlers.append({"kind": "create", "id": "c0", "script": ["ok"], "default": "ok"})
    if rng.random() < 0.3:
        handlers.append({"kind": "resume", "id": "r0", "opts": {"deleted": rng.random() < 0.5}, "script": ["ok"], "default": "ok"})
    rng.shuffle(handlers)
    tl: list[list] = [[1.0, "create", "a", {"spec": {"x": 0, "y": 0}, "metadata": {"labels": {"l": "1"}}}]]
    t = 4.0
    mode = rng.choice(["edit-then-delete", "down", "same-instant", "edit-during-deletion"])
    if mode == "down":
        tl += [[t, rng.choice(["stop", "kill"])], [t + 0.5, "edit", "a", {"spec": {"x": 1}}], [t + 0.75, "delete", "a"], [t + 1.5, "start"]]
    elif mode == "same-instant":
        tl += [[t, "edit", "a", {"spec": {"x": 1}}], [t, "delete", "a"]]
    elif mode == "edit-during-deletion":
        tl += [[t, "delete", "a"], [t + rng.choice([0.015625, 0.25, 0.75]), "edit", "a", {"spec": {"x": 2}}]]
    else:
        tl += [[t, "edit", "a", {"spec": {"x": 1}}], [t + rng.choice([0.015625, 0.125, 0.5, 2.0]), "delete", "a"]]
    return {"seed": i, "lifecycle": rng.choice(["asap", "one_by_one", "all_at_once"]), "handlers": handlers, "timeline": tl,
            "settings": {"execution.default_backoff": 1.0}, "end": t + 25.0}


def gen_histories(rng: Any, i: int) -> dict:
    """Object histories the other generators never produce (white-box review, review/wb/C05):
    * a configured finalizer name (`settings.persistence.finalizer`), kopf's default name then being a FOREIGN one;
    * foreign finalizers on the object, among them look-alikes of the framework's (`near_misses`): the object lingers
      marked-but-released after the framework's finalizer is gone (cause: released), is edited while lingering, and
      the framework's finalizer is stripped by force while deletion handlers retry;
    * objects that appear WHILE the operator runs carrying a stored last-handled state (restored from a backup,
      copied with their annotations), and objects created while the operator is down;
    * re-listings / reconnects while the first handling of an object seen through the watch is not over;
    * changes made inside a gap of the watch (the re-listing brings them), also next to daemons / timers (kopf then
      classifies from the daemons' live view of the object instead of the event's)."""
    own = rng.choice([DEFAULT_OWN, DEFAULT_OWN, CUSTOM_OWN, "kopf.zalando.org/KopfFinalizerMarker2"])
    settings: dict[str, Any] = {"execution.default_backoff": 1.0, "watching.reconnect_backoff": 0.5}
    if own != DEFAULT_OWN:
        settings["persistence.finalizer"] = own
    foreign_pool = near_misses(own) + ["other.io/hold"]
    foreign = rng.sample(foreign_pool, rng.choice([0, 0, 1, 1, 2]))
    mk_script = lambda: [rng.choice(["ok", "ok", ["temp", 1.0], ["temp", 2.0], ["sleep", 1.0, "ok"]])]   # noqa: E731
    handlers: list[dict] = [
        {"kind": "delete", "id": "d0", "opts": {"optional": rng.random() < 0.5}, "script": mk_script(), "default": "ok"},
        {"kind": "resume", "id": "r0", "opts": {"deleted": True}, "script": mk_script(), "default": "ok"},
    ]
    if rng.random() < 0.7:
        handlers.append({"kind": "create", "id": "c0", "script": [rng.choice(["ok", ["temp", 1.0], ["temp", 2.0], ["sleep", 1.5, "ok"]])],
                         "default": "ok"})
    if rng.random() < 0.7:
        handlers.append({"kind": "update", "id": "u0", "script": mk_script(), "default": "ok"})
    if rng.random() < 0.4:
        handlers.append({"kind": "resume", "id": "r1", "opts": {}, "script": mk_script(), "default": "ok"})
    if rng.random() < 0.3:
        handlers.append({"kind": "field", "id": "f0", "opts": {"field": "spec.x"}, "script": ["ok"], "default": "ok"})
    if rng.random() < 0.3:
        handlers.append({"kind": "delete", "id": "d1", "opts": {}, "script": ["ok"], "default": "ok"})
    bg = rng.choice([None, None, "daemon", "timer"])
    if bg == "daemon":
        handlers.append({"kind": "daemon", "id": "dm", "daemon": {"mode": "obey", "poll": 0.5}})
    elif bg == "timer":
        handlers.append({"kind": "timer", "id": "tm", "opts": {"interval": rng.choice([1.0, 2.0])}})
    rng.shuffle(handlers)

    def body(x: int, stored: Any = None) -> dict:
        meta: dict[str, Any] = {"labels": {"l": "1"}}
        if foreign:
            meta["finalizers"] = list(foreign)
        if stored is not None:     # a last-handled state comes with the object (restored / copied)
            import json
            ess = {"spec": {"x": stored, "y": 0}, "metadata": {"labels": {"l": "1"}}}
            meta["annotations"] = {"kopf.zalando.org/last-handled-configuration": json.dumps(ess, separators=(",", ":")) + "\n"}
        return {"spec": {"x": x, "y": 0}, "metadata": meta}

    def gap(t: float, *ops: list) -> list[list]:
        """ops placed inside a gap of the watch: the stream ends with "410 Gone", the ops follow within the
        reconnect back-off, and it is the fresh LISTING (events without a type) that brings their news."""
        return [[t, "compact"], [t, "break", "410"]] + [[t + 0.125 * (k + 1), *op] for k, op in enumerate(ops)]

    def relist(t: float) -> list[list]:
        return rng.choice([[[t, "compact"], [t, "break", "410"]], [[t, "break", "eof"]], [[t, "break", "conn"]]])

    tl: list[list] = []
    objects: list[dict] = []
    mode = rng.choice(["restored", "restored", "created-while-down", "slow-first-handling", "foreign-held", "foreign-held",
                       "stripped", "gap"])
    t = 1.0
    if mode == "restored":
        stored = rng.choice([0, 0, 5])                      # equal to the object's state, or not
        tl.append([t, "create", "a", body(0, stored)])
        t += rng.choice([0.25, 1.0, 3.0])
        tl += relist(t)
        t += rng.choice([1.0, 2.0])
        tl.append([t, rng.choice(["edit", "delete", "edit"]), "a"])
        if tl[-1][1] == "edit":
            tl[-1].append({"spec": {"x": rng.choice([1, 5])}})
        if rng.random() < 0.5:
            t += rng.choice([0.5, 2.0])
            tl += relist(t)
    elif mode == "created-while-down":
        tl += [[t, rng.choice(["stop", "kill"])], [t + 0.5, "create", "a", body(0, rng.choice([None, None, 0]))]]
        if rng.random() < 0.3:
            tl.append([t + 0.75, "delete", "a"])
        tl.append([t + 1.5, "start"])
        t += 1.5 + rng.choice([0.25, 1.0, 3.0])
        tl += relist(t)
        if rng.random() < 0.5:
            tl.append([t + 2.0, "edit", "a", {"spec": {"x": 3}}])
    elif mode == "slow-first-handling":
        tl.append([t, "create", "a", body(0)])
        t += rng.choice([0.25, 0.5, 1.0])
        tl += relist(t)
        t += rng.choice([0.25, 0.75, 1.5])
        tl.append([t, rng.choice(["delete", "delete", "edit"]), "a"])
        if tl[-1][1] == "edit":
            tl[-1].append({"spec": {"x": 2}})
        if rng.random() < 0.5:
            t += rng.choice([0.25, 1.0])
            tl += relist(t)
    elif mode == "foreign-held":
        if not foreign:
            foreign.append(rng.choice(foreign_pool))
        if rng.random() < 0.5:
            objects.append({"name": "a", "body": body(0, rng.choice([None, 0]))})
        else:
            tl.append([t, "create", "a", body(0)])
        t += rng.choice([1.0, 4.0])
        tl.append([t, "delete", "a"])
        t += rng.choice([2.0, 6.0])
        tl.append([t, "edit", "a", {"spec": {"x": 9}}])            # edited while lingering
        if rng.random() < 0.5:
            tl += relist(t + 1.0)
        if rng.random() < 0.5:
            tl += [[t + 2.0, rng.choice(["stop", "kill"])], [t + 3.0, "start"]]
        t += 6.0
        tl.append([t, "edit", "a", {"metadata": {"finalizers": []}}])   # the others let it go
    elif mode == "stripped":
        tl.append([t, "create", "a", body(0)])
        t += 4.0
        tl.append([t, "delete", "a"])
        t += rng.choice([0.25, 0.75, 1.5])
        tl.append([t, "edit", "a", {"metadata": {"finalizers": list(foreign)}}])   # the framework's finalizer removed by force
        if foreign:
            tl.append([t + 5.0, "edit", "a", {"metadata": {"finalizers": []}}])
    else:   # gap
        objects.append({"name": "a", "body": body(0, 0)})
        tl.append([t, "create", "b", body(0)])
        t += 5.0
        what = rng.choice(["delete", "edit", "edit+delete", "create"])
        ops = {"delete": [["delete", "a"]], "edit": [["edit", "a", {"spec": {"x": 4}}]],
               "edit+delete": [["edit", "b", {"spec": {"x": 4}}], ["delete", "b"]],
               "create": [["create", "c", body(0, rng.choice([None, 0]))], ["delete", "a"]]}[what]
        tl += gap(t, *ops)
        t += 4.0
        if rng.random() < 0.5:
            tl += gap(t, ["edit", "a", {"spec": {"x": 6}}], ["edit", "b", {"metadata": {"labels": {"l": "2"}}}])
    sc = {"seed": i, "c05": "histories:" + mode, "lifecycle": rng.choice(["asap", "one_by_one", "all_at_once", None]),
          "handlers": handlers, "timeline": sorted(tl, key=lambda e: e[0]), "settings": settings, "end": t + 30.0}
    if objects:
        sc["objects"] = objects
    return sc


def gen_owned(rng: Any, i: int) -> dict:
    """Objects whose own record names differ from the plain ones, and objects carrying records that are not theirs:
    ReplicaSets owned by Deployments (next to standalone ones, ones of other owners, other kinds owned by Deployments)
    with the Deployment's propagated last-handled record under the plain name — or, for the others, a left-over record
    under the marked name. They are born in a roll-out while the operator runs, exist before it starts, are created
    while it is down; the propagated record arrives later (the Deployment's operator starts later); a standalone
    ReplicaSet is adopted by a Deployment, a Deployment's ReplicaSet is orphaned (its own names change with that)."""
    import json
    kind, owners = rng.choice([("ReplicaSet", ["Deployment"])] * 6 + [("ReplicaSet", ["StatefulSet", "Deployment"])] +
                              [p for p in PLACEMENTS if p[0] != "replicaset"])
    marked_names = own_marked(kind, owners)
    spec = {"x": 0, "y": 0}
    essence_of_owner = {"spec": {"x": 0, "replicas": 3, "strategy": {"type": "RollingUpdate"}}, "metadata": {"labels": {"l": "1"}}}
    essence_same = {"spec": spec, "metadata": {"labels": {"l": "1"}, "annotations": {"deployment.kubernetes.io/revision": "1"}}}
    foreign_name = f"kopf.zalando.org/{RECORD}{'' if marked_names else MARK}"
    foreign_text = json.dumps(rng.choice([essence_of_owner, essence_of_owner, essence_same]), separators=(",", ":")) + "\n"
    refs = None if owners is None else [{"apiVersion": "apps/v1", "kind": k, "name": f"o{n}", "uid": f"ou{n}", "controller": n == 0}
                                        for n, k in enumerate(owners)]

    def body(foreign: bool, with_refs: bool = True) -> dict:
        meta: dict[str, Any] = {"labels": {"l": "1"}, "annotations": {"deployment.kubernetes.io/revision": "1"}}
        if foreign:
            meta["annotations"][foreign_name] = foreign_text
        if with_refs and refs is not None:
            meta["ownerReferences"] = refs
        return {"kind": kind, "spec": dict(spec), "metadata": meta}

    mk_script = lambda: [rng.choice(["ok", "ok", "ok", ["temp", 1.0], ["sleep", 0.5, "ok"]])]   # noqa: E731
    handlers: list[dict] = [{"kind": "create", "id": "c0", "script": mk_script(), "default": "ok"},
                            {"kind": "update", "id": "u0", "script": mk_script(), "default": "ok"}]
    if rng.random() < 0.7:
        handlers.append({"kind": "resume", "id": "r0", "opts": {}, "script": ["ok"], "default": "ok"})
    if rng.random() < 0.4:
        handlers.append({"kind": "delete", "id": "d0", "opts": {"optional": rng.random() < 0.5}, "script": ["ok"], "default": "ok"})
    if rng.random() < 0.2:
        handlers.append({"kind": "field", "id": "f0", "opts": {"field": "spec.x"}, "script": ["ok"], "default": "ok"})
    rng.shuffle(handlers)
    mode = rng.choice(["roll-out", "roll-out", "listed", "listed", "created-while-down", "late-propagation", "adopted", "orphaned"])
    tl: list[list] = []
    objects: list[dict] = []
    t = 1.0
    if mode == "roll-out":
        tl.append([t, "create", "a", body(True)])
    elif mode == "listed":
        objects.append({"name": "a", "body": body(True)})
    elif mode == "created-while-down":
        tl += [[t, rng.choice(["stop", "kill"])], [t + 0.5, "create", "a", body(True)], [t + 1.5, "start"]]
        t += 1.5
    elif mode == "late-propagation":
        tl.append([t, "create", "a", body(False)])
        t += rng.choice([0.25, 1.0, 4.0])
        tl.append([t, "edit", "a", {"metadata": {"annotations": {foreign_name: foreign_text}}}])
    elif mode == "adopted":
        tl.append([t, "create", "a", body(rng.random() < 0.5, with_refs=False)])
        t += rng.choice([0.25, 4.0])
        tl.append([t, "edit", "a", {"metadata": {"ownerReferences": refs or [{"apiVersion": "apps/v1", "kind": "Deployment", "name": "o0", "uid": "ou0"}]}}])
    else:   # orphaned
        tl.append([t, "create", "a", body(True)])
        t += rng.choice([0.25, 4.0])
        tl.append([t, "edit", "a", {"metadata": {"ownerReferences": None}}])
    t += rng.choice([3.0, 5.0])
    tl.append([t, "edit", "a", {"spec": {"x": rng.choice([1, 3])}}])            # scaled: the one real update
    if rng.random() < 0.4:
        t += 2.0
        tl += rng.choice([[[t, "compact"], [t, "break", "410"]], [[t, "break", "eof"]], [[t, "stop"], [t + 1.0, "start"]]])
    if rng.random() < 0.3:
        t += 3.0
        tl.append([t, "delete", "a"])
    sc = {"seed": i, "c05": "owned:" + mode, "lifecycle": rng.choice(["asap", "one_by_one", "all_at_once", None]),
          "handlers": handlers, "timeline": sorted(tl, key=lambda e: e[0]),
          "settings": {"execution.default_backoff": 1.0, "watching.reconnect_backoff": 0.5}, "end": t + 20.0}
    if objects:
        sc["objects"] = objects
    return sc


def gen_sub_delete(rng: Any, i: int) -> dict:
    """A deletion handler with two sub-handlers (the regression of /repo 345a874, repaired by 17e5c42: they were
    never selected, the parent finished at once and the object was released without their work), next to
    creation/update/field/resume handlers with sub-handlers of their own; the object is deleted at various moments."""
    def subs(n: int = 2) -> list[dict]:
        return [{"id": f"s{j}", "script": [rng.choice(["ok", "ok", ["temp", 0.5], ["temp", 1.0], "perm"])], "default": "ok"}
                for j in range(n)]
    handlers = [{"kind": "delete", "id": "d0", "opts": {}, "script": [rng.choice(["ok", "ok", ["temp", 1.0]])], "default": "ok",
                 "sub": subs()}]
    if rng.random() < 0.5:
        handlers.append({"kind": "create", "id": "c0", "script": ["ok"], "default": "ok", "sub": subs(rng.choice([1, 2]))})
    if rng.random() < 0.5:
        handlers.append({"kind": "update", "id": "u0", "script": ["ok"], "default": "ok", "sub": subs(rng.choice([1, 2]))})
    if rng.random() < 0.4:
        handlers.append({"kind": "field", "id": "f0", "opts": {"field": "spec.x"}, "script": ["ok"], "default": "ok", "sub": subs(1)})
    if rng.random() < 0.3:
        handlers.append({"kind": "resume", "id": "r0", "opts": {"deleted": rng.random() < 0.6}, "script": ["ok"], "default": "ok",
                         "sub": subs(1)})
    if rng.random() < 0.3:
        handlers.append({"kind": "delete", "id": "d1", "opts": {}, "script": ["ok"], "default": "ok"})
    for h in handlers:     # how the parent makes its sub-handlers (observe._make_plain): explicit kopf.execute(fns=…), or
        if h.get("sub"):   # the inheriting, implicitly executed @kopf.subhandler / kopf.register
            h["sub_mode"] = rng.choice(["execute", "execute", "decorator", "register", "decorator_execute"])
    rng.shuffle(handlers)
    tl: list[list] = [[1.0, "create", "a", {"spec": {"x": 0, "y": 0}}]]
    t = rng.choice([1.015625, 1.5, 6.0, 6.0, 8.0])
    mode = rng.choice(["plain", "plain", "edit-then-delete", "down", "restart-during-deletion", "edit-during-deletion"])
    if mode == "down":
        tl += [[t, rng.choice(["stop", "kill"])], [t + 0.75, "delete", "a"], [t + 1.5, "start"]]
    elif mode == "restart-during-deletion":
        tl += [[t, "delete", "a"], [t + rng.choice([0.25, 0.75]), rng.choice(["stop", "kill"])], [t + 2.0, "start"]]
    elif mode == "edit-during-deletion":
        tl += [[t, "delete", "a"], [t + rng.choice([0.015625, 0.25, 0.75]), "edit", "a", {"spec": {"x": 2}}]]
    elif mode == "edit-then-delete":
        tl += [[t, "edit", "a", {"spec": {"x": 1}}], [t + rng.choice([0.015625, 0.5, 3.0, 6.0]), "delete", "a"]]
    else:
        tl += [[t, "delete", "a"]]
    return {"seed": i, "c05": "sub-delete", "lifecycle": rng.choice(["asap", "one_by_one", "all_at_once", None]),
            "handlers": handlers, "timeline": tl, "settings": {"execution.default_backoff": 1.0}, "end": t + 30.0}


def own_of(sc: dict) -> str:
    """The framework's finalizer in this scenario: the configured name, or kopf's default."""
    return (sc.get("settings") or {}).get("persistence.finalizer", DEFAULT_OWN)


def _kind_clauses(ctx: Ctx, sc: dict, c: dict, k: str, who: str) -> None:
    own = own_of(sc)
    if k in ("create", "update", "field") and c.get("marked"):
        ctx.oracle_fail(f"{who} was invoked on an object marked for deletion",
                        {"scenario": sc, "call": c}, {"site": "ChangingRegistry.iter_handlers", "shape": f"{k} handler on a marked object"})
    if k == "delete" and not (c.get("marked") and own in (c.get("finalizers") or [])):
        ctx.oracle_fail(f"{who} was invoked while the object was not marked for deletion "
                        f"or not held by the framework's finalizer ({own})",
                        {"scenario": sc, "call": c}, {"site": "ChangingRegistry.iter_handlers", "shape": "delete handler outside a held deletion"})
    if k in ("create", "update", "delete", "resume", "field") and c.get("reason") in ("gone", "free", "noop"):
        ctx.oracle_fail(f"{who} invoked for a {c.get('reason')} event",
                        {"scenario": sc, "call": c}, {"site": "process_changing_cause", "shape": "handler in an informational cause"})
    # handler kinds are exclusive: a handler with a cause kind runs for that cause only; a resume handler never
    # in a creation; a field handler in creations/updates only
    r = c.get("reason")
    if (k in ("create", "update", "delete") and r != k) or (k == "resume" and r == "create") or \
            (k == "field" and r not in ("create", "update")):
        ctx.oracle_fail(f"{who} was invoked in a {r} cause",
                        {"scenario": sc, "call": c}, {"site": "process_changing_cause", "shape": f"{k} handler in a {r} cause"})


def _body_clauses(ctx: Ctx, sc: dict, tr: dict) -> None:
    """The state a change handler is given is the state of the event being processed (the cause is classified
    from that event's object; 'observe_at': body of every handler invocation vs. the object's state): same
    version, same deletion mark, same finalizers."""
    for cyc in tr["cycles"]:
        meta = (cyc.get("body") or {}).get("metadata", {})
        for inv in cyc.get("invoked") or []:
            idx = inv.get("call")
            if idx is None or idx >= len(tr["calls"]):
                continue
            c = tr["calls"][idx]
            same = (c.get("rv") == meta.get("resourceVersion") and bool(c.get("marked")) == bool(meta.get("deletionTimestamp"))
                    and list(c.get("finalizers") or []) == list(meta.get("finalizers") or []))
            ctx.count("closed_loop_handler_body", "the event's" if same else "ANOTHER")
            if not same:
                ctx.oracle_fail(f"handler {c['id']} was given another state of the object (version {c.get('rv')}, "
                                f"marked={bool(c.get('marked'))}) than the event being processed carries (version "
                                f"{meta.get('resourceVersion')}, marked={bool(meta.get('deletionTimestamp'))})",
                                {"scenario": sc, "cycle": cyc["i"], "call": c},
                                {"site": "process_resource_event", "shape": "handler body is not the event's"})


def _record_clauses(ctx: Ctx, sc: dict, tr: dict) -> None:
    """From the statement, over the state each invocation's event carries (default storage): a never-handled object
    (no last-handled record of its own on it, not marked for deletion) gets its creation handlers and neither update
    nor resume handlers; a creation handler never runs on an object that carries a record of its own. And, in the
    histories made for it (`gen_owned`): an object that was there unhandled and stays gets its creation handler."""
    kinds = {h["id"]: h["kind"] for h in sc["handlers"]}
    for cyc in tr["cycles"]:
        body = cyc.get("body") or {}
        meta = body.get("metadata", {})
        has_own = (meta.get("annotations") or {}).get(own_record_name(body)) is not None
        for inv in cyc.get("invoked") or []:
            k = kinds.get(inv.get("id"))
            if k not in ("create", "update", "resume") or meta.get("deletionTimestamp"):
                continue
            ctx.count("closed_loop_record_calls", f"{k}:{'handled before' if has_own else 'never handled'}")
            if (k == "create") == has_own:
                ctx.oracle_fail(f"a{'n' if k == 'update' else ''} {k} handler ({inv['id']}) was invoked for an object that "
                                + ("carries a last-handled record of its own" if has_own else
                                   "was never handled (no last-handled record of its own under "
                                   f"{own_record_name(body)}; other records on it: "
                                   f"{sorted(a for a in (meta.get('annotations') or {}) if RECORD in a) or 'none'})"),
                                {"scenario": sc, "cycle": cyc["i"], "handler": inv["id"]},
                                {"site": "diffbase_storage.fetch", "shape": f"{k} handler for a "
                                 f"{'handled' if has_own else 'never-handled'} object"})
    if not str(sc.get("c05", "")).startswith("owned:") or any(e[1] == "delete" for e in sc["timeline"]):
        return
    create_ids = {h["id"] for h in sc["handlers"] if h["kind"] == "create"}
    for name, versions in tr["history"].items():
        first = (versions[0].get("body") or {}) if versions else {}
        uid = first.get("metadata", {}).get("uid")
        if "kopfexamples" not in name or uid is None or (first.get("metadata", {}).get("annotations") or {}).get(own_record_name(first)) is not None:
            continue
        ran = any(c["id"] in create_ids and c.get("uid") == uid for c in tr["calls"])
        ctx.count("closed_loop_never_handled_object", "creation handler ran" if ran else "NO CREATION HANDLER")
        if not ran:
            ctx.oracle_fail(f"object {name} appeared without a last-handled record of its own and stayed, its creation "
                            "handler never ran", {"scenario": sc, "object": name, "uid": uid},
                            {"site": "diffbase_storage.fetch", "shape": "creation handler never ran for a never-handled object"})


def _call_clauses(ctx: Ctx, sc: dict, tr: dict) -> None:
    """Which handlers ran, from the property text, over the body each invocation was given. A sub-handler is of
    the kind of its parent."""
    kinds = {h["id"]: h for h in sc["handlers"]}
    parent_of = {f"{h['id']}/{s['id']}": h for h in sc["handlers"] for s in h.get("sub", [])}
    for c in tr["calls"]:
        h = kinds.get(c["id"])
        if h is not None:
            k = h["kind"]
            _kind_clauses(ctx, sc, c, k, f"a {k} handler ({c['id']})" if k in ("create", "update", "field", "delete")
                          else f"change handler {c['id']}")
            ctx.count("closed_loop_calls", f"{k}:{'marked' if c.get('marked') else 'unmarked'}")
        elif c["id"] in parent_of:
            k = parent_of[c["id"]]["kind"]
            _kind_clauses(ctx, sc, c, k, f"a sub-handler ({c['id']}) of a {k} handler")
            ctx.count("closed_loop_calls", f"{k}/sub:{'marked' if c.get('marked') else 'unmarked'}")


def _scripted_plainly(h: dict) -> bool:
    """The scripted parent runs its sub-handlers exactly in its `ok` passes (observe._make_plain)."""
    return all(a in ("ok", "perm", "arb", "temp") or (isinstance(a, list) and a and a[0] == "temp")
               for a in list(h.get("script", [])) + [h.get("default", "ok")])


def _sub_clauses(ctx: Ctx, sc: dict, tr: dict) -> None:
    """Sub-handlers run when their parent does: (a) a parent invocation that came back finished (its `kopf.execute`
    returned: no unfinished children) implies that each of its sub-handlers has come to an end (succeeded or failed
    for good) by then, on the same object in the same state of deletion; (b) in the deletion histories generated
    here: the framework's finalizer is not released before every sub-handler of every deletion handler has ended."""
    parents = [h for h in sc["handlers"] if h.get("sub") and h["kind"] in ("create", "update", "delete", "resume", "field")
               and _scripted_plainly(h)]
    final = ("ok", "perm")
    cycle_of_call = {inv["call"]: (cyc, inv) for cyc in tr["cycles"] for inv in (cyc.get("invoked") or []) if inv.get("call") is not None}
    for h in parents:
        implicit = h.get("sub_mode", "execute") != "execute"
        for ci, c in enumerate(tr["calls"]):
            if c["id"] != h["id"] or c.get("outcome") != "ok" or c.get("t_end") is None:
                continue
            t_done = c["t_end"]
            if implicit:
                # the sub-handlers (made by @kopf.subhandler / kopf.register) run when the parent's function has returned:
                # "the parent finished" = kopf recorded a final outcome without an error for it in that cycle
                cyc, inv = cycle_of_call.get(ci, (None, None))
                out = (((cyc or {}).get("pcc") or {}).get("outcomes") or {}).get((inv or {}).get("hid"))
                if not out or not out.get("final") or out.get("error") or cyc.get("t1") is None:
                    continue
                t_done = cyc["t1"]
            for s in h["sub"]:
                sid = f"{h['id']}/{s['id']}"
                done = [x for x in tr["calls"] if x["id"] == sid and x.get("uid") == c.get("uid") and x.get("outcome") in final
                        and x["t"] <= t_done and bool(x.get("marked")) == bool(c.get("marked"))]
                ctx.case(key={"subdone": [h["kind"], bool(c.get("marked")), bool(done), implicit]}, nontrivial=True)
                ctx.count("closed_loop_sub_mode", f"{h['kind']}:{h.get('sub_mode', 'execute')}:{'marked' if c.get('marked') else 'unmarked'}")
                if not done:
                    ctx.oracle_fail(f"the {h['kind']} handler {h['id']} finished at t={t_done}"
                                    f"{' on an object marked for deletion' if c.get('marked') else ''} although its sub-handler "
                                    f"{sid} never ran to an end: sub-handlers are of their parent's kind and run with it",
                                    {"scenario": sc, "call": c, "sub": sid},
                                    {"site": "ChangingRegistry.iter_handlers", "shape": f"sub-handler of a {h['kind']} handler not run"})
    if sc.get("c05") != "sub-delete":
        return
    for name, versions in tr["history"].items():
        held_uids: set = set()
        released: dict = {}
        for v in versions:
            meta = (v.get("body") or {}).get("metadata", {})
            uid = meta.get("uid")
            has_own = own_of(sc) in (meta.get("finalizers") or [])
            if v.get("event") == "DELETED" or (not has_own and meta.get("deletionTimestamp")):
                if uid in held_uids and uid not in released:     # (the DELETED record carries the last stored body)
                    released[uid] = v["t"]
            elif has_own:
                held_uids.add(uid)
        for uid, t_rel in released.items():
            for h in parents:
                if h["kind"] != "delete":
                    continue
                for s in h["sub"]:
                    sid = f"{h['id']}/{s['id']}"
                    done = [x for x in tr["calls"] if x["id"] == sid and x.get("uid") == uid and x.get("outcome") in final
                            and x["t"] <= t_rel]
                    ctx.case(key={"released": [len(h["sub"]), bool(done)]}, nontrivial=True)
                    ctx.count("closed_loop_release", "after all sub-handlers of the deletion handlers" if done else "EARLY")
                    if not done:
                        ctx.oracle_fail(f"the framework's finalizer was released at t={t_rel} before the sub-handler {sid} of "
                                        f"the deletion handler {h['id']} had run to an end",
                                        {"scenario": sc, "object": name, "uid": uid, "released_at": t_rel, "sub": sid},
                                        {"site": "ChangingRegistry.iter_handlers", "shape": "released before the deletion sub-handlers ran"})


def search(ctx: Ctx, broken: list) -> None:
    """The table is enumerated completely by run(); an oracle failure would already be recorded."""
    return


def replay(ctx: Ctx, data: dict) -> None:
    run(ctx)
