"""C05 — each event maps to exactly one cause; handler kinds are mutually exclusive.

Tie: (T) `detect_changing_cause`, the `ChangingRegistry.iter_handlers` gate and HANDLER_REASONS are
re-extracted from the AST on every run and proved equal to the model (Kopf/Tie/C05.lean);
(D, exhaustive) every combination is pushed through the real `_detect_causes` and `get_handlers`.
"""
from __future__ import annotations

import ast
import itertools
import logging
from typing import Any

from .. import leanio, pyextract
from ..core import Ctx, ExtractError

ID = "C05"
LEVEL = "proof"
STRENGTH = "full"
ENGINES = ["lean-model", "pyextract", "purediff", "kopfsim"]
LEVEL_TEXT = ("Lean theorems (all inputs of the decision table, all handler kinds) about a model that is regenerated from the AST and re-proved equal on every run; the real _detect_causes and get_handlers are additionally enumerated exhaustively against the model and an independent oracle.")
TIE = "T (AST → Lean, re-proved equal to the model) + D exhaustive over the decision table"
THEOREMS = [
    ("Kopf.Props.C05", "Kopf.C05.detect_spec"),
    ("Kopf.Props.C05", "Kopf.C05.exactly_one"),
    ("Kopf.Props.C05", "Kopf.C05.no_create_update_on_marked"),
    ("Kopf.Props.C05", "Kopf.C05.delete_only_while_held"),
    ("Kopf.Props.C05", "Kopf.C05.none_for_gone_free_noop"),
    ("Kopf.Props.C05", "Kopf.C05.resume_needs_initial_and_optin"),
    ("Kopf.Props.C05", "Kopf.C05.kinds_exclusive"),
    ("Kopf.Props.C05", "Kopf.C05.no_field_on_marked"),
    ("Kopf.Props.C05", "Kopf.C05.kindless_only_in_handled_causes"),
]
TIE_THEOREMS = [
    ("Kopf.Tie.C05", "Kopf.C05.Tie.detect_eq"),
    ("Kopf.Tie.C05", "Kopf.C05.Tie.create_forces_noninitial"),
    ("Kopf.Tie.C05", "Kopf.C05.Tie.gate_eq"),
    ("Kopf.Tie.C05", "Kopf.C05.Tie.handler_reasons_eq"),
]
RULE = ("exhaustive: 2 event-type classes x marked x own-finalizer x stored-essence x essential-diff x "
        "(noticed_by_listing, fully_handled_once) through the real _detect_causes; every handler kind "
        "(reason x initial x deleted opt-in) x every cause through the real ChangingRegistry.get_handlers; "
        "a case is non-trivial when it is a distinct (input, output) pair")
TRUSTED = ["pyextract atom vocabulary for causes.detect_changing_cause / ChangingRegistry.iter_handlers",
           "the six booleans are read off real bodies by kopf's own finalizers/diffbase code (exercised, not modelled, here)"]
ASSUMPTIONS = ["filters (`match`) are C15's subject and appear here as an opaque boolean",
               "reading of 'creation/update handlers': on.create/on.update handlers AND on.field handlers (no cause kind; "
               "docs/handlers.rst: 'there is no special detection of the causes for the fields, such as create/update/delete, "
               "so the field handler is effective only when the object is updated'): since /repo 345a874 none of them runs on "
               "an object marked for deletion (`no_create_update_on_marked`, `no_field_on_marked`); field handlers still run "
               "in the creation cause when the field is present (the code's reading of 'changed'), which the property allows"]

REASONS = ["create", "update", "delete", "resume", "noop", "free", "gone"]

DETECT_VOCAB = {
    "raw_event['type'] == 'DELETED'": "a.deleted",
    "finalizers.is_deletion_ongoing(body=body)": "a.marked",
    "finalizers.is_deletion_blocked(body=body, finalizer=finalizer)": "a.blocked",
    "old is None": "a.oldAbsent",
    "diff": "a.diffNonEmpty",
    "initial": "a.initial",
}
DETECT_IGNORE = {
    "kwargs |= dict(body=body, old=old, new=new, initial=initial)",
    "if diff is not None:\n    kwargs |= dict(diff=diff)",
}
GATE_VOCAB = {
    "handler.reason is None": "(h.reason == none)",
    "handler.reason == cause.reason": "(h.reason == some c.reason)",
    "handler.initial": "h.initial",
    "cause.initial": "c.initial",
    "cause.deleted": "c.marked",
    "handler.deleted": "h.deletedOptIn",
    "match(handler=handler, cause=cause)": "m",
}


def _reason_of_return(stmts: list[ast.stmt]) -> str | None:
    """`[kwargs['initial'] = False;] return ChangingCause(reason=Reason.X, **kwargs)` → Lean pair."""
    forced = False
    for st in stmts[:-1]:
        if pyextract.norm(st) == "kwargs['initial'] = False":
            forced = True
        else:
            raise ExtractError(f"unexpected statement in a cause branch: `{pyextract.norm(st)[:100]}`")
    st = stmts[-1]
    if not isinstance(st, ast.Return) or not isinstance(st.value, ast.Call):
        return None
    call = st.value
    if pyextract.norm(call.func) != "ChangingCause":
        return None
    kws = {k.arg: k.value for k in call.keywords}
    if set(kws) != {"reason", None} or pyextract.norm(kws[None]) != "kwargs":
        raise ExtractError(f"ChangingCause(...) built with unexpected arguments: `{pyextract.norm(call)}`")
    r = pyextract.norm(kws["reason"])
    if not r.startswith("Reason."):
        raise ExtractError(f"unknown reason expression `{r}`")
    name = r.split(".", 1)[1].lower()
    if name not in REASONS:
        raise ExtractError(f"unknown reason `{r}`")
    return f"(Reason.{name}, {'true' if forced else 'false'})"


def _gate_result(stmts: list[ast.stmt]) -> str | None:
    if len(stmts) != 1:
        return None
    t = pyextract.norm(stmts[0])
    if t == "pass":
        return "false"
    if t == "yield handler":
        return "true"
    return None


def extract(ctx: Ctx) -> None:
    src = ctx.repo / "kopf/_core/intents/causes.py"
    tree = pyextract.parse_file(src)
    fn = pyextract.find_def(tree, "detect_changing_cause")
    tr = pyextract.BoolTranslator(DETECT_VOCAB)
    chain = pyextract.if_chain(pyextract.body_without_docstring(fn), tr, _reason_of_return, DETECT_IGNORE)
    detect_body = pyextract.chain_to_lean(chain)
    # HANDLER_REASONS
    hr = pyextract.module_constant(tree, "HANDLER_REASONS")
    if not isinstance(hr, ast.Tuple):
        raise ExtractError("HANDLER_REASONS is not a tuple literal")
    hrs = []
    for e in hr.elts:
        t = pyextract.norm(e)
        if not t.startswith("Reason.") or t.split(".")[1].lower() not in REASONS:
            raise ExtractError(f"unexpected HANDLER_REASONS member `{t}`")
        hrs.append("Reason." + t.split(".")[1].lower())
    # the gate in ChangingRegistry.iter_handlers
    rtree = pyextract.parse_file(ctx.repo / "kopf/_core/intents/registries.py")
    it = pyextract.find_def(rtree, "ChangingRegistry.iter_handlers")
    body = pyextract.body_without_docstring(it)
    if len(body) != 1 or not isinstance(body[0], ast.For) or pyextract.norm(body[0].iter) != "self._handlers":
        raise ExtractError("ChangingRegistry.iter_handlers is no longer a single loop over self._handlers")
    inner = body[0].body
    if len(inner) != 1 or not isinstance(inner[0], ast.If) or pyextract.norm(inner[0].test) != "handler.id not in excluded" \
            or inner[0].orelse:
        raise ExtractError("iter_handlers: expected the `handler.id not in excluded` guard")
    inner = inner[0].body
    if len(inner) != 1 or not isinstance(inner[0], ast.If) or inner[0].orelse:
        raise ExtractError("iter_handlers: expected one reason guard")
    gtr = pyextract.BoolTranslator(GATE_VOCAB)
    reason_guard = gtr.tr(inner[0].test)
    gchain = pyextract.if_chain(inner[0].body, gtr, _gate_result, ())
    gate_body = pyextract.chain_to_lean(gchain, default="false")
    # the HANDLER_REASONS gate of process_changing_cause
    ptree = pyextract.parse_file(ctx.repo / "kopf/_core/reactor/processing.py")
    pcc = pyextract.find_def(ptree, "process_changing_cause")
    guarded = [st for st in pcc.body if isinstance(st, ast.If)
               and pyextract.norm(st.test) == "cause.reason in causes.HANDLER_REASONS"]
    if len(guarded) != 1:
        raise ExtractError("process_changing_cause: the `cause.reason in causes.HANDLER_REASONS` gate is gone")
    calls_in = sum(1 for n in ast.walk(guarded[0]) if isinstance(n, ast.Call) and pyextract.norm(n.func).endswith("execute_handlers_once"))
    calls_all = sum(1 for n in ast.walk(pcc) if isinstance(n, ast.Call) and pyextract.norm(n.func).endswith("execute_handlers_once"))
    if calls_in != 1 or calls_all != 1:
        raise ExtractError("process_changing_cause: handler execution is no longer exactly inside the HANDLER_REASONS gate")
    out = pyextract.HEADER.format(src="kopf/_core/intents/causes.py, registries.py, reactor/processing.py")
    out += "import Kopf.Model.C05_Cause\nnamespace Kopf.C05.Extracted\nopen Kopf.C05\n\n"
    out += "/-- (reason, `kwargs['initial']` forced to False in that branch) -/\n"
    out += f"def detect (a : In) : Reason × Bool :=\n    {detect_body}\n\n"
    out += f"def handlerReasons : List Reason := [{', '.join(hrs)}]\n\n"
    out += f"def gate (h : Handler) (c : Cause) (m : Bool) : Bool :=\n  {reason_guard} &&\n    ({gate_body})\n\n"
    out += "end Kopf.C05.Extracted\n"
    leanio.write_generated("Kopf/Extracted/C05.lean", out)


# ---------------------------------------------------------------------------------------------
def oracle_reason(deleted, marked, blocked, old_absent, diff, initial) -> str:
    """The property's precedence list, read from the statement (not from the model)."""
    if deleted:
        return "gone"          # really gone
    if marked and not blocked:
        return "free"          # released
    if marked:
        return "delete"
    if old_absent:
        return "create"        # never handled before
    if initial and not diff:
        return "resume"        # first sight after start, nothing changed
    if not diff:
        return "noop"
    return "update"


def _kopf_env():
    import kopf
    from kopf._cogs.configs import configuration
    from kopf._cogs.structs import bodies, patches, references
    from kopf._core.engines import indexing
    from kopf._core.intents import causes, handlers, registries
    from kopf._core.reactor import inventory, processing
    return locals()


def make_body(settings, marked: bool, blocked: bool, old_absent: bool, diff: bool, variant: int) -> dict:
    fin = settings.persistence.finalizer
    body: dict[str, Any] = {"apiVersion": "kopf.dev/v1", "kind": "KopfExample",
                            "metadata": {"name": "obj", "namespace": "ns", "uid": "u1", "resourceVersion": "5"},
                            "spec": {"field": "new" if diff else "same", "n": variant}}
    if variant == 4:
        # an object whose whole essence is empty: its last-handled state is stored as `{}` (present but falsy)
        body = {"apiVersion": "kopf.dev/v1", "kind": "KopfExample",
                "metadata": {"name": "obj", "namespace": "ns", "uid": "u1", "resourceVersion": "5"}}
        if diff:
            body["spec"] = {"field": "new"}
    fins = (["other.io/a"] if variant & 1 else []) + ([fin] if blocked else []) + (["other.io/b"] if variant & 2 else [])
    if fins:
        body["metadata"]["finalizers"] = fins
    if marked:
        body["metadata"]["deletionTimestamp"] = "2020-01-01T00:00:00Z"
    if not old_absent:
        import json
        essence = {"spec": {"field": "same", "n": variant}} if variant != 4 else {}
        body["metadata"].setdefault("annotations", {})["kopf.zalando.org/last-handled-configuration"] = json.dumps(essence) + "\n"
    return body


def run(ctx: Ctx) -> None:
    import asyncio
    asyncio.run(_run(ctx))
    closed_loop(ctx)


async def _run(ctx: Ctx) -> None:
    env = _kopf_env()
    causes, registries, handlers = env["causes"], env["registries"], env["handlers"]
    processing, inventory, indexing = env["processing"], env["inventory"], env["indexing"]
    configuration, bodies, patches, references = env["configuration"], env["bodies"], env["patches"], env["references"]
    settings = configuration.OperatorSettings()
    resource = references.Resource("kopf.dev", "v1", "kopfexamples", namespaced=True)
    logger = logging.getLogger("verif.c05")
    logger.setLevel(logging.CRITICAL)

    def fn(**_: Any) -> None:
        pass

    def mk_handler(reason, initial, deleted, hid="h"):
        return handlers.ChangingHandler(
            fn=fn, id=hid, param=None, errors=None, timeout=None, retries=None, backoff=None,
            selector=references.Selector("kopfexamples"), labels=None, annotations=None, when=None,
            field=None, value=None, old=None, new=None, field_needs_change=None,
            initial=initial, deleted=deleted, requires_finalizer=None, reason=reason)

    registry = registries.OperatorRegistry()
    registry._changing.append(mk_handler(None, None, None))
    indexers = indexing.OperatorIndexers()

    # ---- part 1: the decision table through the real _detect_causes --------------------------
    requests, impl_out, inputs = [], [], []
    for ev_type, marked, blocked, old_absent, diff, noticed, handled_once, variant in itertools.product(
            ["DELETED", "MODIFIED", "ADDED", None], [False, True], [False, True], [False, True], [False, True],
            [False, True], [False, True], [0, 3, 4]):
        body = make_body(settings, marked, blocked, old_absent, diff, variant)
        raw_event = {"type": ev_type, "object": body}
        memory = inventory.ResourceMemory(noticed_by_listing=noticed)
        memory.fully_handled_once = handled_once
        patch = patches.Patch()
        cs = processing._detect_causes(indexers=indexers, registry=registry, settings=settings, resource=resource,
                                       raw_event=raw_event, body=bodies.Body(body), patch=patch, memory=memory,
                                       local_logger=logger, event_logger=logger)
        cause = cs.changing_cause
        deleted = ev_type == "DELETED"
        initial = noticed and not handled_once
        six = [deleted, marked, blocked, old_absent, (diff and not old_absent), initial]
        # NB: with no stored essence, kopf diffs None against the new essence: the diff is non-empty;
        # the decision does not read it in that case (old is None decides first).
        six_real = [deleted, marked, blocked, old_absent, bool(cause.diff), initial]
        got = {"reason": cause.reason.value, "initial": bool(cause.initial)}
        want = oracle_reason(*six_real)
        key = {"in": six_real, "out": got}
        ctx.case(key=key, nontrivial=True, sample={"event_type": ev_type, "six": six_real, "impl": got} if variant == 0 and noticed else None)
        ctx.count("reason", got["reason"])
        if got["reason"] != want:
            ctx.oracle_fail(f"event classified as {got['reason']}, the property's precedence gives {want}",
                            {"six": six_real, "event_type": ev_type, "body": body, "impl": got},
                            {"site": "detect_changing_cause", "want": want, "got": got["reason"]})
        if got["reason"] == "create" and got["initial"]:
            ctx.oracle_fail("creation cause carries initial=True (resume handlers would mix into creation)",
                            {"six": six_real, "event_type": ev_type, "body": body}, {"site": "detect_changing_cause", "shape": "create+initial"})
        if bool(cause.deleted) != marked:
            ctx.oracle_fail("cause.deleted disagrees with the deletion mark", {"body": body}, {"site": "ChangingCause.deleted"})
        requests.append(["C05.detect", six_real])
        impl_out.append(got)
        inputs.append({"event_type": ev_type, "six": six_real})

    # ---- part 2: the handler gate through the real registry ----------------------------------
    greqs, gimpl, ginp = [], [], []
    kinds = [(r, i, d) for r in [None, "create", "update", "delete", "resume"]
             for i in [None, False, True] for d in [None, False, True]]
    for (hr, hi, hd) in kinds:
        reg = registries.OperatorRegistry()
        h = mk_handler(causes.Reason(hr) if hr else None, hi, hd)
        reg._changing.append(h)
        for reason, cinit, marked in itertools.product(REASONS, [False, True], [False, True]):
            body = make_body(settings, marked, True, False, False, 0)
            cause = causes.ChangingCause(
                resource=resource, indices=indexers.indices, logger=logger, patch=patches.Patch(), body=bodies.Body(body),
                memo=None, initial=cinit, reason=causes.Reason(reason))
            selected = len(reg._changing.get_handlers(cause=cause)) == 1
            hj = {"reason": hr, "initial": bool(hi), "deleted": bool(hd)}
            cj = {"reason": reason, "initial": cinit, "marked": marked}
            ctx.case(key={"h": hj, "c": cj, "sel": selected}, nontrivial=True)
            ctx.count("gate", selected)
            # oracle, from the statement: handlers bound to a cause kind run only for that kind;
            # resume handlers only on first sight, and on deleting objects only when opted in.
            if selected and hr is not None and hr != reason:
                ctx.oracle_fail(f"a {hr} handler was selected for a {reason} cause", {"handler": hj, "cause": cj},
                                {"site": "ChangingRegistry.iter_handlers", "shape": "kind-mismatch"})
            if selected and hr is None and not hi and marked:
                ctx.oracle_fail("a field handler (no cause kind, not resuming) was selected on an object marked for deletion",
                                {"handler": hj, "cause": cj}, {"site": "ChangingRegistry.iter_handlers", "shape": "field-on-marked"})
            if selected and hi and (not cinit or (marked and not hd)):
                ctx.oracle_fail("a resume handler was selected without first sight / on a deleting object without opt-in",
                                {"handler": hj, "cause": cj}, {"site": "ChangingRegistry.iter_handlers", "shape": "resume-gate"})
            greqs.append(["C05.gate", hj, cj])
            gimpl.append(selected)
            ginp.append({"handler": hj, "cause": cj})

    # ---- the tie: same inputs through the Lean model ------------------------------------------
    try:
        outs = ctx.driver.ask(requests + greqs)
    except leanio.LeanError as e:
        ctx.tie_fail(f"Lean driver failed: {e}", {"log": e.log})
        return
    for inp, impl, out in zip(inputs + ginp, impl_out + gimpl, outs):
        model = out[1] if out and out[0] == "ok" else out
        ctx.compare("C05 decision", impl, model, inp)
    ctx.exhaustive = True
    ctx.traces = len(requests) + len(greqs)


def _essence(body: dict) -> dict:
    """Independent reading of the essence for default settings: everything but status, system metadata and
    kopf's own annotations (used only to tell "essential difference" in closed-loop histories)."""
    out = {k: v for k, v in body.items() if k not in ("status", "metadata", "apiVersion", "kind")}
    meta = body.get("metadata", {})
    m = {}
    if meta.get("labels"):
        m["labels"] = meta["labels"]
    ann = {k: v for k, v in (meta.get("annotations") or {}).items()
           if not k.startswith("kopf.zalando.org/") and k != "kubectl.kubernetes.io/last-applied-configuration"}
    if ann:
        m["annotations"] = ann
    if m:
        out["metadata"] = m
    return out


def closed_loop(ctx: Ctx) -> None:
    """Every cycle of whole-operator histories: the cause kopf computed vs. the property's precedence list
    evaluated on independently observed facts (event type, deletion mark, own finalizer, stored last-handled
    state, essential difference, first sight = seen in the start-up listing and no handling cycle ended yet
    for this object in this process)."""
    import json as _json
    from ..sim import pool
    from . import c02, c14
    n = ctx.budget(60, 1500)
    scenarios = [c14.gen_scenario(ctx.rng, 31_000_000 + ctx.seed * 100000 + i) for i in range(n)]
    scenarios += [c02.gen_supersede(ctx.rng, 32_000_000 + ctx.seed * 100000 + i) for i in range(n // 2)]
    scenarios += [gen_field_delete(ctx.rng, 33_000_000 + ctx.seed * 100000 + i) for i in range(max(12, n // 3))]
    scenarios += [d.get("scenario", d) for _, d in __import__("harness.core", fromlist=["load_corpus"]).load_corpus("C05")]
    for sc, res in zip(scenarios, pool.run_many(scenarios, wall=40.0)):
        if "trace" not in res or res["trace"].get("sim_error"):
            raise RuntimeError(f"simulation failed: {str(res)[:1500]}")
        tr = res["trace"]
        ctx.traces += 1
        _call_clauses(ctx, sc, tr)
        first_by_listing: dict[tuple, bool] = {}
        ended: set[tuple] = set()
        for cyc in tr["cycles"]:
            key = (cyc["inc"], cyc["uid"])
            first_by_listing.setdefault(key, cyc["event_type"] is None)
            cause = cyc.get("cause")
            if cause is None or cyc.get("error"):
                continue
            meta = cyc["body"].get("metadata", {})
            marked = bool(meta.get("deletionTimestamp"))
            blocked = "kopf.zalando.org/KopfFinalizerMarker" in (meta.get("finalizers") or [])
            raw = (meta.get("annotations") or {}).get("kopf.zalando.org/last-handled-configuration")
            old_absent = raw is None
            try:
                diff = (not old_absent) and _json.loads(raw) != _essence(cyc["body"])
            except ValueError:
                continue
            initial = first_by_listing[key] and key not in ended
            want = oracle_reason(cyc["event_type"] == "DELETED", marked, blocked, old_absent, diff, initial)
            got = cause["reason"]
            ctx.case(key={"loop": [cyc["event_type"] is None, marked, blocked, old_absent, diff, initial, got]}, nontrivial=True)
            ctx.count("closed_loop_reason", got)
            if got != want:
                ctx.oracle_fail(f"closed loop: event classified as {got}, the property's precedence gives {want} "
                                f"(first sight={initial}, essential difference={diff})",
                                {"scenario": sc, "cycle": cyc["i"]},
                                {"site": "processing._detect_causes", "shape": "closed-loop cause", "want": want, "got": got})
            if cause["initial"] and not initial and got != "create":
                ctx.oracle_fail("closed loop: the cause carries first-sight although the object was seen and a handling cycle "
                                "has ended for it in this process (resume handlers would be mixed in)",
                                {"scenario": sc, "cycle": cyc["i"]},
                                {"site": "processing._detect_causes", "shape": "stale first-sight flag"})
            p = cyc.get("pcc")
            if p and p["reason"] in REASONS[:4] and "P_after" in p and p.get("outcomes") is not None or (p and not p["selected"] and p["reason"] in REASONS[:4]):
                fin = all(bool((p["P"].get(h) and (p["P"][h]["success"] or p["P"][h]["failure"])) or
                               ((p.get("outcomes") or {}).get(h) or {}).get("final")) for h in p["selected"])
                if fin:
                    ended.add(key)


def gen_field_delete(rng: Any, i: int) -> dict:
    """Field handlers next to create/update/delete handlers; a field is changed shortly before (or while the
    operator is down, or together with) the deletion request, so that the deletion cause carries a changed field."""
    handlers = [{"kind": "field", "id": "f0", "opts": {"field": "spec.x"}, "script": [rng.choice(["ok", ["temp", 1.0]])], "default": "ok"},
                {"kind": "delete", "id": "d0", "opts": {"optional": rng.random() < 0.3},
                 "script": [rng.choice(["ok", ["temp", 1.0], ["sleep", 0.5, "ok"]])], "default": "ok"}]
    if rng.random() < 0.6:
        handlers.append({"kind": "update", "id": "u0", "script": [rng.choice(["ok", ["temp", 2.0]])], "default": "ok"})
    if rng.random() < 0.6:
        handlers.append({"kind": "create", "id": "c0", "script": ["ok"], "default": "ok"})
    if rng.random() < 0.3:
        handlers.append({"kind": "resume", "id": "r0", "opts": {"deleted": rng.random() < 0.5}, "script": ["ok"], "default": "ok"})
    rng.shuffle(handlers)
    tl: list[list] = [[1.0, "create", "a", {"spec": {"x": 0, "y": 0}, "metadata": {"labels": {"l": "1"}}}]]
    t = 4.0
    mode = rng.choice(["edit-then-delete", "down", "same-instant", "edit-during-deletion"])
    if mode == "down":
        tl += [[t, rng.choice(["stop", "kill"])], [t + 0.5, "edit", "a", {"spec": {"x": 1}}], [t + 0.75, "delete", "a"], [t + 1.5, "start"]]
    elif mode == "same-instant":
        tl += [[t, "edit", "a", {"spec": {"x": 1}}], [t, "delete", "a"]]
    elif mode == "edit-during-deletion":
        tl += [[t, "delete", "a"], [t + rng.choice([0.015625, 0.25, 0.75]), "edit", "a", {"spec": {"x": 2}}]]
    else:
        tl += [[t, "edit", "a", {"spec": {"x": 1}}], [t + rng.choice([0.015625, 0.125, 0.5, 2.0]), "delete", "a"]]
    return {"seed": i, "lifecycle": rng.choice(["asap", "one_by_one", "all_at_once"]), "handlers": handlers, "timeline": tl,
            "settings": {"execution.default_backoff": 1.0}, "end": t + 25.0}


def _call_clauses(ctx: Ctx, sc: dict, tr: dict) -> None:
    """Which handlers ran, from the property text, over the body each invocation was given."""
    own = "kopf.zalando.org/KopfFinalizerMarker"
    kinds = {h["id"]: h for h in sc["handlers"]}
    for c in tr["calls"]:
        h = kinds.get(c["id"])
        if h is None:
            continue
        k = h["kind"]
        if k in ("create", "update", "field") and c.get("marked"):
            ctx.oracle_fail(f"a {k} handler ({c['id']}) was invoked on an object marked for deletion",
                            {"scenario": sc, "call": c}, {"site": "ChangingRegistry.iter_handlers", "shape": f"{k} handler on a marked object"})
        if k == "delete" and not (c.get("marked") and own in (c.get("finalizers") or [])):
            ctx.oracle_fail(f"a deletion handler ({c['id']}) was invoked while the object was not marked for deletion "
                            "or not held by the framework's finalizer",
                            {"scenario": sc, "call": c}, {"site": "ChangingRegistry.iter_handlers", "shape": "delete handler outside a held deletion"})
        if k in ("create", "update", "delete", "resume", "field") and c.get("reason") in ("gone", "free", "noop"):
            ctx.oracle_fail(f"change handler {c['id']} invoked for a {c.get('reason')} event",
                            {"scenario": sc, "call": c}, {"site": "process_changing_cause", "shape": "handler in an informational cause"})
        ctx.count("closed_loop_calls", f"{k}:{'marked' if c.get('marked') else 'unmarked'}")


def search(ctx: Ctx, broken: list) -> None:
    """The table is enumerated completely by run(); an oracle failure would already be recorded."""
    return


def replay(ctx: Ctx, data: dict) -> None:
    run(ctx)
