"""Whole-operator lifecycle simulation for C20: the REAL `kopf.operator()` on the virtual-time loop against
the fake API, with attribute-level instrumentation of the root-task choreography (no source hooks).

`run_history(sc)` → observation dict with one GLOBAL ORDER LOG (`log`: [t, kind, *args], in the order the
atomic code segments ran; t = virtual seconds) plus the request log and the handler call log.

Run as a subprocess worker:  python -m harness.props.sim_c20 <wall>   (one JSON history per stdin line).
"""
from __future__ import annotations

import asyncio
import contextlib
import copy
import json
import sys
from typing import Any, Iterator

ROOT_NAMES = {
    "stop-flag checker": "stopFlag",
    "ultimate termination": "ultimate",
    "startup/cleanup activities": "startupCleanup",
    "core tasks watcher": "coreWatcher",          # exists only in a tree with the repair of C20-F6
    "daemon killer": "daemonKiller",
    "poster of events": "poster",
    "admission insights chain": "admChain",
    "admission validating configuration manager": "admValidating",
    "admission mutating configuration manager": "admMutating",
    "admission webhook server": "admServer",
    "resource observer": "resObserver",
    "namespace observer": "nsObserver",
    "multidimensional multitasker": "orchestrator",
    "credentials retriever": "core",
}


class Poison(Exception):
    """Raised by the poisoned processor / memo: an error no handler-level machinery may swallow."""


def _how(task: asyncio.Task) -> tuple[str, str | None]:
    if task.cancelled():
        return "cancelled", None
    e = task.exception()
    if e is not None:
        return "failed", type(e).__name__
    return "done", None


class Rec:
    def __init__(self, now: Any):
        self.now = now
        self.log: list[list] = []
        self.subs: dict[str, int] = {}
        self.workers = 0
        self.worker_by_task: dict[str, int] = {}
        self.sub_of_task: dict[int, int] = {}
        self.n_subs = 0                 # ensemble tasks spawned so far (NOT len(sub_of_task): CPython re-uses the id() of a freed task)
        self.sub_refs: list = []        # the spawned tasks are kept alive for the run, so that ids stay unique too

    def ref(self, name: str | None = None) -> Any:
        """(actor kind, reference) of the current task: root name | ensemble index | worker id."""
        name = (name if name is not None else self.task_name()).rstrip(">")
        kind = classify_actor(name)
        if kind in ("watcher", "peerWatcher", "pinger"):
            return kind, self.subs.get(name)
        if kind == "worker":
            return kind, self.worker_by_task.get(name)
        return kind, None

    def add(self, kind: str, *args: Any) -> None:
        self.log.append([self.now(), kind, *args])

    def task_name(self) -> str:
        t = asyncio.current_task()
        return t.get_name() if t is not None else "?"


class _Proxy:
    """A module look-alike: attribute reads fall through to the real module at call time."""

    def __init__(self, real: Any, **over: Any):
        self.__dict__["_real"] = real
        self.__dict__["_over"] = over

    def __getattr__(self, name: str) -> Any:
        over = self.__dict__["_over"]
        if name in over:
            return over[name]
        return getattr(self.__dict__["_real"], name)


def classify_actor(name: str) -> str:
    name = name.rstrip(">")
    if name in ROOT_NAMES:
        return ROOT_NAMES[name]
    if name.startswith("watcher for"):
        return "watcher"
    if name.startswith("peering observer"):
        return "peerWatcher"
    if name.startswith("peering keep-alive"):
        return "pinger"
    if name.startswith("worker for"):
        return "worker"
    if name.startswith("operator-"):
        return "operator"
    if name.startswith("runner of"):
        return "daemon"
    if name.startswith("exiting stopper of") or name.startswith("pausing stopper of"):
        return "stopper"
    return "other:" + name[:40]


@contextlib.contextmanager
def instrument(rec: Rec, poison: dict) -> Iterator[None]:
    from kopf._cogs.aiokits import aiobindings, aiotasks
    from kopf._core.engines import activities, admission, daemons, posting
    from kopf._core.intents import causes
    from kopf._core.reactor import observation, orchestration, processing, queueing, running

    saved: list[tuple[Any, str, Any]] = []

    def patch(obj: Any, attr: str, new: Any) -> None:
        saved.append((obj, attr, getattr(obj, attr)))
        setattr(obj, attr, new)

    # ---- run_tasks / startup_cleanup_activities: the aiotasks calls they make -------------------------
    async def r_wait(tasks: Any, *, timeout: Any = None, return_when: Any = asyncio.ALL_COMPLETED) -> Any:
        if rec.task_name() == "core tasks watcher":     # not a call of run_tasks / startup_cleanup_activities
            return await aiotasks.wait(tasks, timeout=timeout, return_when=return_when)
        if return_when == asyncio.FIRST_COMPLETED:
            try:
                done, pending = await aiotasks.wait(tasks, timeout=timeout, return_when=return_when)
            except asyncio.CancelledError:
                rec.add("rtCancelled")
                raise
            rec.add("rtWaitDone", sorted(ROOT_NAMES.get(t.get_name(), t.get_name()) for t in done))
            return done, pending
        if timeout is not None:
            rec.add("rtHungWaitBegin", len(tasks), sorted(classify_actor(t.get_name()) for t in tasks))
            _watch_hung(tasks)
            try:
                done, pending = await aiotasks.wait(tasks, timeout=timeout, return_when=return_when)
            except asyncio.CancelledError:
                rec.add("rtHungWaitCancelled")
                raise
            rec.add("rtHungWaitEnd", len(pending))
            return done, pending
        # startup_cleanup_activities: wait for the other root tasks
        rec.add("scWaitRootsBegin")
        try:
            out = await aiotasks.wait(tasks, timeout=timeout, return_when=return_when)
        except asyncio.CancelledError:
            rec.add("scWaitRootsCancelled")
            raise
        rec.add("scWaitRootsEnd")
        return out

    watched: set[int] = set()

    def _watch_hung(tasks: Any) -> None:
        for t in tasks:
            if id(t) in watched:
                continue
            watched.add(id(t))
            kind = classify_actor(t.get_name())
            rec.add("hungTask", kind, id(t))
            t.add_done_callback(lambda _t, kind=kind: rec.add("hungEnd", kind, id(_t), *_how(_t)))

    async def r_stop(tasks: Any, *, title: str, **kw: Any) -> Any:
        tag = {"Root": "rtStopRoots", "Hung": "rtStopHung", "Core": "scStopCore"}.get(title, "stop:" + title)
        if title == "Hung":
            _watch_hung(tasks)
        if title == "Root":
            # (`spawn_tasks` itself stops its tasks when it is cancelled in its final `sleep(0)`, since /repo d6da86b: it never
            #  returns them, so this is the only place to see them)
            _watch_roots(tasks)
        rec.add(tag + "Begin", len(tasks), bool(kw.get("cancelled")))
        try:
            out = await aiotasks.stop(tasks, title=title, **kw)
        except asyncio.CancelledError:
            rec.add(tag + "Cancelled")
            raise
        rec.add(tag + "End")
        return out

    async def r_reraise(tasks: Any) -> None:
        if rec.task_name() == "core tasks watcher":
            return await aiotasks.reraise(tasks)
        try:
            await aiotasks.reraise(tasks)
        except asyncio.CancelledError:
            raise
        except BaseException as e:  # noqa: BLE001
            rec.add("scReraiseCore" if rec.task_name() == "startup/cleanup activities" else "rtReraise", type(e).__name__)
            raise
        rec.add("scReraiseCore" if rec.task_name() == "startup/cleanup activities" else "rtReraise", None)

    patch(running, "aiotasks", _Proxy(aiotasks, wait=r_wait, stop=r_stop, reraise=r_reraise))

    async def r_run_activity(**kw: Any) -> Any:
        act = kw["activity"]
        tag = "scStartup" if act == causes.Activity.STARTUP else "scCleanup"
        rec.add(tag + "Begin")
        try:
            out = await activities.run_activity(**kw)
        except asyncio.CancelledError:
            rec.add(tag + "End", "cancelled")
            raise
        except BaseException as e:  # noqa: BLE001
            rec.add(tag + "End", "failed", type(e).__name__)
            raise
        rec.add(tag + "End", "ok")
        return out

    patch(running, "activities", _Proxy(activities, run_activity=r_run_activity))

    # (the ready flag is observed ON THE FLAG ITSELF — `run_history` wraps the `set` of the flag it hands to operator() —, not at
    #  the call of `aioadapters.raise_flag`: whoever raises it, by whatever means, is seen)

    holder: dict[str, Any] = {}
    orig_sca = running.startup_cleanup_activities

    def r_sca(**kw: Any) -> Any:
        holder["core_tasks"] = kw["core_tasks"]
        flag = kw["started_flag"]
        orig_set = flag.set

        def set_() -> None:
            orig_set()
            rec.add("setStarted")
        flag.set = set_  # type: ignore[method-assign]
        vault = kw["vault"]
        orig_close = vault.close

        async def close() -> None:
            try:
                await orig_close()
            except asyncio.CancelledError:
                rec.add("vaultCloseCancelled")
                raise
            rec.add("vaultClosed")
        vault.close = close  # type: ignore[method-assign]
        return orig_sca(**kw)

    patch(running, "startup_cleanup_activities", r_sca)

    orig_spawn = running.spawn_tasks

    roots_watched: set[int] = set()

    def _watch_roots(tasks: Any) -> None:
        def cb(t: asyncio.Task) -> None:
            how, exc = _how(t)
            rec.add("rootEnd", ROOT_NAMES.get(t.get_name(), t.get_name()), how, exc)
        for t in list(tasks) + list(holder.get("core_tasks", [])):
            if id(t) not in roots_watched:
                roots_watched.add(id(t))
                t.add_done_callback(cb)

    async def r_spawn_tasks(**kw: Any) -> Any:
        rec.add("spawn")
        try:
            tasks = await orig_spawn(**kw)
        except asyncio.CancelledError:
            rec.add("spawnCancelled")       # operator() was cancelled inside spawn_tasks (its final `sleep(0)`)
            raise
        _watch_roots(tasks)
        rec.add("spawned", sorted(ROOT_NAMES.get(t.get_name(), t.get_name()) for t in tasks))
        return tasks

    patch(running, "spawn_tasks", r_spawn_tasks)

    # ---- "enter": a guarded task got past its started_flag guard ----------------------------------------
    def entering(mod: Any, attr: str, label: str | None = None) -> None:
        orig = getattr(mod, attr)

        def wrapped(*a: Any, **kw: Any) -> Any:
            async def run() -> Any:
                rec.add("enter", label or ROOT_NAMES.get(rec.task_name(), rec.task_name()))
                return await orig(*a, **kw)
            return run()
        patch(mod, attr, wrapped)

    # the daemon killer's `finally:` begins (its first act: it looks for the running daemons) — also when there is none
    orig_killer = daemons.daemon_killer

    def d_killer(**kw: Any) -> Any:
        mem, paused = kw["memories"], kw["operator_paused"]

        class _Mem:
            def __getattr__(self, n: str) -> Any:
                return getattr(mem, n)

            def iter_all_daemon_memories(self) -> Any:
                if not paused.is_on():
                    rec.add("killerFinally", sum(len(m.running_daemons) for m in mem.iter_all_daemon_memories()))
                return mem.iter_all_daemon_memories()
        return orig_killer(**{**kw, "memories": _Mem()})
    patch(daemons, "daemon_killer", d_killer)
    entering(daemons, "daemon_killer")
    entering(activities, "authenticator")
    entering(posting, "poster")
    entering(observation, "resource_observer")
    entering(observation, "namespace_observer")
    entering(orchestration, "orchestrator")
    entering(admission, "validating_configuration_manager")
    entering(admission, "mutating_configuration_manager")
    entering(admission, "admission_webhook_server")
    entering(aiobindings, "condition_chain")

    # ---- the orchestrator's ensemble tasks ---------------------------------------------------------------
    def o_create_guarded_task(coro: Any, name: str, **kw: Any) -> Any:
        t = aiotasks.create_guarded_task(coro=coro, name=name, **kw)
        idx = rec.n_subs
        rec.n_subs += 1
        rec.sub_refs.append(t)
        rec.subs[name] = idx            # a task spawned anew for the same key has the same name: the latest one counts
        rec.sub_of_task[id(t)] = idx
        kind = classify_actor(name)
        rec.add("subSpawn", idx, kind, name)

        def cb(t: asyncio.Task) -> None:
            how, exc = _how(t)
            rec.add("subEnd", idx, kind, how, exc)
        t.add_done_callback(cb)
        return t

    async def o_stop(tasks: Any, *, title: str, **kw: Any) -> Any:
        redundant = bool(kw.get("quiet"))
        # (the title tells the two exit stops of `stop_in_order` apart, since /repo 26a293c: "streaming", then "pinging")
        rec.add("orchStopSubsBegin", len(tasks), redundant, sorted(i for i in (rec.sub_of_task.get(id(t)) for t in tasks) if i is not None),
                str(title))
        try:
            out = await aiotasks.stop(tasks, title=title, **kw)
        except asyncio.CancelledError:
            rec.add("orchStopSubsCancelled")
            raise
        rec.add("orchStopSubsEnd")
        return out

    patch(orchestration, "aiotasks", _Proxy(aiotasks, create_guarded_task=o_create_guarded_task, stop=o_stop))

    # ---- workers (owner = the watcher task that created the coroutine) -----------------------------------
    orig_worker = queueing.worker

    def q_worker(**kw: Any) -> Any:
        owner = rec.task_name()
        rec.workers += 1
        wid = rec.workers

        async def run() -> Any:
            rec.worker_by_task[rec.task_name()] = wid
            rec.add("workerStart", wid, classify_actor(owner), rec.subs.get(owner))
            try:
                out = await orig_worker(**kw)
            except asyncio.CancelledError:
                rec.add("workerEnd", wid, "cancelled", None)
                raise
            except BaseException as e:  # noqa: BLE001
                rec.add("workerEnd", wid, "failed", type(e).__name__)
                raise
            rec.add("workerEnd", wid, "done", None)
            return out
        return run()

    patch(queueing, "worker", q_worker)

    # ---- the watcher's `finally:` begins (depletion of its workers, then scheduler.close()) ---------------
    orig_depl = queueing._wait_for_depletion

    def q_wait_for_depletion(**kw: Any) -> Any:
        kind, ref = rec.ref()
        # called inside the watcher's `finally:` — the exception in flight says WHY the watcher is ending: None (the stream
        # is over), CancelledError, the stream's own error, APINotFoundError, or the RuntimeError of a failed worker
        exc = sys.exc_info()[1]
        rec.add("depletionBegin", kind, ref, type(exc).__name__ if exc is not None else None)
        return orig_depl(**kw)

    patch(queueing, "_wait_for_depletion", q_wait_for_depletion)

    # ---- the poisoned processor: one event makes `process_resource_event` raise outside the throttler ----
    orig_pre = processing.process_resource_event

    async def p_process_resource_event(**kw: Any) -> Any:
        body = kw["raw_event"]["object"]
        if poison.get("spec_x") is not None and (body.get("spec") or {}).get("x") == poison["spec_x"] \
                and not poison.get("fired"):
            poison["fired"] = True
            rec.add("poisoned", body.get("metadata", {}).get("name"))
            raise Poison("poisoned event")
        return await orig_pre(**kw)

    patch(processing, "process_resource_event", p_process_resource_event)

    # ---- the poisoned orchestrator: its next adjustment of the ensemble raises (a failure of the orchestrator's OWN loop: like
    #      the poisoned event, an error no machinery of kopf is meant to swallow) ------------------------------------------
    orig_adjust = orchestration.adjust_tasks

    async def o_adjust_tasks(**kw: Any) -> Any:
        if poison.get("adjust") and not poison.get("adjust_fired"):
            poison["adjust_fired"] = True
            rec.add("poisoned", "orchestrator")
            raise Poison("poisoned adjustment of the ensemble")
        return await orig_adjust(**kw)

    patch(orchestration, "adjust_tasks", o_adjust_tasks)

    # ---- the keep-alive task's withdrawal: `touch(lifetime=0)` in its `finally:` — the ATTEMPT and its outcome, also when
    #      no request ever leaves (no credentials: LoginError before the request) ------------------------------------------
    from kopf._core.engines import peering as _peering
    orig_touch = _peering.touch

    def p_touch(**kw: Any) -> Any:
        if kw.get("lifetime") != 0:
            return orig_touch(**kw)
        kind, ref = rec.ref()          # called synchronously in the keep-alive task (the coroutine itself runs shielded)

        async def run() -> Any:
            rec.add("withdrawBegin", kind, ref)
            try:
                out = await orig_touch(**kw)
            except asyncio.CancelledError:
                rec.add("withdrawEnd", kind, ref, "CancelledError")
                raise
            except BaseException as e:  # noqa: BLE001
                rec.add("withdrawEnd", kind, ref, type(e).__name__)
                raise
            rec.add("withdrawEnd", kind, ref, None)
            return out
        return run()

    patch(_peering, "touch", p_touch)

    # ---- the life of a daemon TASK: created by `spawn_daemons` (registered in `running_daemons` at that moment: what the daemon
    #      killer's sweep sees), over when its `_runner` is over -----------------------------------------------------------
    orig_runner = daemons._runner

    def d_runner(**kw: Any) -> Any:
        hid = str(kw["handler"].id)
        body = getattr(kw["cause"], "body", None) or {}
        name = (body.get("metadata") or {}).get("name")
        rec.add("daemonCreated", hid, name)

        async def run() -> Any:
            try:
                return await orig_runner(**kw)
            finally:
                rec.add("daemonGone", hid, name)
        return run()

    patch(daemons, "_runner", d_runner)

    # ---- exit stoppers of daemons -------------------------------------------------------------------------
    orig_stop_daemon = daemons.stop_daemon

    async def d_stop_daemon(**kw: Any) -> Any:
        did = str(kw["daemon"].handler.id)
        # whose daemon: the stopper knows the object only through the daemon's logger
        oname = ((getattr(kw["daemon"].logger, "extra", None) or {}).get("k8s_ref") or {}).get("name")
        rec.stoppers = getattr(rec, "stoppers", 0) + 1
        sid = rec.stoppers               # (several stoppers of one daemon can overlap: pausing stoppers are spawned every second)
        rec.add("stopperBegin", did, str(kw["reason"]), oname, sid)
        how = "ended"
        try:
            return await orig_stop_daemon(**kw)
        except asyncio.CancelledError:
            how = "cancelled"           # the STOPPER was cancelled (not: it gave the daemon up)
            raise
        except BaseException:  # noqa: BLE001
            how = "failed"
            raise
        finally:
            # OBSERVED cooperativity: did the daemon's task end within its stopper's patience, or was it given up ("orphaned")?
            # ... and HOW the stopper came to its end: on its own (after its whole procedure) or cut short; was the daemon's task
            # ever asked to cancel (`Task.cancelling()`: requests not taken back)?
            dtask = kw["daemon"].task
            rec.add("stopperEnd", did, dtask.done(), oname, how, int(dtask.cancelling()) if hasattr(dtask, "cancelling") else None,
                    sid, str(kw["reason"]))

    patch(daemons, "stop_daemon", d_stop_daemon)

    try:
        yield
    finally:
        for obj, attr, old in reversed(saved):
            setattr(obj, attr, old)


class PoisonMemo(dict):
    """A user memo whose copy fails on the n-th new object: `memories.recall` → `copy.copy(memobase)` is
    outside the error throttler of `process_resource_event`, so the worker itself fails."""

    def __init__(self, fail_on: int | None, rec: Rec):
        super().__init__()
        self.fail_on = fail_on
        self.copies = 0
        self.rec = rec

    def __copy__(self) -> "PoisonMemo":
        self.copies += 1
        if self.fail_on is not None and self.copies == self.fail_on:
            self.rec.add("poisoned", "memo")
            raise Poison("memo copy failed")
        return PoisonMemo(None, self.rec)


def _simloop() -> Any:
    from harness.sim import simloop
    return simloop


def _fault_rule(match: dict, fakeapi: Any) -> Any:
    """HTTP 500 (or `status`) on every matching request from now on."""
    def rule(req: dict) -> Any:
        if "method" in match and req["method"] != match["method"]:
            return None
        if "path_equals" in match and req["path"].rstrip("/") != match["path_equals"]:
            return None
        if "path_contains" in match and match["path_contains"] not in req["path"]:
            return None
        if "until" in match and _simloop().WALL.now_s() >= float(match["until"]):
            return None
        return fakeapi.Fault("status", int(match.get("status", 500)))
    return rule


def run_history(sc: dict, wall_limit: float = 30.0) -> dict:
    from harness.sim import fakeapi, observe, runner, scenario, simloop

    out: dict[str, Any] = {}

    async def main() -> None:
        loop = asyncio.get_running_loop()

        logins = [h for h in sc.get("handlers", []) if h["kind"] == "login"]
        sim = scenario.Sim(copy.deepcopy({**sc, "peering": bool(sc.get("peering")),
                                          "handlers": [h for h in sc.get("handlers", []) if h["kind"] != "login"]}))
        rec = Rec(sim.now)
        out["rec"] = rec

        def factory(loop_: Any, coro: Any, **kw: Any) -> asyncio.Task:
            # anonymous tasks (gather, shield, as_completed) inherit the creator's name + ">" so that API
            # requests made from them can be attributed; explicitly named tasks are renamed by create_task.
            parent = asyncio.current_task(loop_)
            t = asyncio.Task(coro, loop=loop_, **kw)
            if parent is not None:
                t.set_name(parent.get_name() + ">")
                t.add_done_callback(lambda t_: rec.add("childEnd", id(t_)) if t_.get_name().endswith(">") else None)
            return t
        loop.set_task_factory(factory)
        out["sim"] = sim
        c, kex = sim.cluster, sim.kex

        # handler begin/end in the global order log
        def wrap_handler(h: dict, fn: Any) -> Any:
            async def wrapped(**kw: Any) -> Any:
                name = (kw.get("body") or {}).get("metadata", {}).get("name") if kw.get("body") is not None else None
                wref = rec.ref()[1] if h["kind"] not in ("startup", "cleanup", "daemon") else None
                rec.add("hBegin", h["kind"], h["id"], name, kw.get("retry"), wref)
                how = "raised"
                try:
                    res = await fn(**kw)
                    how = "ok"
                    return res
                except asyncio.CancelledError:
                    how = "cancelled"
                    raise
                except BaseException as e:  # noqa: BLE001
                    how = "raised:" + type(e).__name__
                    raise
                finally:
                    rec.add("hEnd", h["kind"], h["id"], name, how, wref)
            wrapped.__name__ = wrapped.__qualname__ = fn.__name__
            return wrapped

        def make_ignoring_daemon(h: dict) -> Any:
            """A daemon that ignores the stop flag and swallows the cancellation sent by ITS STOPPER (`stop_daemon` sets
            DAEMON_CANCELLED before `task.cancel()`), so that the stopper abandons it; any other cancellation (the hung-task
            stop of `run_tasks`) is honoured — the property's "tasks honour cancellation" stays true at the operator level."""
            async def daemon(**kw: Any) -> None:
                stopped = kw["stopped"]
                swallowed = 0
                while True:
                    try:
                        await asyncio.sleep(2.0 ** 20)
                    except asyncio.CancelledError:
                        why = repr(getattr(stopped, "reason", ""))
                        if "DAEMON_CANCELLED" in why and "DAEMON_ABANDONED" not in why and swallowed < 1:
                            swallowed += 1
                            continue
                        raise
            daemon.__name__ = daemon.__qualname__ = h["id"]
            return daemon

        def make_polling_daemon(h: dict) -> Any:
            """A daemon that looks at its `stopped` flag only every `poll` seconds (`asyncio.sleep`, not `stopped.wait`): it does not
            exit "instantly" on the stopper; it does within `cancellation_backoff` if that is long enough, or on the cancellation."""
            poll = float((h.get("daemon") or {}).get("poll", 0.5))

            async def daemon(**kw: Any) -> None:
                stopped = kw["stopped"]
                while not stopped:
                    await asyncio.sleep(poll)
            daemon.__name__ = daemon.__qualname__ = h["id"]
            return daemon

        def make_unwinding_daemon(h: dict) -> Any:
            """A daemon that ignores its flag and needs `unwind` seconds to clean up after itself when it is cancelled."""
            unwind = float((h.get("daemon") or {}).get("unwind", 0.5))

            async def daemon(**kw: Any) -> None:
                try:
                    await asyncio.sleep(2.0 ** 20)
                finally:
                    await asyncio.sleep(unwind)     # (a further cancellation — the hung-task stop — ends this at once)
            daemon.__name__ = daemon.__qualname__ = h["id"]
            return daemon

        orig_make = sim.obs.make_handler

        def make_handler(h: dict) -> Any:
            mode = (h.get("daemon") or {}).get("mode") if h["kind"] == "daemon" else None
            if mode == "ignore":
                return wrap_handler(h, make_ignoring_daemon(h))
            if mode == "poll":
                return wrap_handler(h, make_polling_daemon(h))
            if mode == "unwind":
                return wrap_handler(h, make_unwinding_daemon(h))
            return wrap_handler(h, orig_make(h))
        sim.obs.make_handler = make_handler  # type: ignore[method-assign]
        sim.registry = scenario.build_registry(sim.sc, sim.obs)

        # login handlers (the "core" task `authenticator` runs them when the vault has no valid credentials left)
        holder_op: dict[str, Any] = {}

        def make_login(h: dict) -> Any:
            calls = {"n": 0}

            async def login(**kw: Any) -> Any:
                import kopf
                from kopf._cogs.structs import credentials
                script = h.get("script", [])
                action = script[calls["n"]] if calls["n"] < len(script) else h.get("default", "ok")
                calls["n"] += 1
                rec.add("hBegin", "login", h["id"], None, kw.get("retry"), None)
                how = "ok"
                try:
                    if action == "perm":
                        how = "raised:PermanentError"
                        raise kopf.PermanentError("scripted: no credentials")
                    if action == "none":
                        return None
                    return credentials.AiohttpSession(aiohttp_session=holder_op["op"].session, server="http://fake",
                                                      default_namespace="default")  # type: ignore[arg-type]
                finally:
                    rec.add("hEnd", "login", h["id"], None, how, None)
            login.__name__ = login.__qualname__ = h["id"]
            return login

        import kopf as _kopf
        for h in logins:
            _kopf.on.login(id=h["id"], registry=sim.registry, **(h.get("opts") or {}))(make_login(h))

        def on_request(req: dict) -> None:
            actor, ref = rec.ref()
            req["actor"] = actor
            req["task"] = rec.task_name()
            withdraw = False
            if req["method"] == "PATCH" and "kopfpeerings" in req["path"]:
                st = (req.get("payload") or {}).get("status") if isinstance(req.get("payload"), dict) else None
                if isinstance(st, dict) and any(v is None for v in st.values()):
                    withdraw = True
            req["withdraw"] = withdraw
            rec.add("api", actor, ref, req["method"], req["path"], bool(req["query"].get("watch")), withdraw,
                    id(asyncio.current_task()) if rec.task_name().endswith(">") else None)
        c.before_request.append(on_request)

        for o in sc.get("objects", []):
            c.create_raw(kex, "ns", o["name"], o.get("body", {"spec": {"x": 0}}))
        # a SECOND served kind (its own watch stream in the orchestrator's ensemble: handlers with `"resource": "kopfwidgets"`)
        kex2 = None
        if sc.get("second_kind"):
            kex2 = fakeapi.ResourceDef("kopf.dev", "v1", "kopfwidgets", "KopfWidget", namespaced=True)
            c.add_resource(kex2)
            for o in sc["second_kind"].get("objects", []):
                c.create_raw(kex2, "ns", o["name"], {"spec": {"x": 0}})
        if sc.get("peering"):
            c.create_raw(fakeapi.CLUSTER_PEERING, None, "default", {})
        if sc.get("peering") and sc.get("peering_crd_object"):
            # the peering CRD exists as an object: its deletion is an EVENT for the resource observer (the peering dimension is
            # dropped from the ensemble while the operator runs: the keep-alive says its farewell to a resource that is gone)
            pr = fakeapi.CLUSTER_PEERING
            c.create_raw(fakeapi.CRDS, None, f"{pr.plural}.{pr.group}",
                         {"spec": {"group": pr.group, "names": {"plural": pr.plural, "kind": pr.kind}}})
        if sc.get("crd_object"):                # the CRD of the served resource exists as an object (its deletion is an event)
            c.create_raw(fakeapi.CRDS, None, f"{kex.plural}.{kex.group}",
                         {"spec": {"group": kex.group, "names": {"plural": kex.plural, "kind": kex.kind}}})

        if sc.get("initial_faults"):
            c.fault_rules.append(_fault_rule(sc["initial_faults"], fakeapi))
        poison = {"spec_x": None}
        opkw: dict[str, Any] = {}
        if sc.get("peering"):
            opkw["peering_name"] = "default"
        if sc.get("memo_poison") is not None:
            opkw["memo"] = PoisonMemo(int(sc["memo_poison"]), rec)
        if sc.get("namespaced"):
            # a NAMESPACED operator (`namespaces=[...]`, not cluster-wide): the namespace observer lists and WATCHES the namespaces
            # (its own `queueing.watcher`: one more essential stream), the watchers are per (resource, namespace)
            opkw["clusterwide"] = False
            opkw["namespaces"] = list(sc["namespaced"]) if isinstance(sc["namespaced"], list) else ["ns"]
        st: dict[str, Any] = {"returned": None}

        # environment: the API server applies a peering PATCH at once but ANSWERS it late (`peering_response_latency` seconds):
        # a client cancelled meanwhile has already written its record
        resp_lat = float(sc.get("peering_response_latency") or 0.0)
        o_request = fakeapi.FakeSession.request

        async def slow_request(self: Any, method: str, url: str, *a: Any, **k: Any) -> Any:
            if resp_lat and method.upper() == "PATCH" and "kopfpeerings" in url and not self.dead:
                saved, c.latency = c.latency, 0
                try:
                    resp = await o_request(self, method, url, *a, **k)
                finally:
                    c.latency = saved
                await asyncio.sleep(resp_lat)
                return resp
            return await o_request(self, method, url, *a, **k)

        # environment: the API server is slow to ANSWER the watch requests of the served resource (`watch_response_latency`
        # seconds before the headers): the window in which `api.stream` lets the pause-stopper cancel the pending request
        watch_lat = float(sc.get("watch_response_latency") or 0.0)

        async def slow_watch_request(self: Any, method: str, url: str, *a: Any, **k: Any) -> Any:
            if watch_lat and method.upper() == "GET" and kex.plural in url and "watch" in str(k.get("params") or url) and not self.dead:
                await asyncio.sleep(watch_lat)
            return await (slow_request if resp_lat else o_request)(self, method, url, *a, **k)

        with contextlib.ExitStack() as stack:
            if resp_lat or watch_lat:
                fakeapi.FakeSession.request = slow_watch_request if watch_lat else slow_request  # type: ignore[method-assign]
                stack.callback(lambda: setattr(fakeapi.FakeSession, "request", o_request))
            stack.enter_context(instrument(rec, poison))
            op = runner.Operator(c, sim.registry, sim.settings(), identity="op", **opkw)
            sim.ops["op"] = op
            holder_op["op"] = op
            tasks_before = set(asyncio.all_tasks())
            if sc.get("empty_vault"):
                # the operator starts WITHOUT credentials (the harness' runner pre-populates the vault): the login handlers run
                # at the start, in the core task, behind the started flag
                from kopf._cogs.structs import credentials as _cred
                real_vault = _cred.Vault
                stack.callback(lambda: setattr(_cred, "Vault", real_vault))
                _cred.Vault = lambda *_a, **_k: real_vault()  # type: ignore[misc,assignment]
            await op.start()
            if sc.get("empty_vault"):
                _cred.Vault = real_vault  # type: ignore[misc]
            assert op.task is not None and op.stop_flag is not None and op.ready_flag is not None
            # the READY flag of this run: every raising of it is logged, whoever does it (operator() has not run a step yet)
            ready_set = op.ready_flag.set

            def logged_ready_set() -> None:
                ready_set()
                rec.add("ready")
            op.ready_flag.set = logged_ready_set  # type: ignore[method-assign]

            def op_done(t: asyncio.Task) -> None:
                how, exc = _how(t)
                st["returned"] = {"t": sim.now(), "how": how, "exc": exc}
                rec.add("opEnd", how, exc)
            op.task.add_done_callback(op_done)

            extra_n = 0
            for ev in sorted(sc.get("ops", []), key=lambda e: e[0]):
                t, kind, args = ev[0], ev[1], ev[2:]
                await sim.sleep_until(t)
                if op.task.done() and kind not in ("edit", "edit2", "mark"):
                    continue
                rec.add("op", kind, *args)
                if kind == "flag":
                    op.stop_flag.set()
                elif kind == "cancel":
                    op.task.cancel()
                elif kind == "cancel_yields":   # a cancellation `n` loop iterations after the call (n = 1: inside spawn_tasks' sleep(0))
                    for _ in range(int(args[0]) if args else 1):
                        await asyncio.sleep(0)
                    op.task.cancel()
                elif kind == "edit":
                    c.edit(kex, "ns", args[0], {"spec": {"x": args[1]}})
                elif kind == "rival":            # another operator appears in the peering object (args: priority, lifetime):
                    # with a higher priority it PAUSES this one (streams disconnected, daemons stopped by pausing stoppers)
                    stamp = (simloop.EPOCH + __import__("datetime").timedelta(seconds=simloop.WALL.now_s())).isoformat()
                    c.edit(fakeapi.CLUSTER_PEERING, None, "default",
                           {"status": {"rival": {"priority": int(args[0]), "lifetime": int(args[1]), "lastseen": stamp}}})
                elif kind == "yields":           # let the loop run `n` iterations (no time passes): the next op lands n iterations later
                    for _ in range(int(args[0])):
                        await asyncio.sleep(0)
                elif kind == "rival_gone":
                    c.edit(fakeapi.CLUSTER_PEERING, None, "default", {"status": {"rival": None}})
                elif kind == "delete":           # a deletion request: the object is marked (finalizers hold it), or goes at once
                    if c.get(kex, "ns", args[0]) is not None:
                        c.delete(kex, "ns", args[0])
                elif kind == "edit2":            # an object of the second kind
                    assert kex2 is not None
                    c.edit(kex2, "ns", args[0], {"spec": {"x": args[1]}})
                elif kind == "create":
                    if c.get(kex, "ns", args[0]) is None:
                        c.create_raw(kex, "ns", args[0], {"spec": {"x": args[1] if len(args) > 1 else 0}})
                elif kind == "watch_error":
                    res = {"kex": kex, "crd": fakeapi.CRDS, "peering": fakeapi.CLUSTER_PEERING, "ns": fakeapi.NAMESPACES}[args[0]]
                    c.break_watches(res, "error")
                elif kind == "watch_eof":        # the running stream of one resource ends (server timeout): the watcher re-lists and re-watches
                    res = {"kex": kex, "crd": fakeapi.CRDS, "peering": fakeapi.CLUSTER_PEERING, "ns": fakeapi.NAMESPACES}[args[0]]
                    c.break_watches(res, "eof")
                elif kind == "watch_http":
                    # the LIST/WATCH requests of one resource are answered with an HTTP error from now on, for good (403: the
                    # permissions were taken away; 5xx: beyond the retries of the client); the running stream is cut, the re-list
                    # meets the error: the stream fails with an API error (not with an in-stream ERROR event)
                    res, match = {"kex": (kex, {"path_contains": kex.plural}),
                                  "crd": (fakeapi.CRDS, {"path_contains": fakeapi.CRDS.plural}),
                                  "ns": (fakeapi.NAMESPACES, {"path_equals": "/api/v1/namespaces"})}[args[0]]
                    c.fault_rules.append(_fault_rule({"method": "GET", "status": int(args[1]), **match}, fakeapi))
                    c.break_watches(res, "eof")
                elif kind == "poison":          # the next event of that object with spec.x == value fails the worker
                    poison["spec_x"] = args[1]
                    c.edit(kex, "ns", args[0], {"spec": {"x": args[1]}})
                elif kind == "orch_poison":      # the orchestrator's next adjustment raises; a CRD event makes it adjust
                    poison["adjust"] = True
                    extra_n += 1
                    c.add_resource(fakeapi.ResourceDef("kopf.dev", "v1", f"extras{extra_n}", f"Extra{extra_n}"))
                elif kind == "faults":           # 5xx on matching requests from now on
                    c.fault_rules.append(_fault_rule(args[0], fakeapi))
                elif kind == "new_crd":          # a CRD event makes the resource observer re-scan the group
                    extra_n += 1
                    c.add_resource(fakeapi.ResourceDef("kopf.dev", "v1", f"extras{extra_n}", f"Extra{extra_n}"))
                elif kind == "unauthorized":     # the API answers 401 once: the credentials are invalidated, a re-login is due
                    fired = {"n": 0}

                    def rule401(req: dict, fired: dict = fired, n: int = int(args[0]) if args else 1) -> Any:
                        if fired["n"] >= n or req["query"].get("watch"):
                            return None
                        fired["n"] += 1
                        return fakeapi.Fault("status", 401)
                    c.fault_rules.append(rule401)
                elif kind == "crd_delete":       # the served CRD is deleted: its watch streams end, list/watch answer 404
                    c.remove_resource(kex)
                elif kind == "crd_create":       # ... and created again
                    c.add_resource(kex)
                elif kind == "watch_gone":
                    # the served resource is GONE FOR A MOMENT for its watcher only (args: resource, seconds): its list/watch
                    # requests are answered with HTTP 404 for that long, the running stream is cut — the watcher ends with
                    # APINotFoundError (not a failure) while the resource stays in the insights: the next adjustment of the
                    # ensemble (any revision) finds an exited task under a served key and starts a new one in its place
                    c.fault_rules.append(_fault_rule({"method": "GET", "status": 404, "path_contains": kex.plural,
                                                      "until": sim.now() + float(args[1])}, fakeapi))
                    c.break_watches(kex, "eof")
                elif kind == "ns_delete":        # a served NAMESPACE is deleted (its contents go first, as on a real API server) ...
                    for key in [k_ for k_ in c.objects if k_[1] == args[0]]:
                        c._remove(key)
                    if c.get(fakeapi.NAMESPACES, None, args[0]) is not None:
                        c._remove((fakeapi.NAMESPACES.key, None, args[0]))
                elif kind == "ns_create":        # ... and created again under the same name: the same dimension of the ensemble
                    if c.get(fakeapi.NAMESPACES, None, args[0]) is None:
                        c.create_raw(fakeapi.NAMESPACES, None, args[0], {})
                elif kind == "peering_crd_delete":   # the peering CRD (and its objects) are deleted: no peering resource any more ...
                    c.remove_resource(fakeapi.CLUSTER_PEERING)
                elif kind == "crd2_delete":      # the CRD of the SECOND served kind is deleted (the first kind stays served)
                    assert kex2 is not None
                    c.remove_resource(kex2)
                elif kind == "peering_crd_create":   # ... and installed again, with the peering object
                    c.add_resource(fakeapi.CLUSTER_PEERING)
                    if c.get(fakeapi.CLUSTER_PEERING, None, "default") is None:
                        c.create_raw(fakeapi.CLUSTER_PEERING, None, "default", {})
                elif kind == "mark":
                    pass
                else:
                    raise ValueError(f"unknown op {kind}")
            await sim.sleep_until(float(sc["end"]))
            rec.add("end", op.alive)
            out["alive_at_end"] = op.alive
            if op.alive:
                rec.add("op", "flag")
                # finish the run: a graceful stop; if even that does not end it, abandon the incarnation
                r = await op.stop(timeout=float(sc.get("final_stop_timeout", 64.0)))
                out["final_stop"] = repr(r)
                if op.alive:
                    op.kill()
                    rec.add("abandoned")
                    await asyncio.sleep(1.0)
            # tasks of the operator that outlived operator() (a zombie operator: findings C20-F10/F11): sweep them here, in
            # virtual time — the loop's own teardown would wait for them in real time
            me = asyncio.current_task()
            for _round in range(6):
                zombies = [x for x in asyncio.all_tasks() if x is not me and x not in tasks_before and not x.done()]
                if not zombies:
                    break
                if _round == 0:
                    rec.add("zombies", len(zombies), sorted({classify_actor(x.get_name()) for x in zombies})[:12])
                    op.stop_flag.set()
                for x in zombies:
                    x.cancel()
                await asyncio.sleep(8.0)
        out["returned"] = st["returned"]

    err = None
    try:
        simloop.run_sim(main, wall_limit=wall_limit)
    except (simloop.SimDeadlock, simloop.SimStall) as e:
        err = f"{type(e).__name__}: {e}"
    rec, sim = out.get("rec"), out.get("sim")
    res: dict[str, Any] = {"sim_error": err, "log": rec.log if rec else [], "returned": out.get("returned"),
                           "alive_at_end": out.get("alive_at_end"), "final_stop": out.get("final_stop")}
    if sim is not None:
        res["calls"] = sim.obs.calls
        res["requests"] = [{k: observe._jsonable(v) for k, v in r.items() if k in
                            ("t", "method", "path", "query", "response", "actor", "task", "withdraw")}
                           for r in sim.cluster.requests]
        peer = sim.cluster.objects.get((fakeapi.CLUSTER_PEERING.key, None, "default")) if sc.get("peering") else None
        res["peering_status"] = observe._jsonable((peer or {}).get("status")) if peer is not None else None
    return res


def main() -> None:
    wall = float(sys.argv[1]) if len(sys.argv) > 1 else 30.0
    for line in sys.stdin:
        line = line.strip()
        if not line:
            continue
        item = json.loads(line)
        sys.stderr.write(f"@@BEGIN {item['i']}\n")
        sys.stderr.flush()
        try:
            out = {"i": item["i"], "obs": run_history(item["sc"], wall_limit=wall)}
        except Exception as e:  # noqa: BLE001
            import traceback
            out = {"i": item["i"], "harness_error": f"{type(e).__name__}: {e}", "tb": traceback.format_exc()[-3000:]}
        sys.stdout.write(json.dumps(out, default=repr) + "\n")
        sys.stdout.flush()


if __name__ == "__main__":
    main()
