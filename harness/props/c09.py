"""C09 — daemon/timer lifecycle: one instance, started on match, stopped in stages, never stalls.

Theorems: lean/Kopf/Props/C09.lean over lean/Kopf/Model/C09_Daemons.lean (per (object, handler id)
lifecycle automaton + micro-steps of `_timer`).
Ties: (T) the if/elif stage chain of `daemons.stop_daemons` and the phase list of `stop_daemon` are
regenerated from the AST and proved equal to the model (Kopf/Tie/C09.lean); (S) every
`process_spawning_cause` pass and every daemon-killer `stop_daemon` run of closed-loop simulations of
the REAL operator is replayed through the model (same spawns, same stopper reasons / `when` /
cancellation, same `forever_stopped`, same delays); stalls are caught by a spin detector + the
pool's watchdog.  The oracle reads only: enter/exit of the daemon/timer functions and of their
runner tasks, the stop flags' set-log, the server-side object history and the scenario's timeline.

Harness features implemented locally (see the final report): pause/resume by toggling the operator's
own `operator_paused` ToggleSet (captured from the `daemon_killer` call), a `TaskProxy` around
`Daemon.task` to see the `done()`/`cancel()` calls of the stopping logic, a deterministic spin
detector on `aiotime.sleep`, own daemon/timer functions (obey / cancel / ignore / exit).
"""
from __future__ import annotations

import ast
import asyncio
import contextlib
import contextvars
import copy
import json
import os
import sys
from typing import Any, Iterator

from .. import leanio, pyextract
from ..core import Ctx, ExtractError

ID = "C09"
LEVEL = "proof"
STRENGTH = "partial"     # F10, F13, F14, F15 repaired (no open finding); every clause but "never crashes" has theorems; that a delay returned by a cycle brings the next cycle (sleep -> touch -> event: the time bounds of the cycle-driven stops after a deletion mark / a mismatch, and of the deferred start) is outside the model: oracle O9/O14/O15 + tie
ENGINES = ["lean-model", "pyextract", "kopfsim"]
TIE = ("T: stage chain of stop_daemons + phase list of stop_daemon + per-handler action of spawn_daemons + selection and "
       "immediate-re-visit condition of match_daemons (AST → Lean, re-proved equal to the model); "
       "S: every process_spawning_cause pass and every daemon-killer stop_daemon run of whole-operator simulations "
       "replayed through the Lean model; spin detector + pool watchdog for stalls")
LEVEL_TEXT = (
    "Lean theorems for ALL label lists (cycles with any matching/marked/paused/DELETED inputs and any observation of the task, "
    "daemon-killer stages, the instance ending at any moment, any time steps, any backoff/timeout): at_most_one + "
    "spawn_only_when_none, started_on_match, self_exit_is_remembered + no_restart_after_self_exit, final_failure_is_remembered + "
    "no_respawn_after_final_failure (a timer failed for good: a6c10de), staged + staged_monotone, "
    "stop_reasons. The automaton is TIMED (`tickOk`, Model file: asyncio fires due timers — the clock cannot pass a round of the "
    "killer's pausing loop that has not swept a listed daemon, nor a stage deadline of a running stop_daemon coroutine); "
    "paused_daemon_is_cancelled / paused_daemon_is_abandoned are INVARIANTS of every reachable state (no hypothesis about the run): "
    "while paused, a running daemon of a known memory has been cancelled (if it has a cancellation_timeout) by the first round after "
    "it was listed + backoff, abandoned by + timeout, whoever set its flag; never_cancelled_without_timeout says what the default "
    "cancellation_timeout=None does NOT get (only flag + abandonment); first_round_within_period bounds the round. That the re-sweep is "
    "unconditional and periodic is a tie "
    "obligation (AST + every observed round), not a property theorem. 'Stopping never stalls': `progress` (_timer, <= 6 steps) and "
    "`daemon_progress` (_daemon, <= 3 steps) for the micro-step models of the tree as it is (idle loop guarded by the stopper since "
    "6ccf081, `await asyncio.sleep(0)` at the top of both retry loops since b04c26c; both variants tied to the AST), from every "
    "program point, environment and stream of handler outcomes — a run may or may not yield to the loop and may be retried with any "
    "delay incl. 0. 'The stop flag is obeyed by the wrapper': stopped_timer_returns / stopped_daemon_returns — wherever `_timer` / "
    "`_daemon` is when its stopper is set (initial delay, idle wait, interval / retry sleep, after-run idle loop; not inside the call "
    "itself) it RETURNS within 4 / 3 micro-steps without suspending and WITHOUT calling the function again (ties: every "
    "`aiotime.sleep` of both has the stopper as wake-up event; the re-check after the idle wait). AFTER A FILTER MISMATCH (F14 repaired, F15 bounded by ef26531; "
    "tree variant `escorts`, tied to the AST of match_daemons / spawn_daemons and compared on every observed cycle): "
    "escorted_whatever_matching (for every state with a running instance that carries FILTERS_MISMATCH, every cycle of the unmarked "
    "object gives THE SAME state whether the body matches again or not, and returns at least the same delays), "
    "mismatch_stages_visited (such a cycle at flag age a leaves the instance ended, or: a < backoff: signalled + the rest of the "
    "backoff returned; backoff over, a < backoff+timeout: task.cancel() called + the rest returned; backoff+timeout <= a: abandoned; "
    "no timeout: cancellation_polling returned — whatever inp.matching), mismatch_flag_is_kept + escorted_to_the_end (after ANY label "
    "list without a spawn — re-matches, pauses, the killer's stages, time — it is the same instance with its reasons and the time w "
    "of its flag: every later cycle of the unmarked object, matching or not, leaves it ended, or cancelled once backoff <= now-w, "
    "abandoned once backoff+timeout <= now-w), deferred_start_is_rescheduled (a selected handler whose "
    "previous instance is still stopping, after a mismatch OR a pause, is skipped — never two instances — WITH cancellation_polling "
    "returned), ended_in_visit_asks_revisit (ended inside match_daemons' visit while selected: delay 0, not remembered as an own exit), "
    "replaced_after_end + replaced_within_one_further_cycle (once it has ended, the next cycle of the live matching object starts "
    "exactly one new instance), only_cycles_spawn (the start is made by that cycle, by nothing else). 'Started when the object … "
    "starts matching' vs. 'a stopping instance is not respawned before it has fully ended': the statement gives no time bound and "
    "itself forbids the start while the stopping instance is there; nothing notifies the processing of an instance's end (the design "
    "is cycle-driven), so the deferred start comes with the next re-check of the exiting instance — at once (delay 0) when it ends "
    "inside a visit, else within cancellation_polling, the documented knob for polling an exiting daemon. A start late by less than "
    "one polling period after the end is therefore NOT counted as a violation (oracle O15 allows polling + 1 s; before ef26531 there "
    "was no re-check at all: unbounded — that was F15); the same holds for the pause path (a daemon that outlives the re-listing after "
    "the resume: the case daemon_killer's docstring calls low-priority; reproduced on the pre-repair tree by corpus F15-pause.json, "
    "bounded the same way now; while the killer's stop_daemon coroutine keeps taking it through the stages: paused_daemon_* / tickOk). "
    "NOT modelled: that a returned delay brings the next cycle (sleep, touch-patch, event) — oracle O9/O14/O15 on every history. "
    "HISTORICAL (`escorts = false`, the code before ef26531): rematched_not_escalated (a cycle of a matching, unmarked object changed "
    "nothing and returned no delay, whatever stage a flagged instance was in), rematch_witness, deferred_start_witness (both variants "
    "side by side); corpus F14.json / F15.json / F15-pause.json are passing regressions. Historical negations kept as regressions' model side: `nonyielding_retry_spins(+_witness)`, "
    "`daemon_nonyielding_retry_spins` (F12, code before b04c26c), `idle_only_spins(+_witness)` (F1, code "
    "before 6ccf081); the corpus cases F1/F12*.json are passing regressions. 'Never crashes' has NO theorem: oracle on every history (no exception out of the "
    "killer / processing / operator, operator alive) + tie `killer_iterates_snapshots` + corpus regressions (F11 fixed by 06bf1c1). "
    "'Asked to stop when the object disappears' (F10 repaired by 25da2b9) and 'when the operator exits' (F13 repaired by 1d3a667) "
    "are now UNGUARDED invariants of every reachable state of the tree variant (`stopsGone`, `marksExiting`: both tied to the AST of "
    "daemons.py / processing.py / inventory.py and compared on every observed cycle / DELETED event / sweep): "
    "stopped_when_object_disappears (past the instant of the DELETED event — with or without the deletion mark — whatever still runs "
    "carries RESOURCE_DELETED from a stop_daemon started at that instant, cancelled by +backoff if there is a timeout, abandoned by "
    "+backoff+timeout, or the clock has not passed these yet), gone_at_deleted_event + nothing_spawned_for_gone_object, "
    "stopped_when_operator_exits (the same for OPERATOR_EXITING from the instant the killer's exit sweep began, for every instance of a "
    "known memory), nothing_spawned_while_exiting (no label list spawns once the operator is marked as exiting), "
    "no_killer_after_final_sweep. THAT THE MARK REACHES THE PAIR'S MEMORY is the inventory level (Model/C09_Inventory.lean: all "
    "memories, the view iter_all_daemon_memories, recall's inheritance, spawn_daemons' guard; tied to the AST by views_every_memory + "
    "marks_exiting, and by S on every cycle after the sweep): exit_mark_covers_every_memory (idle or busy), "
    "nothing_spawned_after_exit_mark (after the mark NO list of further worker/runner operations — events of known objects idle or "
    "busy at the sweep, of new objects, DELETED events, instances ending — creates an instance), idle_memory_in_view_iff, "
    "filtered_view_same_for_stopping (why a view without the idle memories looks harmless: the stopping loops reach the same "
    "daemons), with the variant `viewAll = false` (seed C09g) refuted by exit_mark_skips_idle_witness + "
    "idle_pair_respawns_under_filtered_view (corpus exit-idle-*.json). The former negations are kept as HISTORICAL theorems about the old variants "
    "(`stopsGone = false`: gone_unmarked_not_stopped, orphan_never_stopped, gone_unmarked_witness; `marksExiting = false`: "
    "respawned_while_exiting, exit_respawn_witness); corpus F10.json / F13.json are passing regressions. NOT theorems "
    "(oracle upper-bound clauses O8/O9 + ties only): that cancellation/abandonment DO happen when the stop is driven by processing "
    "cycles (deletion mark / mismatch: cycles → delays → touch → next cycle). Runtime residue the "
    "model cannot exhibit: real threads of sync daemons, CPython's scheduling of same-instant callbacks.")
THEOREMS = [("Kopf.Props.C09", "Kopf.C09." + n) for n in [
    "at_most_one", "spawn_only_when_none", "started_on_match", "self_exit_is_remembered", "no_restart_after_self_exit",
    "final_failure_is_remembered", "no_respawn_after_final_failure",
    "staged", "staged_monotone", "stop_reasons",
    "first_round_within_period", "paused_daemon_is_cancelled", "paused_daemon_is_abandoned", "never_cancelled_without_timeout",
    "started_unless_blocked",
    "stopped_when_operator_exits", "nothing_spawned_while_exiting", "no_killer_after_final_sweep",
    "stopped_when_object_disappears", "gone_at_deleted_event", "nothing_spawned_for_gone_object",
    "respawned_while_exiting", "exit_respawn_witness",
    "exit_mark_covers_every_memory", "nothing_spawned_after_exit_mark", "idle_memory_in_view_iff",
    "filtered_view_same_for_stopping", "exit_mark_skips_idle_witness", "idle_pair_respawns_under_filtered_view",
    "gone_unmarked_not_stopped", "orphan_never_stopped", "gone_unmarked_witness",
    "progress", "daemon_progress", "stopped_timer_returns", "stopped_daemon_returns",
    "escorted_whatever_matching", "mismatch_stages_visited", "mismatch_flag_is_kept", "escorted_to_the_end",
    "deferred_start_is_rescheduled", "ended_in_visit_asks_revisit",
    "replaced_after_end", "replaced_within_one_further_cycle", "only_cycles_spawn",
    "rematched_not_escalated", "rematch_witness", "deferred_start_witness",
    "nonyielding_retry_spins", "nonyielding_retry_witness", "daemon_nonyielding_retry_spins",
    "idle_only_spins", "idle_only_spins_witness"]]
TIE_THEOREMS = [("Kopf.Tie.C09", "Kopf.C09.Tie." + n) for n in ["stage_eq", "killer_phases_eq", "timers_force_none",
                                                                         "timer_loop_guarded", "killer_iterates_snapshots",
                                                                         "sweep_unconditional", "killer_period_eq",
                                                                         "loops_yield_each_iteration", "timer_failure_is_forever",
                                                                         "stops_gone", "marks_exiting", "views_every_memory",
                                                                         "sleeps_wake_on_stop", "timer_rechecks_stop_after_idle",
                                                                         "spawn_act_eq", "match_visits_eq", "revisit_now_eq"]]
RULE = ("seeded whole-operator histories: 1-2 objects, 1-3 daemons/timers (modes obey/cancel/ignore/exit; cancellation_backoff/"
        "timeout in {None,0,small,large}; timers with interval/idle/both/neither, sharp, initial_delay), optional label filter and "
        "change handler, timeline of label toggles, spec edits, graceful deletion, deletion before the finalizer lands, forced "
        "finalizer removal + deletion, pause/resume (incl. the #1266 interleaving: an event processed while already paused), graceful "
        "restarts and kills at dyadic times, async handlers that never await (retried with delay 0 / None / positive); flavours: "
        "'asleep' (the stop arrives while the wrapper sleeps: timer idle wait / interval / initial delay / retry delay, daemon initial "
        "delay / retry delay; through deletion, forced disappearance, mismatch, pause, exit), 'rematch' (mismatch with the object staying "
        "mismatching through all stages, or matching again inside / after them), 'exit-flagged' (exit while a daemon is in an early stage "
        "of another stop), 'exit-idle' (7%: exit while a KNOWN object has no instance — never matched / stopped matching and its "
        "instances have ended / its daemon exited by itself — with an event by which a daemon or timer matches queued behind a change "
        "handler in flight or landing within 2/64 s of the stop request, processed after the killer's final sweep; optionally a second "
        "object, busy or idle), 8% of all histories with settings.background.instant_exit_timeout set (oracle only); one case = one "
        "process_spawning_cause pass or one daemon-killer stop_daemon run; distinct & non-trivial = distinct abstracted "
        "(inputs, pre-state shape, stage taken) tuples in which something is spawned, flagged, cancelled, abandoned or ended")
TRUSTED = ["harness/sim (virtual-time loop, fake API server) + the local instrumentation in harness/props/c09.py",
           "pyextract atom vocabulary for daemons.stop_daemons / stop_daemon / spawn_daemons / match_daemons and the accepted shapes "
           "of inventory.ResourceMemories.iter_all_daemon_memories",
           "the oracle's reading of 'matches' (label equality/presence filters only) and its reaction allowance of 1 s virtual time "
           "(0.25 s for an instance none of whose user code runs to end on its flag; one cancellation_polling period + 1 s for a start "
           "that had to wait for the previous, stopping instance to end)"]
ASSUMPTIONS = ["settings.background.instant_exit_timeout is None (the default): no time passes inside one stop_daemons call "
               "(model and tie; histories with a small instant_exit_timeout are generated and judged by the oracle alone)",
               "async daemons/timers only (sync ones run in real threads: outside the model)",
               "CPython >= 3.12 semantics of asyncio.wait_for (an already-set event does not suspend): on 3.10/3.11 the F1 loop "
               "burns CPU but yields to the loop",
               "no event for a uid follows its DELETED event (Kubernetes API guarantee)",
               "whether a handler run yields to the event loop is an input of the micro-step models (`Outcome.yields`), not an "
               "assumption; timers have idle > 0 (an `idle <= 0` makes the after-run idle loop spin)",
               "urgency of the killer's own timers is part of the model (`tickOk`): asyncio fires due timers; CPU starvation and the "
               "order of same-instant callbacks are out of scope (a daemon listed at the very instant of a round counts from the next)",
               "0 <= cancellation_backoff, 0 <= cancellation_timeout (hypotheses of the pause / exit / disappearance invariants)",
               "the background stop_daemon tasks of a gone object and of the exit sweep start in the instant they are created "
               "(`tickOk`; compared on every observed DELETED event and sweep)"]

F1_SIG = {"site": "daemons._timer", "shape": "idle-only timer spins without suspending after its stopper is set"}
F13_SIG = {"site": "processing.process_spawning_cause",
           "shape": "daemon/timer (re)spawned by a worker while the operator is exiting: never asked to stop"}
F12_SIG = {"site": "daemons._timer / daemons._daemon",
           "shape": "non-awaiting async handler retried with zero delay: the retry loop never yields to the event loop"}
F11_SIG = {"site": "daemons.daemon_killer",
           "shape": "RuntimeError: the killer iterates running_daemons across awaits while exiting daemons remove themselves"}
F10_SIG = {"site": "processing.process_spawning_cause",
           "shape": "DELETED event without deletionTimestamp: running daemons/timers are never asked to stop"}
F14_SIG = {"site": "daemons.match_daemons",
           "shape": "a daemon asked to stop for a filter mismatch is not taken through the stages once the object matches again"}
F15_SIG = {"site": "daemons.spawn_daemons",
           "shape": "a start deferred because the previous instance was still stopping is never made up for"}
RUNNER = "harness.props.c09:run_scenario"
PRIMARY = ["FILTERS_MISMATCH", "RESOURCE_DELETED", "OPERATOR_PAUSING", "OPERATOR_EXITING"]
R2L = {"DONE": "done", "FILTERS_MISMATCH": "mismatch", "RESOURCE_DELETED": "deleted", "OPERATOR_PAUSING": "pausing",
       "OPERATOR_EXITING": "exiting", "DAEMON_SIGNALLED": "signalled", "DAEMON_CANCELLED": "cancelled",
       "DAEMON_ABANDONED": "abandoned"}
KILLER_PERIOD = 1.0     # `asyncio.timeout(1.0)` between two rounds of the daemon killer while paused
DELTA_START = 2.0      # … and to start up (discovery + first listing)
DELTA = 1.0            # virtual seconds the operator is given to react to an event (measured: a few 1/64 s)
DELTA_END = 0.25       # … and an instance whose wrapper alone has to obey the flag to end (measured: the same instant)
SPIN_LIMIT = 20000
CALL_SPIN_LIMIT = 800


# =================================================================================================
#  Part 1 — inside the worker subprocess: Sim with own daemons/timers, pause/resume, instrumentation
# =================================================================================================
def _ticks(x: float | None) -> int | None:
    if x is None:
        return None
    from ..sim import observe
    return observe.to_ticks(x)


def _names(flag: Any) -> list[str]:
    if flag is None:
        return []
    return sorted(m.name for m in type(flag) if m in flag)


class Recorder:
    """Sequential event log of one scenario (see the module docstring for what is observed)."""

    def __init__(self, sim: Any):
        self.sim = sim
        self.ev: list[dict] = []
        self.calls: list[dict] = []
        self.by_stopper: dict[int, dict] = {}
        self.by_event: dict[int, dict] = {}     # id(stopper.async_event) -> the same records
        self.keep: list[Any] = []          # keeps stoppers alive so that id() stays unique
        self.n_sid = 0
        self.n_cyc = 0
        self.n_k = 0
        self.toggles: dict[int, Any] = {}  # incarnation -> operator_paused ToggleSet
        self.pause_toggle: dict[int, Any] = {}
        self.spawn_ctx: dict | None = None
        self.proto_cancels: dict[int, int] = {}
        self._spin_iter, self._spin_n = -1, 0
        self._inst_t, self._inst_n, self.damped = -1.0, 0, 0

    def log(self, e: str, **kw: Any) -> dict:
        from ..sim import runner
        rec = {"e": e, "seq": len(self.ev), "t": self.sim.now(), "inc": runner._incarnation.get(), **kw}
        self.ev.append(rec)
        return rec

    def muted(self) -> bool:
        from ..sim import runner
        return runner._incarnation.get() in self.sim.obs.dead

    def note_call(self) -> bool:
        """Generic spin detector: the same daemon/timer function entered thousands of times within ONE iteration of
        the event loop means its guarding coroutine retries it without ever suspending.
        Returns True when the calls pile up at one virtual instant although the loop does get control (a zero-delay
        retry that yields, e.g. after a repair of F12): under virtual time that would never end, so the scripted
        handler then takes 1/64 s per call (a harness artefact, counted in the trace)."""
        loop = asyncio.get_running_loop()
        it = getattr(loop, "iterations", None)
        if it is None:
            return False
        now = self.sim.now()
        if self._inst_t != now:
            self._inst_t, self._inst_n = now, 0
        if self._spin_iter != it:
            self._inst_n += 1            # calls at this virtual instant that came in DIFFERENT loop iterations
        if self._spin_iter == it:
            self._spin_n += 1
            if self._spin_n > CALL_SPIN_LIMIT:
                f = sys._getframe(1)
                while f is not None and f.f_code.co_name not in ("_timer", "_daemon"):
                    f = f.f_back
                func, test, line = None, None, None
                if f is not None:
                    func, test = _while_test_at(f.f_code.co_filename, f.f_lineno)
                    line = f.f_lineno
                info = {"func": func, "file": "daemons.py", "line": line, "loop_test": test, "n": self._spin_n,
                        "t": self.sim.now(), "kind": "handler re-invoked without suspending", "tail": self.ev[-6:]}
                sys.stderr.write("\n@@C09-SPIN " + json.dumps(info, default=repr) + "\n")
                sys.stderr.flush()
                os._exit(3)
        else:
            self._spin_iter, self._spin_n = it, 1
        if self._inst_n > 400 or self.damped:
            self.damped += 1         # sticky: from now on every scripted call takes 1/64 s
            return True
        return False

    # ---- the scripted daemon / timer functions ---------------------------------------------------
    def make_handler(self, h: dict) -> Any:
        if h["kind"] == "daemon":
            return self._make_daemon(h)
        if h["kind"] == "timer":
            return self._make_timer(h)
        return self.sim.obs.make_handler(h)

    def _call_rec(self, h: dict, kwargs: dict) -> dict:
        from ..sim import runner
        meta = (kwargs.get("body") or {}).get("metadata", {})
        srec = self.by_stopper.get(id(getattr(kwargs.get("stopped"), "_setter", None)))
        rec = {"t": self.sim.now(), "inc": runner._incarnation.get(), "id": h["id"], "kind": h["kind"],
               "uid": meta.get("uid"), "name": meta.get("name"), "t_end": None, "outcome": None,
               "seq": len(self.ev), "sid": srec["sid"] if srec else None,
               "flag_at_entry": bool(kwargs.get("stopped")) if "stopped" in kwargs else None}
        self.calls.append(rec)
        return rec

    def _make_daemon(self, h: dict) -> Any:
        d = h.get("daemon", {})
        mode, after = d.get("mode", "obey"), float(d.get("after", 4.0))

        async def daemon(**kwargs: Any) -> Any:
            if self.muted():
                raise asyncio.CancelledError()
            stopped = kwargs["stopped"]
            rec = self._call_rec(h, kwargs)
            rec["mode"] = mode
            try:
                if self.note_call():
                    await asyncio.sleep(1.0 / 64)
                if mode == "retry":      # never awaits; asks to be retried after `delay` (TemporaryError)
                    import kopf
                    rec["outcome"] = "retry"
                    raise kopf.TemporaryError("scripted", delay=d.get("delay", 0))
                if mode == "exit":
                    await asyncio.sleep(after)
                    for _ in range(int(d.get("lag", 0))):      # a few more zero-time steps before it returns
                        await asyncio.sleep(0)
                    rec["outcome"] = "own-exit"
                    rec["flag_at_exit"] = bool(stopped)
                    return None
                if mode == "obey":
                    await stopped.wait()
                    rec["outcome"] = "obeyed"
                    rec["stop_reason"] = _names(stopped.reason)
                    return None
                srec = self.by_stopper.get(id(getattr(stopped, "_setter", None)))
                seen = 0
                while True:       # cancel / ignore: never looks at the flag
                    try:
                        await asyncio.sleep(2.0 ** 20)
                    except asyncio.CancelledError:
                        rec.setdefault("cancels", []).append(self.sim.now())
                        reasons = _names(stopped.reason)
                        proto = self.proto_cancels.get(srec["sid"], 0) if srec else 0
                        by_protocol, seen = proto > seen, proto
                        # "ignore" resists the cancellations of the stopping protocol until the framework has given
                        # up on it (abandoned); any other cancellation (kill, the exit sweep of hung tasks) ends it
                        if mode == "cancel" or not by_protocol or self.muted() or "DAEMON_ABANDONED" in reasons:
                            rec["outcome"] = "cancelled"
                            rec["stop_reason"] = reasons
                            raise
            finally:
                rec["t_end"] = self.sim.now()
                rec["muted_end"] = self.muted()

        daemon.__name__ = daemon.__qualname__ = h["id"]
        return daemon

    def _make_timer(self, h: dict) -> Any:
        script = list(h.get("script", []))
        dur = float(h.get("dur", 1.0 / 64))

        async def timer(**kwargs: Any) -> Any:
            if self.muted():
                raise asyncio.CancelledError()
            import kopf
            rec = self._call_rec(h, kwargs)
            key = (rec["uid"], h["id"])
            n = self.sim.obs.counters.get(key, 0)
            self.sim.obs.counters[key] = n + 1
            rec["n"] = n
            try:
                if self.note_call():
                    await asyncio.sleep(1.0 / 64)
                if not h.get("noawait"):
                    await asyncio.sleep(dur)       # an async handler that awaits; with "noawait" the run never yields
                act = script[n] if n < len(script) else h.get("default", "ok")
                rec["outcome"] = act if isinstance(act, str) else act[0]
                if isinstance(act, list) and act[0] == "temp":
                    raise kopf.TemporaryError("scripted", delay=None if act[1] is None else float(act[1]))
                if act == "perm":
                    raise kopf.PermanentError("scripted: failed for good")
                return None
            finally:
                rec["t_end"] = self.sim.now()

        timer.__name__ = timer.__qualname__ = h["id"]
        return timer


class TaskProxy:
    """Stands in for `Daemon.task`: logs the `done()` / `cancel()` calls made by the stopping logic."""

    def __init__(self, task: Any, rec: dict, recorder: Recorder):
        self.__dict__["_t"] = task
        self.__dict__["_rec"] = rec
        self.__dict__["_r"] = recorder

    def done(self) -> bool:
        r = self._t.done()
        f = sys._getframe(1)
        site = f.f_code.co_name
        if site in ("stop_daemons", "stop_daemon"):
            self._r.log("done?", sid=self._rec["sid"], site=site, line=f.f_lineno, r=r, cid=_cur_stop.get(), kid=_cur_kill.get())
        return r

    def cancel(self, *a: Any, **k: Any) -> bool:
        f = sys._getframe(1)
        site = f.f_code.co_name
        self._r.log("cancel", sid=self._rec["sid"], site=site, cid=_cur_stop.get(), kid=_cur_kill.get())
        if site in ("stop_daemons", "stop_daemon"):
            self._r.proto_cancels[self._rec["sid"]] = self._r.proto_cancels.get(self._rec["sid"], 0) + 1
        return self._t.cancel(*a, **k)

    def __getattr__(self, name: str) -> Any:
        return getattr(self._t, name)

    def __await__(self) -> Any:       # `await daemon.task` / `asyncio.wait_for(daemon.task, …)` work as on the task itself
        return self._t.__await__()

    def __repr__(self) -> str:
        return f"<TaskProxy of {self._t!r}>"


_cur_stop: contextvars.ContextVar[int | None] = contextvars.ContextVar("c09_stop", default=None)
_cur_kill: contextvars.ContextVar[int | None] = contextvars.ContextVar("c09_kill", default=None)
_cur_mems: contextvars.ContextVar[Any] = contextvars.ContextVar("c09_memories", default=None)


def _while_test_at(filename: str, lineno: int) -> tuple[str | None, str | None]:
    """(enclosing function name, test of the innermost `while` loop containing the line)."""
    try:
        tree = ast.parse(open(filename).read())
    except Exception:  # noqa: BLE001
        return None, None
    best: tuple[int, str] | None = None
    func = None
    for node in ast.walk(tree):
        if isinstance(node, (ast.FunctionDef, ast.AsyncFunctionDef)) and node.lineno <= lineno <= (node.end_lineno or 0):
            func = node.name
        if isinstance(node, ast.While) and node.lineno <= lineno <= (node.end_lineno or 0):
            if best is None or node.lineno > best[0]:
                best = (node.lineno, ast.unparse(node.test))
    return func, (best[1] if best else None)


@contextlib.contextmanager
def instrumented(sim: Any, R: Recorder) -> Iterator[None]:
    from kopf._cogs.aiokits import aioenums, aiotime
    from kopf._core.engines import daemons
    from kopf._core.reactor import processing
    from ..sim import runner

    o_Daemon, o_set = daemons.Daemon, aioenums.FlagSetter.set
    o_runner, o_sd, o_sdn, o_killer = daemons._runner, daemons.stop_daemons, daemons.stop_daemon, daemons.daemon_killer
    o_spawn, o_pause, o_psc, o_pre = daemons.spawn_daemons, daemons.pause_daemons, processing.process_spawning_cause, \
        processing.process_resource_event
    o_sleep = aiotime.sleep

    def snap_stopper(st: Any) -> dict:
        return {"reasons": _names(st.reason), "when": _ticks(st.when)}

    def Daemon(**kw: Any) -> Any:
        R.n_sid += 1
        ctxinfo = R.spawn_ctx or {}
        rec = {"sid": R.n_sid, "hid": str(kw["handler"].id), "uid": ctxinfo.get("uid"), "stopper": kw["stopper"]}
        R.by_stopper[id(kw["stopper"])] = rec
        R.by_event[id(kw["stopper"].async_event)] = rec
        R.keep.append(kw["stopper"])
        kw["task"] = TaskProxy(kw["task"], rec, R)
        R.log("spawn", sid=rec["sid"], hid=rec["hid"], uid=rec["uid"], cyc=ctxinfo.get("cyc"))
        return o_Daemon(**kw)

    def fset(self: Any, reason: Any = None) -> None:
        rec = R.by_stopper.get(id(self))
        prior = _names(self.reason) if rec is not None else None
        o_set(self, reason)
        if rec is not None:
            R.log("set", sid=rec["sid"], reason=_names(reason), prior=prior, site=sys._getframe(1).f_code.co_name,
                  lt=_ticks(asyncio.get_running_loop().time()), when=_ticks(self.when), cid=_cur_stop.get(), kid=_cur_kill.get())

    async def _runner(**kw: Any) -> None:
        rec = R.by_stopper.get(id(kw["cause"].stopper))
        sid = rec["sid"] if rec else None
        R.log("run0", sid=sid)
        hid, mem = kw["handler"].id, kw["memory"]
        try:
            await o_runner(**kw)
        finally:
            R.log("end", sid=sid, forever=hid in mem.forever_stopped, still_listed=hid in mem.running_daemons,
                  muted=R.muted())

    async def stop_daemons(**kw: Any) -> Any:
        R.n_cyc += 1
        cid = R.n_cyc
        snap = []
        for d in list(kw["daemons"].values()):
            rec = R.by_stopper.get(id(d.stopper))
            snap.append(rec["sid"] if rec else None)
        reason = kw.get("reason")
        R.log("sd0", cid=cid, cyc=(_cur_cyc.get() or {}).get("cyc"),
              reason=_names(reason) if reason is not None else ["RESOURCE_DELETED"], snap=snap,
              lt=_ticks(asyncio.get_running_loop().time()), site=sys._getframe(1).f_code.co_name)
        tok = _cur_stop.set(cid)
        try:
            out = await o_sd(**kw)
        finally:
            _cur_stop.reset(tok)
        R.log("sd1", cid=cid, delays=[_ticks(float(x)) for x in out], lt=_ticks(asyncio.get_running_loop().time()))
        return out

    async def stop_daemon(**kw: Any) -> None:
        R.n_k += 1
        kid = R.n_k
        rec = R.by_stopper.get(id(kw["daemon"].stopper))
        R.log("k0", kid=kid, sid=rec["sid"] if rec else None, reason=_names(kw["reason"]),
              lt=_ticks(asyncio.get_running_loop().time()), pre=snap_stopper(kw["daemon"].stopper))
        tok = _cur_kill.set(kid)
        try:
            await o_sdn(**kw)
        finally:
            _cur_kill.reset(tok)
            R.log("k1", kid=kid, lt=_ticks(asyncio.get_running_loop().time()))

    async def daemon_killer(**kw: Any) -> None:
        R.toggles[runner._incarnation.get()] = kw["operator_paused"]
        try:
            await o_killer(**kw)
        except Exception as e:  # noqa: BLE001  (CancelledError is the normal way out)
            import traceback
            tb = traceback.extract_tb(e.__traceback__)
            R.log("killer-error", error=type(e).__name__, msg=str(e)[:200],
                  where=[f"{os.path.basename(f.filename)}:{f.name}:{(f.line or '').strip()[:80]}" for f in tb[-2:]])
            raise

    async def pause_daemons(**kw: Any) -> Any:
        op = kw.get("operator_paused")
        R.log("pause?", cyc=(_cur_cyc.get() or {}).get("cyc"), on=bool(op is not None and op.is_on()))
        return await o_pause(**kw)

    def mem_snapshot(memory: Any, uid: str) -> dict:
        dm = memory.daemons_memory
        run = {}
        for hid, d in dm.running_daemons.items():
            rec = R.by_stopper.get(id(d.stopper))
            run[str(hid)] = {"sid": rec["sid"] if rec else None, **snap_stopper(d.stopper), "task_done": d.task._t.done()
                             if isinstance(d.task, TaskProxy) else d.task.done()}
        mems = _cur_mems.get()
        return {"running": run, "order": [str(k) for k in dm.running_daemons], "forever": sorted(map(str, dm.forever_stopped)),
                "known": (uid in mems._items) if mems is not None else None}

    async def process_spawning_cause(**kw: Any) -> Any:
        from kopf._cogs.structs import finalizers
        cause, memory, registry = kw["cause"], kw["memory"], kw["registry"]
        uid = cause.body.get("metadata", {}).get("uid") or ""
        if cause.resource.plural != sim.kex.plural or R.muted():
            return await o_psc(**kw)
        matching = [str(h.id) for h in registry._spawning.get_handlers(cause=cause, excluded=frozenset())]
        R.n_cyc += 1
        cyc = R.n_cyc
        R.log("cyc0", cyc=cyc, uid=uid, lt=_ticks(asyncio.get_running_loop().time()), etype=_cur_evt.get(),
              marked=bool(finalizers.is_deletion_ongoing(cause.body)), matching=matching, reset=bool(cause.reset),
              pre=mem_snapshot(memory, uid))
        R.spawn_ctx = None
        tok = _cur_cyc.set({"uid": uid, "cyc": cyc})
        try:
            out = await o_psc(**kw)
            R.log("cyc1", cyc=cyc, uid=uid, lt=_ticks(asyncio.get_running_loop().time()),
                  delays=sorted(_ticks(float(x)) for x in out), post=mem_snapshot(memory, uid))
            return out
        except BaseException as e:  # noqa: BLE001
            R.log("cyc-error", cyc=cyc, uid=uid, error=type(e).__name__, msg=str(e)[:200])
            raise
        finally:
            _cur_cyc.reset(tok)

    async def spawn_daemons(**kw: Any) -> Any:
        R.spawn_ctx = _cur_cyc.get()          # spawn_daemons has no awaits: a plain attribute is exact
        try:
            return await o_spawn(**kw)
        finally:
            R.spawn_ctx = None

    async def process_resource_event(**kw: Any) -> Any:
        tok = _cur_mems.set(kw.get("memories"))
        raw = kw.get("raw_event") or {}
        tok2 = _cur_evt.set(raw.get("type"))
        try:
            return await o_pre(**kw)
        finally:
            _cur_evt.reset(tok2)
            _cur_mems.reset(tok)

    spin = {"iter": -1, "n": 0}

    async def sleep(delays: Any, wakeup: Any = None) -> Any:
        loop = asyncio.get_running_loop()
        it0 = getattr(loop, "iterations", None)
        out = await o_sleep(delays, wakeup)
        wrec = R.by_event.get(id(wakeup)) if wakeup is not None else None
        if wrec is not None and wakeup.is_set() and not wrec.get("woken"):
            # a sleep of the instance's own wrapper (`_daemon` / `_timer`) has returned with the stop flag set: from now
            # on the wrapper KNOWS that it was asked to stop
            wrec["woken"] = True
            R.log("woken", sid=wrec["sid"], site=sys._getframe(1).f_code.co_name)
        if it0 is not None and loop.iterations == it0:          # returned without giving control to the loop
            if spin["iter"] == it0:
                spin["n"] += 1
                if spin["n"] > SPIN_LIMIT:
                    f = sys._getframe(1)
                    func, test = _while_test_at(f.f_code.co_filename, f.f_lineno)
                    info = {"func": func or f.f_code.co_name, "file": os.path.basename(f.f_code.co_filename), "line": f.f_lineno,
                            "loop_test": test, "n": spin["n"], "t": sim.now(),
                            "locals": {k: repr(v)[:80] for k, v in f.f_locals.items() if k in ("started", "handler", "delay")},
                            "tail": R.ev[-12:]}
                    sys.stderr.write("\n@@C09-SPIN " + json.dumps(info, default=repr) + "\n")
                    sys.stderr.flush()
                    os._exit(3)
            else:
                spin["iter"], spin["n"] = it0, 1
        return out

    from kopf._core.reactor import inventory
    o_iter = inventory.ResourceMemories.iter_all_daemon_memories

    def iter_all_daemon_memories(self: Any) -> Any:
        # called once per round of the daemon killer (and once on exit): what the sweep can see
        if sys._getframe(1).f_code.co_name == "daemon_killer" and not R.muted():
            listed = []
            for mem in self._items.values():
                for d in mem.daemons_memory.running_daemons.values():
                    rec = R.by_stopper.get(id(d.stopper))
                    if rec is not None:
                        listed.append({"sid": rec["sid"], "reasons": _names(d.stopper.reason)})
            # inside the killer's `finally:` (entered by the cancellation) an exception is being handled: the exit sweep
            R.log("sweep", lt=_ticks(asyncio.get_running_loop().time()), listed=listed, final=sys.exc_info()[0] is not None)
        return o_iter(self)

    inventory.ResourceMemories.iter_all_daemon_memories = iter_all_daemon_memories  # type: ignore[assignment]
    daemons.Daemon = Daemon  # type: ignore[assignment,misc]
    aioenums.FlagSetter.set = fset  # type: ignore[assignment]
    daemons._runner = _runner  # type: ignore[assignment]
    daemons.stop_daemons = stop_daemons  # type: ignore[assignment]
    daemons.stop_daemon = stop_daemon  # type: ignore[assignment]
    daemons.daemon_killer = daemon_killer  # type: ignore[assignment]
    daemons.spawn_daemons = spawn_daemons  # type: ignore[assignment]
    daemons.pause_daemons = pause_daemons  # type: ignore[assignment]
    processing.process_spawning_cause = process_spawning_cause  # type: ignore[assignment]
    processing.process_resource_event = process_resource_event  # type: ignore[assignment]
    aiotime.sleep = sleep  # type: ignore[assignment]
    try:
        yield
    finally:
        inventory.ResourceMemories.iter_all_daemon_memories = o_iter  # type: ignore[assignment]
        daemons.Daemon = o_Daemon  # type: ignore[misc]
        aioenums.FlagSetter.set = o_set  # type: ignore[assignment]
        daemons._runner = o_runner
        daemons.stop_daemons = o_sd
        daemons.stop_daemon = o_sdn
        daemons.daemon_killer = o_killer
        daemons.spawn_daemons = o_spawn
        daemons.pause_daemons = o_pause
        processing.process_spawning_cause = o_psc
        processing.process_resource_event = o_pre
        aiotime.sleep = o_sleep


_cur_cyc: contextvars.ContextVar[dict | None] = contextvars.ContextVar("c09_cyc", default=None)
_cur_evt: contextvars.ContextVar[Any] = contextvars.ContextVar("c09_evt", default=None)


def make_sim(sc: dict) -> Any:
    from ..sim import scenario

    class C09Sim(scenario.Sim):
        def __init__(self, sc: dict):
            super().__init__(sc)
            self.rec = Recorder(self)
            self.registry = scenario.build_registry(sc, self.rec)   # own daemon/timer functions

        def apply_op(self, op: list) -> None:
            if op[0] in ("pause", "resume"):
                name = op[1] if len(op) > 1 else "op"
                o = self.ops.get(name)
                if o is not None and o.alive and not o.killed and o.n in self.rec.toggles:
                    asyncio.ensure_future(self._toggle(o.n, op[0] == "pause"))
                    self.mark(op[0], op=name, inc=o.n)
                else:
                    self.mark(op[0] + "-noop", op=name)
                return
            super().apply_op(op)

        async def _toggle(self, inc: int, on: bool) -> None:
            ts = self.rec.toggles[inc]
            tog = self.rec.pause_toggle.get(inc)
            if tog is None:
                self.rec.pause_toggle[inc] = await ts.make_toggle(on, name="verif-pause")
            else:
                await tog.turn_to(on)
            self.rec.log("paused" if on else "resumed", target=inc)

        async def run(self) -> dict:
            tr = await super().run()
            return tr

    return C09Sim(sc)


def run_scenario(sc: dict, wall_limit: float = 60.0) -> dict:
    """Entry point inside the pool's worker (scenario key "runner")."""
    from ..sim import observe, simloop
    if not all(simloop.dyadic(e[0]) for e in sc.get("timeline", [])):
        raise ValueError("non-dyadic time in the scenario")
    holder: dict[str, Any] = {}

    async def main() -> dict:
        sim = make_sim(copy.deepcopy(sc))
        holder["sim"] = sim
        with observe.installed(sim.obs), instrumented(sim, sim.rec):
            alive_probe = asyncio.ensure_future(_probe_alive(sim, float(sc.get("end", 60.0))))
            tr = await sim.run()
            alive_probe.cancel()
            return tr

    try:
        tr = simloop.run_sim(main, wall_limit=wall_limit)
    except (simloop.SimDeadlock, simloop.SimStall) as e:
        sim = holder.get("sim")
        tr = sim.obs.trace() if sim is not None else {}
        tr["sim_error"] = f"{type(e).__name__}: {e}"
    sim = holder.get("sim")
    if sim is not None:
        slim = {"marks": tr.get("marks"), "incarnations": tr.get("incarnations"), "sim_error": tr.get("sim_error"),
                "history": {k: [{"t": v["t"], "event": v["event"], "meta": _slim_meta(v["body"])} for v in vs]
                            for k, vs in (tr.get("history") or {}).items()},
                "ev": [{k: v for k, v in e.items()} for e in sim.rec.ev], "calls": sim.rec.calls,
                "damped_calls": sim.rec.damped,
                "cycle_errors": [{"i": c["i"], "error": c["error"], "t": c["t0"]} for c in tr.get("cycles", []) if c.get("error")],
                }
        return json.loads(json.dumps(slim, default=repr))
    return tr


def _slim_meta(body: dict) -> dict:
    m = body.get("metadata", {})
    return {"uid": m.get("uid"), "name": m.get("name"), "labels": m.get("labels") or {},
            "deletionTimestamp": m.get("deletionTimestamp"), "finalizers": m.get("finalizers") or []}


async def _probe_alive(sim: Any, end: float) -> None:
    await sim.sleep_until(end - 1.0 / 64)
    sim.mark("alive?", alive={n: bool(o.alive) for n, o in sim.ops.items() if not o.killed})


# =================================================================================================
#  Part 2 — generator
# =================================================================================================
BACKOFFS = [None, None, 0, 0.5, 6.0]
TIMEOUTS = [None, None, 0, 1.0, 8.0]
TIMER_CFGS = ["interval", "interval", "interval", "sharp", "both", "both", "idle", "neither", "neither"]


def gen_pause_scenario(rng: Any, seed: int) -> dict:
    """The #1266 interleaving: an event is still processed when the operator is already paused (pause toggled at the very
    instant of an object's creation / of a label edit that makes a daemon match), 2-3 daemons per object that need
    cancellation, pauses long enough for every stage. Daemons spawned by such a cycle get their flag from
    `pause_daemons`; only the killer's rounds can take them through cancellation and abandonment."""
    handlers: list[dict] = []
    for k in range(rng.choice([2, 2, 3])):
        opts: dict[str, Any] = {}
        b, t = rng.choice([None, 0, 0.5, 0.5, 1.5]), rng.choice([None, 0, 0.5, 1.0, 1.0, 2.0])
        if b is not None:
            opts["cancellation_backoff"] = b
        if t is not None:
            opts["cancellation_timeout"] = t
        if k > 0 and rng.random() < 0.5:
            opts["labels"] = {"on": "1"}
        handlers.append({"kind": "daemon", "id": f"d{k}", "opts": opts,
                         "daemon": {"mode": rng.choice(["cancel", "cancel", "ignore", "ignore", "obey"]), "after": 2.0}})
    if rng.random() < 0.3:
        handlers.append({"kind": "timer", "id": "t9", "opts": {"interval": 1.0}, "tcfg": "interval"})
    if rng.random() < 0.4:
        handlers.append({"kind": "create", "id": "c1"})
    t = 1.0
    lab = rng.choice(["0", "0", "1"])
    mk = lambda v: {"spec": {"x": 0}, "metadata": {"labels": {"on": v}}}  # noqa: E731
    tl: list[list] = []
    first = rng.choice(["with-create", "later", "later"])
    if first == "with-create":
        ops = [[t, "pause"], [t, "create", "a", mk(lab)]]
        rng.shuffle(ops)
        tl += ops
        t += rng.choice([4.0, 6.0, 9.0])
        tl.append([t, "resume"])
    else:
        tl.append([t, "create", "a", mk(lab)])
    for n in range(rng.choice([1, 1, 2])):
        t += rng.choice([0.5, 2.0, 3.0])
        kind = rng.choice(["label", "label", "newobj", "spec"])
        eps = rng.choice([0, 0, 0, 1.0 / 64])
        if kind == "label":
            lab = "1" if lab != "1" else "0"
            ops = [[t, "edit", "a", {"metadata": {"labels": {"on": lab}}}], [t + eps, "pause"]]
        elif kind == "newobj":
            ops = [[t, "create", f"n{n}", mk("1")], [t + eps, "pause"]]
        else:
            ops = [[t, "edit", "a", {"spec": {"x": n + 1}}], [t + eps, "pause"]]
        if eps == 0:
            rng.shuffle(ops)
        tl += ops
        t += eps + rng.choice([4.0, 6.0, 9.0])
        tl.append([t, "resume"])
    return {"runner": RUNNER, "seed": seed, "handlers": handlers, "timeline": tl, "end": t + rng.choice([3.0, 6.0]),
            "settings": {}, "flavour": "pause-sneak"}


def gen_deletion_scenario(rng: Any, seed: int) -> dict:
    """Staged termination on deletion, with extra events for the object while the framework sleeps between two stages
    (a foreign edit wakes the worker: `stop_daemons` visits the same stage a second time). 1-2 daemons that do not exit
    on the flag alone, cancellation_timeout set, edits placed inside the backoff window, inside the cancellation
    window and around the stage boundaries."""
    handlers: list[dict] = []
    for k in range(rng.choice([1, 1, 2])):
        b, t = rng.choice([None, 0, 0.5, 1.0]), rng.choice([1.0, 2.0, 4.0])
        opts: dict[str, Any] = {"cancellation_timeout": t}
        if b is not None:
            opts["cancellation_backoff"] = b
        handlers.append({"kind": "daemon", "id": f"d{k}", "opts": opts,
                         "daemon": {"mode": rng.choice(["ignore", "ignore", "cancel"]), "after": 2.0}})
    if rng.random() < 0.4:
        handlers.append({"kind": "create", "id": "c1"})
    b0 = float(handlers[0]["opts"].get("cancellation_backoff") or 0)
    t0 = float(handlers[0]["opts"]["cancellation_timeout"])
    t = 1.0
    tl: list[list] = [[t, "create", "a", {"spec": {"x": 0}, "metadata": {"labels": {"on": "1"}}}]]
    t += rng.choice([1.0, 2.0, 3.5])
    tl.append([t, "delete", "a"])
    offs = sorted({rng.choice([b0 / 2, b0, b0 + 1.0 / 64, b0 + t0 / 4, b0 + t0 / 2, b0 + t0 - 1.0 / 64, b0 + t0, b0 + t0 + 0.5])
                   for _ in range(rng.choice([1, 2, 3]))})
    for n, off in enumerate(offs):
        off = round(off * 64) / 64
        tl.append([t + off, "edit", "a", rng.choice([{"spec": {"x": n + 1}}, {"metadata": {"labels": {"poke": str(n)}}},
                                                      {"metadata": {"annotations": {"poke": str(n)}}}])])
    return {"runner": RUNNER, "seed": seed, "handlers": handlers, "timeline": tl, "end": t + b0 + t0 + rng.choice([3.0, 6.0]),
            "settings": {}, "flavour": "deletion-poke"}


def gen_exit_race_scenario(rng: Any, seed: int) -> dict:
    """A still-matching daemon exits on its own within the few zero-time loop cycles in which the same processing
    cycle stops a sibling that has just stopped matching (`_wait_for_instant_exit`): the label edit lands at the
    very instant the daemon's own sleep ends, and the daemon takes `lag` more zero-time steps to return."""
    after = rng.choice([0.5, 2.0, 3.0])
    handlers: list[dict] = [{"kind": "daemon", "id": "d0", "opts": {},
                             "daemon": {"mode": "exit", "after": after, "lag": rng.choice([2, 4, 6, 8, 10, 12, 14, 16, 20])}}]
    for k in range(1, rng.choice([2, 2, 3])):
        opts: dict[str, Any] = {"labels": {"on": "1"}}
        if rng.random() < 0.5:
            opts["cancellation_backoff"] = rng.choice([0.5, 1.0])
        if rng.random() < 0.5:
            opts["cancellation_timeout"] = rng.choice([1.0, 2.0])
        handlers.append({"kind": "daemon", "id": f"d{k}", "opts": opts,
                         "daemon": {"mode": rng.choice(["cancel", "obey", "ignore"]), "after": 2.0}})
    if rng.random() < 0.3:
        handlers.append({"kind": "timer", "id": "t9", "opts": {"interval": 1.0, "labels": {"on": "1"}}, "tcfg": "interval"})
    t = 1.0
    tl: list[list] = [[t, "create", "a", {"spec": {"x": 0}, "metadata": {"labels": {"on": "1"}}}],
                      [t + after, "edit", "a", {"metadata": {"labels": {"on": rng.choice(["0", None])}}}]]
    t += after
    for n in range(rng.choice([1, 2])):
        t += rng.choice([0.5, 1.0, 2.0])
        tl.append([t, "edit", "a", rng.choice([{"spec": {"x": n + 1}}, {"metadata": {"labels": {"on": "1"}}}])])
    return {"runner": RUNNER, "seed": seed, "handlers": handlers, "timeline": tl, "end": t + rng.choice([3.0, 6.0]),
            "settings": {}, "flavour": "exit-race"}


def gen_exit_depletion_scenario(rng: Any, seed: int) -> dict:
    """The operator is asked to stop while a change handler of the object is in flight and more events of the object
    are queued behind it: the watchers deplete their queues AFTER the daemon killer's exit sweep, so the worker still
    runs `process_spawning_cause` for an object whose daemons have just been stopped (or were never started)."""
    handlers: list[dict] = []
    for k in range(rng.choice([1, 1, 2])):
        opts: dict[str, Any] = {}
        if rng.random() < 0.5:
            opts["cancellation_timeout"] = rng.choice([0.5, 1.0])
        if rng.random() < 0.3:
            opts["cancellation_backoff"] = 0.5
        handlers.append({"kind": rng.choice(["daemon", "daemon", "timer"]), "id": f"x{k}", "opts": opts})
        if handlers[-1]["kind"] == "daemon":
            handlers[-1]["daemon"] = {"mode": rng.choice(["obey", "cancel", "obey"]), "after": 2.0}
        else:
            handlers[-1]["opts"] = {"interval": 1.0}
            handlers[-1]["tcfg"] = "interval"
    dur = rng.choice([1.0, 1.5, 2.5])
    handlers += [{"kind": "create", "id": "c1"}, {"kind": "update", "id": "u1", "default": ["sleep", dur, "ok"]}]
    t = rng.choice([3.0, 4.0, 6.0])
    tl: list[list] = [[1.0, "create", "a", {"spec": {"x": 0}}],
                      [t - 0.5, "edit", "a", {"spec": {"x": 1}}]]
    if rng.random() < 0.8:
        tl.append([t - 0.25, "edit", "a", {"spec": {"x": 2}}])
    if rng.random() < 0.3:
        tl.append([t - 1.0 / 64, "create", "b", {"spec": {"x": 0}}])
    tl.append([t, "stop"])
    tl.append([t + 12.0, "start"])
    return {"runner": RUNNER, "seed": seed, "handlers": handlers, "timeline": tl, "end": t + 16.0, "settings": {},
            "flavour": "exit-depletion"}


def gen_exit_idle_scenario(rng: Any, seed: int) -> dict:
    """The operator is asked to stop while an object it KNOWS has no instance at all (its memory is idle when the daemon
    killer does its final sweep): it never matched the daemons' filters, or it stopped matching and its instances have
    ended, or its only instance has exited on its own. An event by which a daemon / timer (newly) matches is in the
    worker's backlog — queued behind a change handler in flight, or landing in the very instant of the stop request (or
    1/64 s before / after it) — and is processed AFTER the sweep. Nothing may be started then (nobody is left to stop it).
    Optionally a second object of the same kind that is busy all the time (a mixed inventory: busy and idle memories),
    or a second idle one."""
    handlers: list[dict] = []
    for k in range(rng.choice([1, 1, 2])):
        opts: dict[str, Any] = {"labels": {"on": rng.choice(["1", "1", "__PRESENT__"])}}
        if rng.random() < 0.65:
            if rng.random() < 0.5:
                opts["cancellation_timeout"] = rng.choice([0.5, 1.0])
            if rng.random() < 0.3:
                opts["cancellation_backoff"] = 0.5
            handlers.append({"kind": "daemon", "id": f"d{k}", "opts": opts,
                             "daemon": {"mode": rng.choice(["obey", "obey", "cancel", "ignore"]), "after": 2.0}})
            if handlers[-1]["daemon"]["mode"] != "obey":
                opts.setdefault("cancellation_timeout", 0.5)      # so that a mismatch before the exit ends it in time
        else:
            opts["interval"] = rng.choice([1.0, 2.5])
            handlers.append({"kind": "timer", "id": f"t{k}", "opts": opts, "tcfg": "interval"})
    if rng.random() < 0.3:      # an unfiltered daemon that exits on its own early: remembered for ever, the memory is idle again
        handlers.append({"kind": "daemon", "id": "d8", "opts": {}, "daemon": {"mode": "exit", "after": rng.choice([0.5, 1.0])}})
    dur = rng.choice([1.0, 1.5, 2.5])
    # (the slow change handler reacts to the spec only: the label edits of the history before the exit must not keep the
    # object's worker busy while a mismatching instance is taken through its stages — that is another subject)
    handlers += [{"kind": "create", "id": "c1"}, {"kind": "update", "id": "u1", "opts": {"field": "spec"}, "default": ["sleep", dur, "ok"]}]
    present = any(h.get("opts", {}).get("labels", {}).get("on") == "__PRESENT__" for h in handlers)
    off = None if present else rng.choice(["0", None])           # a value by which NO daemon/timer matches
    lab0 = {} if off is None else {"on": off}
    t = rng.choice([5.0, 6.0, 8.0])
    tl: list[list] = []
    past = rng.choice(["never", "never", "was", "was", "twice"])
    if past == "never":
        tl.append([1.0, "create", "a", {"spec": {"x": 0}, "metadata": {"labels": dict(lab0)}}])
    else:
        tl.append([1.0, "create", "a", {"spec": {"x": 0}, "metadata": {"labels": {"on": "1"}}}])
        tl.append([rng.choice([1.5, 2.0]), "edit", "a", {"metadata": {"labels": {"on": off}}}])
        if past == "twice":
            tl.append([2.5, "edit", "a", {"metadata": {"labels": {"on": "1"}}}])
            tl.append([3.0, "edit", "a", {"metadata": {"labels": {"on": off}}}])
    other = rng.choice([None, None, "busy", "busy", "idle"])
    if other is not None:
        tl.append([rng.choice([1.0, 2.0]), "create", "b", {"spec": {"x": 0}, "metadata": {"labels": {"on": "1"} if other == "busy" else dict(lab0)}}])
    how = rng.choice(["queued", "queued", "queued", "instant", "both"])
    wake = {"metadata": {"labels": {"on": "1"}}}
    if how in ("queued", "both"):
        tl.append([t - rng.choice([0.5, 0.75]), "edit", "a", {"spec": {"x": 1}}])        # the update handler is in flight at the stop
        tl.append([t - rng.choice([0.25, 1.0 / 64, 2.0 / 64]), "edit", "a", wake])
        if how == "both" and other == "idle":
            tl.append([t + rng.choice([0, 1.0 / 64]), "edit", "b", wake])
    else:
        tl.append([t + rng.choice([-2.0 / 64, -1.0 / 64, 0, 0, 1.0 / 64]), "edit", rng.choice(["a", "a", "b"]) if other == "idle" else "a", wake])
    if rng.random() < 0.25:      # an object seen for the first time around the sweep: its new memory must inherit the mark
        tl.append([t + rng.choice([-1.0 / 64, 0, 0, 1.0 / 64]), "create", "n", {"spec": {"x": 0}, "metadata": {"labels": {"on": "1"}}}])
    stop_ev = [t, "stop"]
    same = [e for e in tl if e[0] == t]
    tl.append(stop_ev)
    if same and rng.random() < 0.5:       # at the very instant: either order of the two requests
        tl.remove(same[0])
        tl.append(same[0])
    tl.sort(key=lambda e: e[0])
    tl.append([t + 12.0, "start"])
    return {"runner": RUNNER, "seed": seed, "handlers": handlers, "timeline": tl, "end": t + 16.0, "settings": {},
            "flavour": "exit-idle"}


def gen_asleep_scenario(rng: Any, seed: int) -> dict:
    """The instance is asked to stop while its own wrapper sleeps: a timer waiting for the object to become idle, between
    two runs, in its initial delay or between two retries; a daemon in its initial delay or between two retries. The stop
    comes through every channel (deletion mark, forced disappearance, mismatch, pause, exit) at a moment strictly inside
    the sleep. Nothing of the user's code runs then: the wrapper alone has to obey the flag — return at once, and not
    call the function again."""
    handlers: list[dict] = []
    naps: list[float] = []           # how long the longest sleeps are
    for k in range(rng.choice([1, 1, 2])):
        opts: dict[str, Any] = {}
        if rng.random() < 0.4:
            opts["labels"] = {"on": "1"}
        kind = rng.choice(["idle", "idle", "both", "interval", "timer-delay", "timer-retry", "daemon-delay", "daemon-delay", "daemon-retry"])
        if kind in ("idle", "both", "interval", "timer-delay", "timer-retry"):
            nap = rng.choice([2.0, 3.0, 5.0])
            if kind in ("idle", "both"):
                opts["idle"] = nap
            if kind in ("both", "interval", "timer-delay", "timer-retry"):
                opts["interval"] = nap if kind == "interval" else rng.choice([1.0, 2.5])
            if kind == "timer-delay":
                opts["initial_delay"] = nap
            h: dict[str, Any] = {"kind": "timer", "id": f"t{k}", "opts": opts,
                                 "tcfg": {"idle": "idle", "both": "both"}.get(kind, "interval")}
            if kind == "timer-retry":
                h["default"] = ["temp", nap]
                if rng.random() < 0.5:
                    h["noawait"] = True
        else:
            nap = rng.choice([2.0, 4.0, 6.0])
            if rng.random() < 0.4:
                opts["cancellation_timeout"] = rng.choice([0.5, 8.0])
            if rng.random() < 0.3:
                opts["cancellation_backoff"] = rng.choice([0.5, 6.0])
            if kind == "daemon-delay":
                opts["initial_delay"] = nap
                h = {"kind": "daemon", "id": f"d{k}", "opts": opts,
                     "daemon": {"mode": rng.choice(["obey", "cancel", "exit"]), "after": 2.0}}
            else:
                h = {"kind": "daemon", "id": f"d{k}", "opts": opts, "daemon": {"mode": "retry", "delay": nap}}
        naps.append(nap)
        handlers.append(h)
    if rng.random() < 0.3:
        handlers.append({"kind": "create", "id": "c1"})
    t = 1.0
    tl: list[list] = [[t, "create", "a", {"spec": {"x": 0}, "metadata": {"labels": {"on": "1"}}}]]
    nap = max(naps)
    for n in range(rng.choice([1, 1, 2])):
        # strictly inside a sleep that began at (or a little after) the previous point of the timeline
        t += rng.choice([0.25, 0.5, 1.0, nap / 2, nap - 0.5])
        how = rng.choice(["delete", "force", "label", "label", "pause", "stop", "spec+delete"])
        if how == "delete":
            tl.append([t, "delete", "a"])
            break
        if how == "force":
            tl.append([t, "force_delete", "a"])
            break
        if how == "spec+delete":      # an essential change restarts the idling; then the mark
            tl.append([t, "edit", "a", {"spec": {"x": n + 1}}])
            t += rng.choice([0.5, 1.0])
            tl.append([t, "delete", "a"])
            break
        if how == "label":
            tl.append([t, "edit", "a", {"metadata": {"labels": {"on": "0"}}}])
            t += rng.choice([2.0, 4.0])
            tl.append([t, "edit", "a", {"metadata": {"labels": {"on": "1"}}}])
        elif how == "pause":
            tl.append([t, "pause"])
            t += rng.choice([2.0, 4.0])
            tl.append([t, "resume"])
        else:
            tl.append([t, "stop"])
            t += rng.choice([2.0, 8.0])
            tl.append([t, "start"])
    return {"runner": RUNNER, "seed": seed, "handlers": handlers, "timeline": tl, "end": t + nap + rng.choice([2.0, 4.0]),
            "settings": {}, "flavour": "asleep"}


def gen_rematch_scenario(rng: Any, seed: int) -> dict:
    """Staged termination after a filter mismatch: 1-2 daemons that do not exit on the flag alone (or exit late), with a
    cancellation timeout; the object stays mismatching through all the stages (with foreign edits inside the windows,
    as in the deletion flavour), or matches again while the instance is still stopping, or after it has ended."""
    handlers: list[dict] = []
    for k in range(rng.choice([1, 1, 2])):
        b, tmo = rng.choice([None, 0, 0.5, 1.0, 1.5]), rng.choice([None, 0.5, 1.0, 2.0, 2.0])
        opts: dict[str, Any] = {"labels": {"on": "1"}}
        if tmo is not None:
            opts["cancellation_timeout"] = tmo
        if b is not None:
            opts["cancellation_backoff"] = b
        mode = rng.choice(["ignore", "cancel", "cancel", "exit"])
        handlers.append({"kind": "daemon", "id": f"d{k}", "opts": opts,
                         "daemon": {"mode": mode, "after": rng.choice([2.5, 3.0, 4.5])}})
    if rng.random() < 0.3:
        handlers.append({"kind": "daemon", "id": "d9", "opts": {}, "daemon": {"mode": "obey"}})     # keeps the finalizer on
    if rng.random() < 0.3:
        handlers.append({"kind": "create", "id": "c1"})
    b0 = float(handlers[0]["opts"].get("cancellation_backoff") or 0)
    t0 = float(handlers[0]["opts"].get("cancellation_timeout") or 0)
    t = 1.0
    tl: list[list] = [[t, "create", "a", {"spec": {"x": 0}, "metadata": {"labels": {"on": "1"}}}]]
    t += rng.choice([1.0, 2.0])
    tl.append([t, "edit", "a", {"metadata": {"labels": {"on": rng.choice(["0", None])}}}])
    plan = rng.choice(["stay", "stay", "rematch-inside", "rematch-inside", "rematch-after"])
    if plan == "stay":
        offs = sorted({rng.choice([b0 / 2, b0, b0 + 1.0 / 64, b0 + t0 / 2, b0 + t0 - 1.0 / 64, b0 + t0 + 0.5])
                       for _ in range(rng.choice([0, 1, 2]))})
        for n, off in enumerate(offs):
            off = round(off * 64) / 64
            if off > 0:
                tl.append([t + off, "edit", "a", rng.choice([{"spec": {"x": n + 1}}, {"metadata": {"labels": {"poke": str(n)}}}])])
        t += b0 + t0
    elif plan == "rematch-inside":
        off = rng.choice([1.0 / 64, 0.25, max(b0 / 2, 0.25), b0 + 0.25, b0 + max(t0 / 2, 0.25)])
        t += round(off * 64) / 64
        tl.append([t, "edit", "a", {"metadata": {"labels": {"on": "1"}}}])
        t += b0 + t0
    else:
        t += b0 + t0 + rng.choice([1.5, 3.0])
        tl.append([t, "edit", "a", {"metadata": {"labels": {"on": "1"}}}])
    if rng.random() < 0.3:
        t += rng.choice([2.0, 4.0])
        tl.append([t, "edit", "a", {"spec": {"x": 9}}])
    settings: dict[str, Any] = {}
    tail = rng.choice([4.0, 7.0])
    if rng.random() < 0.5:
        # a short re-check period and a history long enough to see the deferred start made up for (O15), also for the
        # instances that end late by themselves ("exit", after 2.5-4.5 s) or only when abandoned ("ignore")
        poll = rng.choice([1.0, 2.0, 2.0])
        if rng.random() < 0.5:
            settings["background.cancellation_polling"] = poll
        else:
            for h in handlers:
                if h["kind"] == "daemon" and h["id"] != "d9":
                    h["opts"]["cancellation_polling"] = poll
        tail = poll + rng.choice([6.0, 9.0])
    return {"runner": RUNNER, "seed": seed, "handlers": handlers, "timeline": tl, "end": t + tail,
            "settings": settings, "flavour": "rematch"}


def gen_repause_scenario(rng: Any, seed: int) -> dict:
    """The pause path of the deferred start: a daemon / timer that is slow to end is flagged by the killer when the operator
    pauses and is STILL THERE when the operator resumes (the re-listing's cycle cannot start anything: the id is taken); it
    ends later. The start has to be made up for by the re-check that `spawn_daemons` asks for (cancellation_polling)."""
    handlers: list[dict] = []
    poll = rng.choice([1.0, 2.0, 2.0, 3.0])
    for k in range(rng.choice([1, 1, 2])):
        if rng.random() < 0.75:
            opts: dict[str, Any] = {}
            b, tmo = rng.choice([None, None, 0.5, 2.0]), rng.choice([None, None, 1.0, 3.0])
            if b is not None:
                opts["cancellation_backoff"] = b
            if tmo is not None:
                opts["cancellation_timeout"] = tmo
            if rng.random() < 0.4:
                opts["cancellation_polling"] = poll
            if rng.random() < 0.3:
                opts["labels"] = {"on": "1"}
            handlers.append({"kind": "daemon", "id": f"d{k}", "opts": opts,
                             "daemon": {"mode": rng.choice(["exit", "exit", "ignore", "cancel"]), "after": rng.choice([3.0, 5.0, 6.5])}})
        else:
            handlers.append({"kind": "timer", "id": f"t{k}", "opts": {"interval": rng.choice([1.0, 2.5])}, "tcfg": "interval",
                             "dur": rng.choice([2.0, 4.0])})
    if rng.random() < 0.3:
        handlers.append({"kind": "create", "id": "c1"})
    t = 1.0
    tl: list[list] = [[t, "create", "a", {"spec": {"x": 0}, "metadata": {"labels": {"on": "1"}}}]]
    t += rng.choice([0.5, 1.0, 2.0])
    tl.append([t, "pause"])
    t += rng.choice([0.25, 0.5, 1.0, 1.5, 2.5])
    tl.append([t, "resume"])
    if rng.random() < 0.3:
        t += rng.choice([0.5, 1.5])
        tl.append([t, "edit", "a", {"spec": {"x": 1}}])
    if rng.random() < 0.2:                      # a second, short pause while the first stop is still going on
        t += rng.choice([0.5, 1.0])
        tl.append([t, "pause"])
        t += rng.choice([0.5, 1.0])
        tl.append([t, "resume"])
    return {"runner": RUNNER, "seed": seed, "handlers": handlers, "timeline": tl, "end": t + 8.0 + poll + rng.choice([2.0, 5.0]),
            "settings": {"background.cancellation_polling": poll}, "flavour": "repause"}


def gen_exit_flagged_scenario(rng: Any, seed: int) -> dict:
    """The operator is asked to stop while a daemon is ALREADY being stopped for another reason (mismatch, deletion mark)
    and is still in an early stage of it (long backoff, or no timeout: polled): the exit sweep has to take it through the
    stages like any other daemon — the cycles that were to do it will not come any more."""
    handlers: list[dict] = []
    for k in range(rng.choice([1, 2])):
        opts: dict[str, Any] = {"labels": {"on": "1"}, "cancellation_timeout": rng.choice([0.5, 1.0, 2.0])}
        opts["cancellation_backoff"] = rng.choice([1.0, 3.0, 6.0])
        handlers.append({"kind": "daemon", "id": f"d{k}", "opts": opts,
                         "daemon": {"mode": rng.choice(["cancel", "cancel", "ignore"]), "after": 2.0}})
    if rng.random() < 0.5:
        handlers.append({"kind": "daemon", "id": "d9", "opts": {}, "daemon": {"mode": "obey"}})
    t = 1.0
    tl: list[list] = [[t, "create", "a", {"spec": {"x": 0}, "metadata": {"labels": {"on": "1"}}}]]
    t += rng.choice([1.0, 2.0])
    tl.append([t, "edit", "a", {"metadata": {"labels": {"on": "0"}}}] if rng.random() < 0.6 else [t, "delete", "a"])
    t += rng.choice([1.0 / 64, 0.25, 0.5, 0.75])
    tl.append([t, "stop"])
    tl.append([t + 14.0, "start"])
    return {"runner": RUNNER, "seed": seed, "handlers": handlers, "timeline": tl, "end": t + 18.0, "settings": {},
            "flavour": "exit-flagged"}


def gen_scenario(rng: Any, seed: int) -> dict:
    sc = _gen_scenario(rng, seed)
    # `settings.background.instant_exit_timeout` (no test of kopf sets it): time passes INSIDE stop_daemons / stop_daemon.
    # The Lean model is about the default (None: see ASSUMPTIONS): these histories are judged by the oracle alone.
    if rng.random() < 0.08 and not any(h.get("noawait") or h.get("daemon", {}).get("mode") == "retry" for h in sc["handlers"]):
        sc["settings"] = {**sc.get("settings", {}), "background.instant_exit_timeout": rng.choice([1.0 / 8, 1.0 / 8, 1.0 / 64])}
        sc["oracle_only"] = True
    return sc


def _gen_scenario(rng: Any, seed: int) -> dict:
    r = rng.random()
    if r < 0.06:
        return gen_exit_depletion_scenario(rng, seed)
    if r < 0.13:
        return gen_exit_idle_scenario(rng, seed)
    r = (r - 0.13) / 0.87
    if r < 0.10:
        return gen_asleep_scenario(rng, seed)
    if r < 0.18:
        return gen_rematch_scenario(rng, seed)
    if r < 0.22:
        return gen_exit_flagged_scenario(rng, seed)
    if r < 0.26:
        return gen_repause_scenario(rng, seed)
    r = (r - 0.26) / 0.74
    if r < 0.2:
        return gen_pause_scenario(rng, seed)
    if r < 0.3:
        return gen_deletion_scenario(rng, seed)
    if r < 0.38:
        return gen_exit_race_scenario(rng, seed)
    handlers: list[dict] = []
    for k in range(rng.choice([1, 1, 2, 2, 3])):
        opts: dict[str, Any] = {}
        if rng.random() < 0.35:
            opts["labels"] = {"on": rng.choice(["1", "1", "__PRESENT__"])}
        if rng.random() < 0.55:
            b, t = rng.choice(BACKOFFS), rng.choice(TIMEOUTS)
            if b is not None:
                opts["cancellation_backoff"] = b
            if t is not None:
                opts["cancellation_timeout"] = t
            if rng.random() < 0.2:
                opts["cancellation_polling"] = 2.0
            h = {"kind": "daemon", "id": f"d{k}", "opts": opts,
                 "daemon": {"mode": rng.choice(["obey", "obey", "cancel", "cancel", "ignore", "exit"]),
                            "after": rng.choice([0.5, 2.0, 5.0])}}
            if rng.random() < 0.06:       # never awaits, asks to be retried
                h["daemon"] = {"mode": "retry", "delay": rng.choice([0.5, 1.0, 1.0 / 64, 2.0, 0])}
            elif rng.random() < 0.12:
                opts["initial_delay"] = rng.choice([0.5, 2.0, 4.0])
        else:
            kind = rng.choice(TIMER_CFGS)
            if kind in ("interval", "sharp", "both"):
                opts["interval"] = rng.choice([1.0, 2.5])
            if kind == "sharp":
                opts["sharp"] = True
            if kind in ("idle", "both"):
                opts["idle"] = rng.choice([1.0, 3.0])
            if rng.random() < 0.25:
                opts["initial_delay"] = rng.choice([0.5, 2.0])
            h = {"kind": "timer", "id": f"t{k}", "opts": opts, "tcfg": kind}
            if rng.random() < 0.25:
                h["script"] = [rng.choice(["ok", "ok", ["temp", 1.0], "perm"]) for _ in range(3)]
            if rng.random() < 0.12:       # an async handler that never awaits: the run does not yield
                h["noawait"] = True
                h["default"] = rng.choice(["ok", "ok", ["temp", 0.5], ["temp", 1.0], ["temp", 1.0 / 64], ["temp", 0.25], ["temp", 2.0],
                                           ["temp", 0], ["temp", None]])
                h.pop("script", None)
        handlers.append(h)
    if rng.random() < 0.5:
        handlers.append({"kind": "create", "id": "c1"})
        if rng.random() < 0.5:
            handlers.append({"kind": "update", "id": "u1"})
    t = 1.0
    lab = rng.choice(["1", "1", "0", None])
    body: dict[str, Any] = {"spec": {"x": 0}}
    if lab is not None:
        body["metadata"] = {"labels": {"on": lab}}
    tl: list[list] = [[t, "create", "a", body]]
    alive_a, x = True, 0
    steps = [1.0 / 64, 0.25, 0.5, 1.0, 2.0, 3.5, 6.0]
    for _ in range(rng.choice([1, 2, 3, 4, 5])):
        t += rng.choice(steps)
        op = rng.choice(["label", "label", "spec", "delete", "force", "strip", "quick", "pause", "pause", "restart", "kill", "recreate"])
        if op == "label" and alive_a:
            lab = rng.choice([v for v in ["1", "0", None] if v != lab])
            tl.append([t, "edit", "a", {"metadata": {"labels": {"on": lab}}}])
        elif op == "spec" and alive_a:
            x += 1
            tl.append([t, "edit", "a", {"spec": {"x": x}}])
        elif op == "delete" and alive_a:
            tl.append([t, "delete", "a"])
            alive_a = False
        elif op == "force" and alive_a:
            tl.append([t, "force_delete", "a"])
            alive_a = False
        elif op == "strip" and alive_a:
            tl.append([t, "strip_own_finalizer", "a"])
            t += rng.choice([0, 1.0 / 64, 2.0 / 64])
            tl.append([t, "delete", "a"])
            alive_a = False
        elif op == "quick":
            tl.append([t, "create", "b", {"spec": {"x": 0}, "metadata": {"labels": {"on": "1"}}}])
            tl.append([t + rng.choice([0, 1.0 / 64, 2.0 / 64, 3.0 / 64]), "delete", "b"])
        elif op == "pause":
            tl.append([t, "pause"])
            if rng.random() < 0.35:      # something happens in the MIDDLE of the pause (no event reaches the operator then)
                t += rng.choice([0.25, 0.5, 1.5])
                mid = rng.choice(["label", "spec", "delete", "force", "stop", "kill"])
                if mid == "label" and alive_a:
                    lab = rng.choice([v for v in ["1", "0", None] if v != lab])
                    tl.append([t, "edit", "a", {"metadata": {"labels": {"on": lab}}}])
                elif mid == "spec" and alive_a:
                    x += 1
                    tl.append([t, "edit", "a", {"spec": {"x": x}}])
                elif mid == "delete" and alive_a:
                    tl.append([t, "delete", "a"])
                    alive_a = False
                elif mid == "force" and alive_a:
                    tl.append([t, "force_delete", "a"])
                    alive_a = False
                elif mid in ("stop", "kill"):
                    tl.append([t, mid])
                    t += rng.choice([0.5, 2.0, 10.0])
                    tl.append([t, "start"])
                    continue             # the new incarnation is not paused
            t += rng.choice([0.5, 1.5, 3.0, 7.0])
            tl.append([t, "resume"])
        elif op in ("restart", "kill"):
            tl.append([t, "stop" if op == "restart" else "kill"])
            t += rng.choice([0.5, 2.0, 10.0])
            tl.append([t, "start"])
        elif op == "recreate" and not alive_a:
            tl.append([t, "create", "a", {"spec": {"x": 0}, "metadata": {"labels": {"on": "1"}}}])
            alive_a, lab = True, "1"
    sc: dict[str, Any] = {"runner": RUNNER, "seed": seed, "handlers": handlers, "timeline": tl,
                          "end": t + rng.choice([4.0, 10.0, 20.0]), "settings": {}}
    if rng.random() < 0.3:
        sc["settings"]["background.cancellation_polling"] = 2.0
    return sc


def spawning_handlers(sc: dict) -> dict[str, dict]:
    return {h["id"]: h for h in sc.get("handlers", []) if h["kind"] in ("daemon", "timer")}


def cfg_of(sc: dict, h: dict) -> dict:
    """backoff/timeout/polling in ticks as the stopping logic reads them (timers: None/None)."""
    o = h.get("opts", {})
    # the default is read from the code under test (a changed default is no violation and no tie break)
    import kopf
    code_default = kopf.OperatorSettings().background.cancellation_polling
    default_poll = float(sc.get("settings", {}).get("background.cancellation_polling", code_default))
    if h["kind"] == "timer":
        return {"backoff": None, "timeout": None, "polling": _ticks(default_poll)}
    return {"backoff": _ticks(o.get("cancellation_backoff")), "timeout": _ticks(o.get("cancellation_timeout")),
            "polling": _ticks(float(o.get("cancellation_polling") or default_poll))}


# =================================================================================================
#  Part 3 — reading a trace: instances, and the requests of the (S) tie
# =================================================================================================
def instances(tr: dict) -> dict[int, dict]:
    inst: dict[int, dict] = {}
    for e in tr["ev"]:
        k = e["e"]
        if k == "spawn":
            inst[e["sid"]] = {"sid": e["sid"], "hid": e["hid"], "uid": e["uid"], "inc": e["inc"], "t_spawn": e["t"],
                              "seq_spawn": e["seq"], "t_start": None, "t_end": None, "seq_end": None, "sets": [],
                              "cancels": [], "own_exit": None, "end_forever": None, "muted": False, "woken_seq": None}
        elif k in ("run0", "end", "set", "cancel", "woken") and e.get("sid") in inst:
            i = inst[e["sid"]]
            if k == "run0":
                i["t_start"] = e["t"]
            elif k == "woken":
                if i["woken_seq"] is None:
                    i["woken_seq"], i["t_woken"] = e["seq"], e["t"]
            elif k == "set":
                i["sets"].append(e)
                if e["reason"] == ["DONE"] and e["site"] == "_runner":
                    i["own_exit"] = (e["prior"] == [])
                    i["final_reasons"] = e["prior"]
            elif k == "cancel":
                i["cancels"].append(e)
            elif k == "end":
                i["t_end"], i["seq_end"], i["end_forever"], i["muted"] = e["t"], e["seq"], e["forever"], e["muted"]
                i["still_listed"] = e["still_listed"]
    return inst


def _model_reasons(names: list[str]) -> list[str]:
    return sorted(R2L[n] for n in names)


def tie_requests(sc: dict, tr: dict) -> tuple[list, list, list, dict]:
    """→ (requests, impl outputs, where, stats) for every comparable cycle / killer run / exit."""
    ev = tr["ev"]
    inst = instances(tr)
    hs = spawning_handlers(sc)
    reqs: list = []
    impls: list = []
    where: list = []
    stats = {"cycles": 0, "skipped_concurrent": 0, "killer": 0, "killer_incomplete": 0, "exits": 0, "rounds": 0, "log_gaps": []}
    by_cyc: dict[int, list[dict]] = {}
    by_cid: dict[int, list[dict]] = {}
    by_kid: dict[int, list[dict]] = {}
    for e in ev:
        if e.get("cyc") is not None:
            by_cyc.setdefault(e["cyc"], []).append(e)
        if e.get("cid") is not None:
            by_cid.setdefault(e["cid"], []).append(e)
        if e.get("kid") is not None:
            by_kid.setdefault(e["kid"], []).append(e)
    # replayed stopper state per sid, for the completeness check of the log
    cur: dict[int, dict] = {}
    cancelled_before: dict[int, list[int]] = {}
    for e in ev:
        if e["e"] == "cancel":
            cancelled_before.setdefault(e["sid"], []).append(e["seq"])

    def was_cancelled(sid: int, seq: int) -> bool:
        return any(q < seq for q in cancelled_before.get(sid, []))

    def inst_json(d: dict | None, seq: int) -> dict | None:
        if d is None:
            return None
        return {"reasons": _model_reasons(d["reasons"]), "when": d["when"], "cancelled": was_cancelled(d["sid"], seq)}

    for e in ev:
        if e["e"] == "spawn":
            cur[e["sid"]] = {"reasons": [], "when": None}
        elif e["e"] == "set" and e["sid"] in cur:
            c = cur[e["sid"]]
            c["reasons"] = sorted(set(c["reasons"]) | set(e["reason"]))
            c["when"] = c["when"] if c["when"] is not None else e["lt"]
        elif e["e"] == "cyc0":
            for hid, d in e["pre"]["running"].items():
                c = cur.get(d["sid"])
                if c is None or sorted(c["reasons"]) != sorted(d["reasons"]) or c["when"] != d["when"]:
                    stats["log_gaps"].append({"cyc": e["cyc"], "hid": hid, "snapshot": d, "replayed": c})
    final_sweeps: dict[int, list[dict]] = {}
    for x in ev:
        if x["e"] == "sweep" and x.get("final"):
            final_sweeps.setdefault(x["inc"], []).append(x)
    # ---- cycles ----------------------------------------------------------------------------------
    for e0 in ev:
        if e0["e"] != "cyc0":
            continue
        grp = by_cyc.get(e0["cyc"], [])
        e1 = next((x for x in grp if x["e"] == "cyc1"), None)
        if e1 is None:
            continue
        uid = e0["uid"]
        sds = [x for x in grp if x["e"] == "sd0"]
        pz = next((x for x in grp if x["e"] == "pause?"), None)
        paused = bool(pz["on"]) if pz else False
        window = [x for x in ev[e0["seq"]:e1["seq"] + 1]]
        my_sids = {d["sid"] for d in e0["pre"]["running"].values()} | {x["sid"] for x in grp if x["e"] == "spawn"}
        concurrent = any(x["e"] == "set" and x.get("kid") is not None and x["sid"] in my_sids for x in window) \
            or e0["lt"] != e1["lt"]
        calls = []
        for sd in sds:
            sd1 = next((x for x in by_cid.get(sd["cid"], []) if x["e"] == "sd1"), None)
            calls.append((sd, sd1, by_cid.get(sd["cid"], [])))
        for x in window:
            if x["e"] == "end" and x["sid"] in my_sids:
                inside = any(x["sid"] in sd["snap"] and sd1 is not None and sd["seq"] < x["seq"] < sd1["seq"] for sd, sd1, _ in calls)
                if not inside:
                    concurrent = True
        if concurrent:
            stats["skipped_concurrent"] += 1
            continue

        def ex_for(sid: int | None, call: tuple | None) -> list[bool]:
            if sid is None or call is None or sid not in call[0]["snap"]:
                return [False, False, False]
            evs = [x for x in call[2] if x.get("sid") == sid and x["e"] in ("set", "done?", "cancel")]
            first = evs[0]["seq"] if evs else None
            endseq = inst[sid]["seq_end"] if sid in inst else None
            d0 = bool(first is not None and endseq is not None and endseq < first)
            dn = [x["r"] for x in evs if x["e"] == "done?" and x["site"] == "stop_daemons"]
            d1 = bool(dn[0]) if dn else d0
            d2 = bool(dn[1]) if len(dn) > 1 else d1
            return [d0, d1, d2]

        if e0["marked"]:
            call1 = calls[0] if calls else None
            call2 = None
        else:
            call1 = next((c for c in calls if c[0]["reason"] == ["FILTERS_MISMATCH"]), None)
            call2 = next((c for c in calls if c[0]["reason"] == ["OPERATOR_PAUSING"]), None)
        def ended_after_turn(sid: int | None) -> bool:
            """the instance ended inside a stop call of this cycle, but after its own turn in it was over:
            for the model that is the cycle followed by an `exit` label"""
            if sid is None or sid not in inst or inst[sid]["seq_end"] is None or not (e0["seq"] < inst[sid]["seq_end"] < e1["seq"]):
                return False
            own = [x["seq"] for _sd, _sd1, evs in calls for x in evs if x.get("sid") == sid and x["e"] in ("set", "done?", "cancel")]
            return bool(own) and inst[sid]["seq_end"] > max(own)

        hreq, himpl = [], []
        for hid, h in hs.items():
            pre = e0["pre"]["running"].get(hid)
            spawned = next((x for x in grp if x["e"] == "spawn" and x["hid"] == hid), None)
            sid = pre["sid"] if pre else (spawned["sid"] if spawned else None)
            post = e1["post"]["running"].get(hid)
            hreq.append({"id": hid, **cfg_of(sc, h), "matching": hid in e0["matching"], "forever": hid in e0["pre"]["forever"],
                         "pre": inst_json(pre, e0["seq"]), "ex1": ex_for(sid, call1), "ex2": ex_for(sid, call2),
                         "exitAfter": ended_after_turn(sid)})
            himpl.append({"id": hid, "spawned": spawned is not None, "run": inst_json(post, e1["seq"]),
                          "forever": hid in e1["post"]["forever"]})
        # the operator is exiting for this cycle: the killer's exit sweep of this incarnation has begun (observed, not read
        # from the memory's own mark)
        exiting = any(x["seq"] < e0["seq"] for x in final_sweeps.get(e0["inc"], []))
        req = ["C09.cycle", {"now": e0["lt"], "marked": e0["marked"], "paused": paused, "deleted": e0["etype"] == "DELETED",
                             "exiting": exiting, "handlers": hreq}]
        impl = {"handlers": himpl, "delays": sorted(e1["delays"]), "known": e1["post"]["known"]}
        reqs.append(req)
        impls.append(impl)
        where.append({"kind": "cycle", "cyc": e0["cyc"], "t": e0["t"], "uid": uid})
        stats["cycles"] += 1
    # ---- the DELETED event: `stop_daemon(RESOURCE_DELETED)` starts at that very instant for whatever runs for the object --
    for e0 in ev:
        if e0["e"] != "cyc0" or e0["etype"] != "DELETED":
            continue
        clear = [d for d in e0["pre"]["running"].values() if d["sid"] in inst and
                 (inst[d["sid"]]["t_end"] is None or inst[d["sid"]]["t_end"] > e0["t"])]
        if not clear:
            continue
        started = {x["sid"] for x in ev if x["e"] == "k0" and x["reason"] == ["RESOURCE_DELETED"] and x["lt"] == e0["lt"]
                   and x["seq"] > e0["seq"]}
        reqs.append(["C09.gone", [{"reasons": _model_reasons(d["reasons"])} for d in clear]])
        impls.append([d["sid"] in started for d in clear])
        where.append({"kind": "gone", "t": e0["t"], "uid": e0["uid"], "running": clear})
        stats["gone"] = stats.get("gone", 0) + 1
    # ---- daemon-killer runs -------------------------------------------------------------------------
    for e0 in ev:
        if e0["e"] != "k0" or e0["sid"] not in inst:
            continue
        grp = by_kid.get(e0["kid"], [])
        dn = [x["r"] for x in grp if x["e"] == "done?" and x["site"] == "stop_daemon"]
        k1 = next((x for x in grp if x["e"] == "k1"), None)
        if len(dn) != 4 or k1 is None:
            stats["killer_incomplete"] += 1
            continue
        h = hs[inst[e0["sid"]]["hid"]]
        sets = [[x["lt"], R2L[x["reason"][0]]] for x in grp if x["e"] == "set" and x["site"] == "stop_daemon"]
        reqs.append(["C09.kplan", {**cfg_of(sc, h), "reason": R2L[e0["reason"][0]], "start": e0["lt"], "done": dn[1:]}])
        impls.append(sets)
        where.append({"kind": "killer", "kid": e0["kid"], "t": e0["t"], "sid": e0["sid"]})
        stats["killer"] += 1
    # ---- rounds of the daemon killer: which listed daemons get a `stop_daemon` --------------------------------
    sweeps = [x for x in ev if x["e"] == "sweep"]
    for n, sw in enumerate(sweeps):
        nxt = next((y["seq"] for y in sweeps[n + 1:] if y["inc"] == sw["inc"]), len(ev))
        ks = [x for x in ev[sw["seq"]:nxt] if x["e"] == "k0" and x["inc"] == sw["inc"] and x["t"] == sw["t"]]
        if not sw["listed"]:
            continue
        # daemons that end at the very instant of the sweep may be gone before their memory's turn: left out
        clear = [d for d in sw["listed"] if d["sid"] in inst and (inst[d["sid"]]["t_end"] is None or inst[d["sid"]]["t_end"] > sw["t"])]
        if not clear or any(x["e"] == "killer-error" for x in ev[sw["seq"]:nxt]):
            continue
        started = {x["sid"] for x in ks}
        reqs.append(["C09.sweep", [{"reasons": _model_reasons(d["reasons"])} for d in clear]])
        impls.append([d["sid"] in started for d in clear])
        where.append({"kind": "round", "t": sw["t"], "listed": clear})
        stats["rounds"] += 1
    # ---- the timed part: the first sweep of a daemon listed while paused comes at a round, not later than its due round --
    pauses: list[tuple[int, int, float]] = []      # (inc, p in ticks, until seq)
    open_p: dict[int, list] = {}
    for x in ev:
        if x["e"] == "paused":
            open_p[x["target"]] = [x["target"], _ticks(x["t"]), len(ev)]
            pauses.append(open_p[x["target"]])
        elif x["e"] == "resumed" and x["target"] in open_p:
            open_p.pop(x["target"])[2] = x["seq"]
    for inc, pt, useq in pauses:
        stop_seq = min([x["seq"] for x in ev if x["e"] in ("killer-error",) and x["inc"] == inc] + [useq])
        for i in inst.values():
            if i["inc"] != inc or i["seq_spawn"] > stop_seq:
                continue
            ks = [x for x in ev if x["e"] == "k0" and x["sid"] == i["sid"] and x["reason"] == ["OPERATOR_PAUSING"]
                  and x["lt"] >= pt and x["seq"] < stop_seq]
            if not ks:
                continue
            since = _ticks(i["t_spawn"])
            reqs.append(["C09.due", {"p": pt, "since": since, "t": ks[0]["lt"]}])
            impls.append({"round": True, "byDue": True})
            where.append({"kind": "due", "sid": i["sid"], "pause": pt, "first_sweep": ks[0]["lt"], "since": since})
            stats["dues"] = stats.get("dues", 0) + 1
    # ---- instance ends --------------------------------------------------------------------------------
    for i in inst.values():
        if i["seq_end"] is None or i["muted"] or i["own_exit"] is None:
            continue
        failed_before = any(c.get("outcome") == "perm" and c["inc"] == i["inc"] and c["uid"] == i["uid"] and c["id"] == i["hid"]
                            and c["t_end"] is not None and c["t_end"] <= i["t_end"] for c in tr["calls"])
        reqs.append(["C09.exit", {"reasons": _model_reasons(i["final_reasons"]), "forever": failed_before}])
        impls.append({"forever": bool(i["end_forever"]), "running": bool(i["still_listed"]), "live": 0})
        where.append({"kind": "exit", "sid": i["sid"], "t": i["t_end"]})
        stats["exits"] += 1
    return reqs, impls, where, stats


# =================================================================================================
#  Part 4 — the oracle: from the property statement, over implementation-level observations only
# =================================================================================================
def _matches(h: dict, labels: dict) -> bool:
    want = h.get("opts", {}).get("labels")
    if not want:
        return True
    for k, v in want.items():
        if v == "__PRESENT__":
            if k not in labels:
                return False
        elif v == "__ABSENT__":
            if k in labels:
                return False
        elif labels.get(k) != v:
            return False
    return True


def classify_stall(res: dict) -> tuple[str, dict]:
    """(description, signature) of a stalled simulation, from what the worker left on stderr."""
    err = res.get("stderr") or ""
    k = err.rfind("@@C09-SPIN ")
    if k >= 0:
        try:
            info = json.loads(err[k + len("@@C09-SPIN "):].splitlines()[0])
        except ValueError:
            info = {}
        test = (info.get("loop_test") or "").replace(" ", "").replace("(", "").replace(")", "")
        if (info.get("func"), test) in (("_timer", "notstopper.is_set"), ("_daemon", "notstopper.is_setandnotstate.done")):
            return (f"the event loop is blocked: {info.get('func')} re-invokes the handler in `while {info.get('loop_test')}` "
                    f"(line {info.get('line')}) without ever suspending", dict(F12_SIG))
        if info.get("func") == "_timer" and test == "memory.idle_reset_time<=started":
            return (f"the event loop is blocked: _timer spins in `while {info.get('loop_test')}` (line {info.get('line')}) "
                    f"without suspending", dict(F1_SIG))
        return (f"the event loop is blocked: {info.get('func')} spins without suspending at {info.get('file')}:{info.get('line')}",
                {"site": str(info.get("func")), "shape": "spins without suspending", "loop": info.get("loop_test")})
    # the pool's wall-clock watchdog: read the faulthandler dump
    if "in _timer" in err and "aiotime.py" in err and "daemons.py" in err:
        import re
        m = re.search(r'daemons\.py", line (\d+) in _timer', err)
        line = int(m.group(1)) if m else None
        func, test = (None, None)
        if line is not None:
            func, test = _while_test_at(str(_repo() / "kopf/_core/engines/daemons.py"), line)
        if func == "_timer" and (test or "").replace(" ", "") == "memory.idle_reset_time<=started":
            return (f"the event loop is blocked (watchdog): _timer at daemons.py:{line}", dict(F1_SIG))
    return ("the simulation stalled or the worker died: " + err[-400:], {"site": "event loop", "shape": "stall or crash of the simulation"})


def _repo() -> Any:
    from ..core import REPO
    return REPO


def oracle(ctx: Ctx, sc: dict, res: dict) -> dict:
    """Returns measured reaction latencies etc. for the evidence."""
    info: dict[str, Any] = {"max_start_latency": 0.0, "max_stop_latency": 0.0}
    rep = {"scenario": sc}
    if res.get("stall"):
        what, sig = classify_stall(res)
        ctx.oracle_fail(what, {**rep, "stderr_tail": (res.get("stderr") or "")[-1500:]}, sig)
        info["stall"] = sig
        return info
    tr = res["trace"]
    if tr.get("sim_error"):
        ctx.oracle_fail(f"the simulated loop made no progress: {tr['sim_error']}", rep,
                        {"site": "event loop", "shape": "livelock at one virtual instant"})
        return info
    hs = spawning_handlers(sc)
    inst = instances(tr)
    marks = tr["marks"]
    end = float(sc.get("end", 60.0))

    def fail(what: str, sig: dict, **extra: Any) -> None:
        ctx.oracle_fail(what, {**rep, **extra}, sig)

    # ---- incarnations: [start, stop request / kill), pause windows --------------------------------------
    stops_req = sorted(e[0] for e in sc.get("timeline", []) if e[1] == "stop")
    incs: dict[int, dict] = {}
    dead_ops: list[str] = []
    for m in marks:
        if m["what"] == "start":
            incs[m["inc"]] = {"start": m["t"], "until": float("inf"), "how": None, "pauses": [], "stop_done": None}
        elif m["what"] == "stopped" and m["inc"] in incs:
            i = incs[m["inc"]]
            req = end if m.get("final") else max([t for t in stops_req if t <= m["t"]] or [m["t"]])
            i["until"], i["how"], i["stop_done"], i["result"] = req, "stop", m["t"], m["result"]
        elif m["what"] == "killed" and m["inc"] in incs:
            incs[m["inc"]]["until"], incs[m["inc"]]["how"] = m["t"], "kill"
        elif m["what"] == "pause" and m["inc"] in incs:
            incs[m["inc"]]["pauses"].append([m["t"], float("inf")])
        elif m["what"] == "resume" and m["inc"] in incs and incs[m["inc"]]["pauses"]:
            if incs[m["inc"]]["pauses"][-1][1] == float("inf"):
                incs[m["inc"]]["pauses"][-1][1] = m["t"]
        elif m["what"] == "alive?":
            dead_ops = [name for name, alive in m["alive"].items() if not alive]
    # the daemon killer (a root task) failing takes the operator down: report the root cause once per incarnation and
    # do not report its consequences (daemons not reached, operator gone / raising the same error) separately
    killer_crash: dict[int, float] = {}
    for e in tr["ev"]:
        if e["e"] == "killer-error":
            dict_iter = e["error"] == "RuntimeError" and \
                ("changed size during iteration" in e["msg"] or "keys changed during iteration" in e["msg"]) and \
                any(":daemon_killer:" in w or ":iter_all_daemon_memories:" in w for w in e.get("where", []))
            if dict_iter:
                if e["inc"] not in killer_crash:
                    fail(f"daemon_killer failed at t={e['t']}: {e['error']}: {e['msg']} ({e.get('where')})", dict(F11_SIG), t=e["t"])
                killer_crash.setdefault(e["inc"], e["t"])
            else:
                fail(f"daemon_killer failed at t={e['t']}: {e['error']}: {e['msg']}",
                     {"site": "daemons.daemon_killer", "shape": "raised", "error": e["error"]})
    for n, i in incs.items():
        if n in killer_crash:
            i["until"] = min(i["until"], killer_crash[n])
            i["how"] = "killer-crash"
            continue
        if i["how"] == "stop" and i.get("result") != "None":
            fail(f"the operator raised on exit: {i.get('result')}", {"site": "running.operator", "shape": "operator raised on exit"})
    last_how = {}
    for n in sorted(incs):
        last_how = {"how": incs[n]["how"]}          # the latest incarnation decides
    if dead_ops and not killer_crash and last_how.get("how") is None:
        fail(f"operator {dead_ops} is not alive at the end of the history", {"site": "running.operator", "shape": "operator died"})
    for ce in tr.get("cycle_errors", []):
        if ce["error"] != "CancelledError":
            fail(f"process_resource_event raised {ce['error']}", {"site": "processing.process_resource_event", "shape": "raised", "error": ce["error"]})
    for e in tr["ev"]:
        if e["e"] == "cyc-error" and e["error"] != "CancelledError":
            fail(f"process_spawning_cause raised {e['error']}: {e.get('msg')}",
                 {"site": "processing.process_spawning_cause", "shape": "raised", "error": e["error"]})

    def listening(inc: int, a: float, b: float) -> bool:
        """the incarnation is up and not paused during the whole of [a, b]"""
        i = incs.get(inc)
        if i is None or a < i["start"] or b >= i["until"]:
            return False
        return not any(p0 <= b and a < p1 for p0, p1 in i["pauses"])

    def alive_inc(inc: int, t: float) -> bool:
        i = incs.get(inc)
        return i is not None and i["start"] <= t < i["until"]

    # ---- objects --------------------------------------------------------------------------------------------
    objs: dict[str, dict] = {}
    for key, versions in tr["history"].items():
        if "kopfexamples" not in key:
            continue
        for v in versions:
            uid = v["meta"]["uid"]
            o = objs.setdefault(uid, {"uid": uid, "versions": [], "born": v["t"], "gone": None, "marked": None})
            o["versions"].append(v)
            if v["event"] == "DELETED":
                o["gone"] = v["t"]
            elif v["meta"]["deletionTimestamp"] and o["marked"] is None:
                o["marked"] = v["t"]

    def labels_at(o: dict, t: float) -> dict | None:
        cur = None
        for v in o["versions"]:
            if v["t"] <= t and v["event"] != "DELETED":
                cur = v["meta"]["labels"]
        return cur

    def should_run(o: dict, h: dict, t: float) -> bool:
        if t < o["born"] or (o["gone"] is not None and t >= o["gone"]) or (o["marked"] is not None and t >= o["marked"]):
            return False
        labs = labels_at(o, t)
        return labs is not None and _matches(h, labs)

    by_key: dict[tuple, list[dict]] = {}
    for i in inst.values():
        by_key.setdefault((i["inc"], i["uid"], i["hid"]), []).append(i)
    for lst in by_key.values():
        lst.sort(key=lambda i: i["seq_spawn"])

    def t_end(i: dict) -> float:
        return i["t_end"] if i["t_end"] is not None else float("inf")

    # ---- O1/O6: never two live instances; no respawn before the previous instance has ended ------------------------
    for key, lst in by_key.items():
        for a, b in zip(lst, lst[1:]):
            if a["seq_end"] is None or a["seq_end"] > b["seq_spawn"]:
                fail(f"handler {key[2]} of object {key[1]}: a second instance was created at t={b['t_spawn']} while the one "
                     f"created at t={a['t_spawn']} had not ended", {"site": "daemons.spawn_daemons", "shape": "two live instances of one handler for one object"},
                     first=a["sid"], second=b["sid"])
    calls_by: dict[tuple, list[dict]] = {}
    for c in tr["calls"]:
        if c["kind"] in ("daemon", "timer"):
            calls_by.setdefault((c["inc"], c["uid"], c["id"]), []).append(c)
    for key, cs in calls_by.items():
        cs.sort(key=lambda c: c["t"])
        for a, b in zip(cs, cs[1:]):
            ae = a["t_end"] if a["t_end"] is not None else float("inf")
            if ae > b["t"] and alive_inc(key[0], b["t"]):
                fail(f"{key[2]} of {key[1]} was entered at t={b['t']} while its invocation from t={a['t']} was still running",
                     {"site": "daemons.spawn_daemons", "shape": "two live instances of one handler for one object"})
    # ---- O5: an instance that exited on its own is not restarted within the incarnation ----------------------------
    for key, lst in by_key.items():
        for k, a in enumerate(lst):
            later = [b for b in lst[k + 1:] if a["seq_end"] is not None and b["seq_spawn"] > a["seq_end"]]
            if a["own_exit"] and later:
                fail(f"{key[2]} of {key[1]} exited on its own at t={a['t_end']} and was started again at t={later[0]['t_spawn']}",
                     {"site": "daemons.spawn_daemons", "shape": "restarted after exiting on its own"})
    for key, cs in calls_by.items():
        h = hs.get(key[2])
        if h and h["kind"] == "daemon":
            for k, c in enumerate(cs):
                if c.get("outcome") == "own-exit" and not c.get("flag_at_exit") and cs[k + 1:]:
                    fail(f"daemon {key[2]} returned by itself at t={c['t_end']} and was called again at t={cs[k + 1]['t']}",
                         {"site": "daemons.spawn_daemons", "shape": "restarted after exiting on its own"})
    # ---- O5b: a timer that has failed for good is not started (spawned, invoked) again within the incarnation -------------
    for key, cs in calls_by.items():
        h = hs.get(key[2])
        if not h or h["kind"] != "timer":
            continue
        bad = next((c for c in cs if c.get("outcome") == "perm"), None)
        if bad is None or bad["t_end"] is None:
            continue
        later_calls = [c for c in cs if c["t"] > bad["t_end"] or (c["t"] == bad["t_end"] and c.get("n", 0) > bad.get("n", 0))]
        later_spawns = [i for i in by_key.get(key, []) if i["t_spawn"] > bad["t_end"]]
        if (later_calls or later_spawns) and alive_inc(key[0], (later_calls or [{"t": later_spawns[0]["t_spawn"] if later_spawns else 0}])[0]["t"]):
            fail(f"timer {key[2]} of {key[1]} failed for good at t={bad['t_end']} and was started again "
                 f"(spawned at {[i['t_spawn'] for i in later_spawns]}, invoked at {[c['t'] for c in later_calls][:3]})",
                 {"site": "daemons._timer", "shape": "timer started again after its final failure"})
        else:
            ctx.count("final_failure", "stays down")
    # ---- O2: started when the object appears / starts matching ----------------------------------------------------------
    eps = 1.0 / 128
    for inc, iv in incs.items():
        for uid, o in objs.items():
            for hid, h in hs.items():
                points = sorted({iv["start"], o["born"]} | {v["t"] for v in o["versions"]} | {p1 for _, p1 in iv["pauses"] if p1 != float("inf")})
                lst = by_key.get((inc, uid, hid), [])
                for a in points:
                    d = DELTA_START if a == iv["start"] else DELTA
                    if a < iv["start"] or not (should_run(o, h, a) and listening(inc, a, a + d)):
                        continue
                    if should_run(o, h, a - eps) and listening(inc, a - eps, a - eps):
                        continue                                  # not a rising edge
                    if not all(should_run(o, h, a + d * k / 16) for k in range(17)):
                        continue                                  # does not stay that way long enough to judge
                    if any(i["own_exit"] and t_end(i) <= a + d for i in lst):
                        ctx.count("start_trigger", "exited on its own before: must stay down")
                        continue
                    if any(c.get("outcome") == "perm" and c["t_end"] is not None and c["t_end"] <= a + d
                           for c in calls_by.get((inc, uid, hid), [])):
                        ctx.count("start_trigger", "failed for good before: must stay down")
                        continue
                    if any(i["t_spawn"] < a < t_end(i) for i in lst):
                        ctx.count("start_trigger", "previous instance still there (deferred)")
                        continue
                    got = [i for i in lst if a <= i["t_spawn"] <= a + d]
                    if not got:
                        fail(f"{hid} was not started for {uid} within {d}s of t={a} (object present, unmarked, matching; "
                             f"operator up and not paused)", {"site": "daemons.spawn_daemons", "shape": "not started on appearance/match"},
                             t=a, inc=inc, uid=uid, hid=hid)
                    else:
                        ctx.count("start_trigger", "started")
                        info["max_start_latency"] = max(info["max_start_latency"], got[0]["t_spawn"] - a)
    # ---- O3: asked to stop, with the reason ----------------------------------------------------------------------------------
    def flagged_by(i: dict, reason: str | None, t: float) -> float | None:
        for e in i["sets"]:
            if e["t"] <= t and (reason in e["reason"] if reason else any(r in PRIMARY for r in e["reason"])):
                return e["t"]
        return None

    def expect_flag(i: dict, T: float, reason: str | None, why: str, sig: dict) -> None:
        if not (i["t_spawn"] <= T <= t_end(i)) or not alive_inc(i["inc"], T + DELTA):
            return
        if t_end(i) <= T + DELTA:
            ctx.count("stop_trigger", why + ": ended at once")
            return
        # (… no later than T: at the very instant T the order of the two requests is a matter of scheduling)
        if reason is not None and flagged_by(i, None, T) is not None and flagged_by(i, reason, T + DELTA) is None:
            ctx.count("stop_trigger", why + ": was already asked to stop for another reason")
            return
        at = flagged_by(i, reason, T + DELTA)
        if at is None:
            fail(f"{i['hid']} of {i['uid']} (instance {i['sid']}) was not asked to stop within {DELTA}s of t={T}: {why}", sig,
                 t=T, sid=i["sid"], sets=[(e["t"], e["reason"]) for e in i["sets"]])
        else:
            ctx.count("stop_trigger", why)
            info["max_stop_latency"] = max(info["max_stop_latency"], max(0.0, at - T))

    lateness = {"site": "daemons.stop_daemons", "shape": "not asked to stop"}
    for i in inst.values():
        o, h = objs.get(i["uid"]), hs.get(i["hid"])
        if o is None or h is None:
            continue
        iv = incs.get(i["inc"])
        if iv is None:
            continue
        if o["marked"] is not None and listening(i["inc"], o["marked"], o["marked"] + DELTA):
            expect_flag(i, o["marked"], "RESOURCE_DELETED", "the object was marked for deletion", {**lateness, "reason": "RESOURCE_DELETED"})
        if o["gone"] is not None and o["marked"] is None and listening(i["inc"], o["gone"], o["gone"] + DELTA):
            expect_flag(i, o["gone"], None, "the object disappeared (DELETED without deletionTimestamp)", dict(F10_SIG))
        elif o["gone"] is not None and listening(i["inc"], o["gone"], o["gone"] + DELTA):
            expect_flag(i, o["gone"], None, "the object disappeared (DELETED, was marked for deletion)",
                        {**lateness, "reason": "RESOURCE_DELETED", "when": "the object is gone"})
        vs = [v for v in o["versions"] if v["event"] != "DELETED"]
        for prev, cur in zip(vs, vs[1:]):
            T = cur["t"]
            if _matches(h, prev["meta"]["labels"]) and not _matches(h, cur["meta"]["labels"]) and not cur["meta"]["deletionTimestamp"]:
                stable = all(not _matches(h, v["meta"]["labels"]) for v in o["versions"] if T <= v["t"] <= T + DELTA and v["event"] != "DELETED") \
                    and not (o["gone"] is not None and o["gone"] <= T + DELTA) and not (o["marked"] is not None and o["marked"] <= T + DELTA)
                if stable and listening(i["inc"], T, T + DELTA):
                    expect_flag(i, T, "FILTERS_MISMATCH", "the object stopped matching the filters", {**lateness, "reason": "FILTERS_MISMATCH"})
        for p0, _p1 in iv["pauses"]:
            if alive_inc(i["inc"], p0 + DELTA):
                expect_flag(i, p0, "OPERATOR_PAUSING", "the operator was paused", {**lateness, "reason": "OPERATOR_PAUSING"})
        if iv["how"] == "stop" and i["t_spawn"] <= iv["until"] < t_end(i):
            T = iv["until"]
            if t_end(i) > T + DELTA and flagged_by(i, None, T + DELTA) is None:
                fail(f"{i['hid']} of {i['uid']} was not asked to stop within {DELTA}s of the operator's exit at t={T}",
                     {**lateness, "reason": "OPERATOR_EXITING"}, sid=i["sid"])
            else:
                ctx.count("stop_trigger", "the operator exits")
    # ---- O4: stop flag first, cancellation after the backoff, abandonment after backoff + timeout ---------------------------------
    for i in inst.values():
        h = hs.get(i["hid"])
        if h is None:
            continue
        o = h.get("opts", {})
        backoff = float(o.get("cancellation_backoff") or 0) if h["kind"] == "daemon" else 0.0
        timeout = float(o.get("cancellation_timeout") or 0) if h["kind"] == "daemon" else 0.0
        sets = [e for e in i["sets"] if e["reason"] != ["DONE"]]
        when = sets[0]["t"] if sets else None
        if sets and not any(r in PRIMARY for r in sets[0]["reason"]):
            fail(f"instance {i['sid']} of {i['hid']}: the first thing set on the stopper is {sets[0]['reason']}, not a request to stop",
                 {"site": "daemons.stop_daemons", "shape": "stage without the stop flag"})
        for cnl in i["cancels"]:
            if h["kind"] == "timer" or o.get("cancellation_timeout") is None:
                fail(f"{i['hid']} (instance {i['sid']}) was cancelled by the stopping logic although it has no cancellation timeout",
                     {"site": "daemons." + cnl["site"], "shape": "cancelled without a cancellation timeout"})
            elif when is None or cnl["t"] < when + backoff:
                fail(f"{i['hid']} (instance {i['sid']}) was cancelled at t={cnl['t']}; the stop flag was set at t={when}, "
                     f"cancellation_backoff={backoff}", {"site": "daemons." + cnl["site"], "shape": "cancelled before the backoff"},
                     sid=i["sid"])
            else:
                ctx.count("stages", "cancelled after backoff")
        for e in sets:
            if "DAEMON_ABANDONED" in e["reason"]:
                if when is None or e["t"] < when + backoff + timeout:
                    fail(f"{i['hid']} (instance {i['sid']}) was abandoned at t={e['t']}; flag at t={when}, backoff={backoff}, timeout={timeout}",
                         {"site": "daemons." + e["site"], "shape": "abandoned before backoff+timeout"})
                else:
                    ctx.count("stages", "abandoned after timeout")
            if "DAEMON_SIGNALLED" in e["reason"]:
                ctx.count("stages", "signalled")
    # ---- O10: nothing is (re)started for an operator that is exiting — or, if it is, it is asked to stop like the rest ------
    for i in inst.values():
        iv = incs.get(i["inc"])
        if iv is None or iv["how"] != "stop" or iv.get("stop_done") is None or hs.get(i["hid"]) is None:
            continue
        if not (iv["until"] < i["t_spawn"] <= iv["stop_done"]):
            continue
        # (an instance that ends within the reaction allowance is let off only when it ended BY ITSELF: one whose function
        # was cancelled from outside without any flag — the operator's sweep of left-over tasks — was never asked to stop)
        hung = any(tc >= i["t_spawn"] for c in tr["calls"] if c.get("sid") == i["sid"] for tc in c.get("cancels", []))
        ctx.count("exit", "instance started while the operator was exiting")
        if t_end(i) > i["t_spawn"] + DELTA or hung:
            if flagged_by(i, None, i["t_spawn"] + DELTA) is None:
                fail(f"{i['hid']} of {i['uid']} (instance {i['sid']}) was started at t={i['t_spawn']}, after the operator was asked "
                     f"to stop at t={iv['until']} (the daemon killer's exit sweep was over), and was never asked to stop: it ran until "
                     f"t={i['t_end']} (cancelled as a hung task)", dict(F13_SIG), sid=i["sid"])
    # ---- O8: when the operator pauses or exits the stages are actually gone through, whoever set the flag: a daemon that ----
    #      keeps running is cancelled within backoff (+ one killer period, 1 s, while paused) of the flag and abandoned
    #      within backoff + timeout (+ period). While paused nothing but the killer's rounds can do that.
    tick = 1.0 / 64
    for i in inst.values():
        h, iv = hs.get(i["hid"]), incs.get(i["inc"])
        if h is None or iv is None or h["kind"] != "daemon":
            continue
        o = h.get("opts", {})
        backoff = float(o.get("cancellation_backoff") or 0)
        has_timeout = o.get("cancellation_timeout") is not None
        timeout = float(o.get("cancellation_timeout") or 0)
        windows = [(p0, p1, "OPERATOR_PAUSING", KILLER_PERIOD, "the operator was paused") for p0, p1 in iv["pauses"]]
        if iv["how"] == "stop" and iv.get("stop_done") is not None:
            windows.append((iv["until"], iv["stop_done"], "OPERATOR_EXITING", 0.0, "the operator exits"))
        ob = objs.get(i["uid"])
        if ob is not None and ob["gone"] is not None and i["t_spawn"] <= ob["gone"]:
            # no cycle comes for a gone object: only the background `stop_daemon` can go through the stages (until the exit)
            windows.append((ob["gone"], iv["until"], "RESOURCE_DELETED", 0.0, "the object disappeared"))
        for w0, w1, reason, period, why in windows:
            tf = next((e["t"] for e in i["sets"] if reason in e["reason"] and w0 <= e["t"] < w1
                       and (reason != "RESOURCE_DELETED" or e["site"] == "stop_daemon")), None)
            if tf is None:
                continue
            who = next(e["site"] for e in i["sets"] if reason in e["reason"] and e["t"] == tf
                       and (reason != "RESOURCE_DELETED" or e["site"] == "stop_daemon"))
            # (a configured `instant_exit_timeout` is documented as neither combined with nor deducted from the other
            # timeouts: `stop_daemon` waits that long once more after setting the flag)
            iet = float(sc.get("settings", {}).get("background.instant_exit_timeout") or 0)
            dl_c = tf + period + backoff + iet + tick
            dl_a = tf + period + backoff + timeout + iet + tick
            upto = min(w1, iv["until"] if reason == "OPERATOR_PAUSING" else float("inf"))
            if has_timeout and dl_c < upto and t_end(i) > dl_c:
                if not any(cn["t"] <= dl_c for cn in i["cancels"]) and \
                        not any("DAEMON_ABANDONED" in e["reason"] and e["t"] <= dl_c for e in i["sets"]):
                    fail(f"{i['hid']} (instance {i['sid']}) got {reason} at t={tf} (set by {who}) and kept running, but was not "
                         f"cancelled by t={dl_c} (cancellation_backoff={backoff}, killer period {period}s): {why}",
                         {"site": "daemons.daemon_killer", "shape": "flagged daemon is not cancelled after the backoff", "reason": reason},
                         sid=i["sid"], flagged_by=who)
                else:
                    ctx.count("escalation", f"{reason}: cancelled in time (flag by {who})")
            if dl_a < upto and t_end(i) > dl_a:
                if not any("DAEMON_ABANDONED" in e["reason"] and e["t"] <= dl_a for e in i["sets"]):
                    fail(f"{i['hid']} (instance {i['sid']}) got {reason} at t={tf} (set by {who}) and kept running, but was not "
                         f"abandoned by t={dl_a} (backoff={backoff}, timeout={timeout}, killer period {period}s): {why}",
                         {"site": "daemons.daemon_killer", "shape": "flagged daemon is not abandoned after backoff+timeout", "reason": reason},
                         sid=i["sid"], flagged_by=who)
                else:
                    ctx.count("escalation", f"{reason}: abandoned in time (flag by {who})")
    # ---- O9: on deletion the stages are gone through as well: a daemon that was cancelled but has not exited is still
    #      awaited — it is abandoned once backoff + timeout have passed, whatever other events the object gets meanwhile
    #      (every visit of a stage must keep the object on the schedule: `stop_daemons` keeps returning its delay)
    foreign_fin = {e[2] for e in sc.get("timeline", []) if e[1] in ("force_delete", "strip_own_finalizer", "fins", "recreate") and len(e) > 2}
    for i in inst.values():
        h, iv, ob = hs.get(i["hid"]), incs.get(i["inc"]), objs.get(i["uid"])
        if h is None or iv is None or ob is None or h["kind"] != "daemon" or h.get("opts", {}).get("cancellation_timeout") is None:
            continue
        name = next((v["meta"]["name"] for v in ob["versions"]), None)
        if name in foreign_fin:
            continue
        o = h["opts"]
        backoff, timeout = float(o.get("cancellation_backoff") or 0), float(o.get("cancellation_timeout") or 0)
        sets = [e for e in i["sets"] if e["reason"] != ["DONE"]]
        td = next((e["t"] for e in sets if "RESOURCE_DELETED" in e["reason"] and e["site"] == "stop_daemons"), None)
        if td is None or not sets:
            continue
        when = sets[0]["t"]
        dl_c = max(td, when + backoff) + DELTA
        dl_a = max(td, when + backoff + timeout) + DELTA
        if listening(i["inc"], td, dl_c) and t_end(i) > dl_c:
            # (with a zero or tiny timeout the cancellation stage can be empty: straight to the abandonment)
            if not any(cn["t"] <= dl_c for cn in i["cancels"]) and \
                    not any("DAEMON_ABANDONED" in e["reason"] and e["t"] <= dl_c for e in sets):
                fail(f"{i['hid']} (instance {i['sid']}) was asked to stop at t={td} (object marked for deletion) and kept running, "
                     f"but was not cancelled by t={dl_c} (cancellation_backoff={backoff})",
                     {"site": "daemons.stop_daemons", "shape": "flagged daemon is not cancelled after the backoff", "reason": "RESOURCE_DELETED"},
                     sid=i["sid"])
            else:
                ctx.count("escalation", "RESOURCE_DELETED: cancelled in time")
        if listening(i["inc"], td, dl_a) and t_end(i) > dl_a:
            if not any("DAEMON_ABANDONED" in e["reason"] and e["t"] <= dl_a for e in sets):
                gone = ob["gone"]
                fail(f"{i['hid']} (instance {i['sid']}) was asked to stop at t={td} (object marked for deletion), cancelled at "
                     f"{[cn['t'] for cn in i['cancels']]} and kept running, but it was neither awaited until nor abandoned at "
                     f"backoff+timeout (t={dl_a - DELTA}); the object was gone at t={gone}",
                     {"site": "daemons.stop_daemons", "shape": "cancelled daemon is dropped from the schedule before its timeout (never abandoned)",
                      "reason": "RESOURCE_DELETED"}, sid=i["sid"])
            else:
                ctx.count("escalation", "RESOURCE_DELETED: abandoned in time")
    # the instances that the daemon killer's exit sweep has seen (it escorts them through the stages before the operator
    # goes on to cancel whatever is left as "hung" tasks)
    exit_listed: dict[int, set] = {}
    for e in tr["ev"]:
        if e["e"] == "sweep" and e.get("final"):
            exit_listed.setdefault(e["inc"], set()).update(d["sid"] for d in e["listed"])
    for key, cs in calls_by.items():
        iv = incs.get(key[0])
        for c in cs:
            for tc in c.get("cancels", []):
                lst = [i for i in by_key.get(key, []) if i["t_spawn"] <= tc <= t_end(i)]
                by_protocol = any(cn["t"] == tc for i in lst for cn in i["cancels"])
                explained = by_protocol or iv is None or tc >= iv["until"]
                if not explained:
                    fail(f"daemon {key[2]} of {key[1]} got a cancellation at t={tc} that is not a stage of the stopping protocol",
                         {"site": "daemons", "shape": "cancelled outside the staged protocol"})
                # O8x: a graceful exit goes through the stages for EVERY daemon the exit sweep has seen, whatever it was flagged
                # with before: until the framework has given up on it (abandoned), nothing but the protocol cancels it
                elif not by_protocol and iv is not None and iv["how"] == "stop" and tc >= iv["until"]:
                    for i in lst:
                        if i["sid"] not in exit_listed.get(key[0], set()):
                            continue
                        if any("DAEMON_ABANDONED" in e["reason"] and e["t"] <= tc for e in i["sets"]):
                            ctx.count("exit", "left-over daemon cancelled as a hung task after it was abandoned")
                            continue
                        fail(f"daemon {key[2]} of {key[1]} (instance {i['sid']}) was running when the operator was asked to stop at "
                             f"t={iv['until']} (flags so far: {[(e['t'], e['reason']) for e in i['sets']]}): it was cancelled at t={tc} "
                             f"as a left-over task, neither by a stage of the stopping protocol nor after being abandoned",
                             {"site": "daemons.daemon_killer", "shape": "running daemon is not taken through the stages by the exit sweep"},
                             sid=i["sid"])
    # ---- O11: once asked to stop, the function is not called again -------------------------------------------------------
    #      (a) no call begins at a later (virtual) time than the instance's stop flag; (b) no call begins after the
    #      instance's own wrapper has come back from a sleep with the flag set (it KNOWS then). A call that begins in the
    #      very instant of the flag, by a wrapper that was not sleeping on it, is the unavoidable check-then-call race.
    by_sid_calls: dict[int, list[dict]] = {}
    for c in tr["calls"]:
        if c.get("sid") is not None:
            by_sid_calls.setdefault(c["sid"], []).append(c)
    for i in inst.values():
        first = next((e for e in i["sets"] if any(r in PRIMARY for r in e["reason"])), None)
        if first is None or hs.get(i["hid"]) is None:
            continue
        for c in by_sid_calls.get(i["sid"], []):
            late = c["t"] > first["t"]
            knew = i.get("woken_seq") is not None and c["seq"] > i["woken_seq"]
            if late or knew:
                fail(f"{i['hid']} of {i['uid']} (instance {i['sid']}) was asked to stop at t={first['t']} ({first['reason']}) and its "
                     f"function was called again at t={c['t']}" + (" — after its wrapper had woken up on the stop flag" if knew else ""),
                     {"site": "daemons._timer / daemons._daemon", "shape": "function called after the instance was asked to stop"},
                     sid=i["sid"], call_t=c["t"])
                break
        else:
            if by_sid_calls.get(i["sid"]):
                ctx.count("after_flag", "no call after the stop flag")
    # ---- O12: the stop flag reaches the instance: when none of the user's code is running (the wrapper sleeps: initial delay,
    #      idle wait, interval, retry delay) the instance ends at once; a function that waits for its `stopped` flag is
    #      released at once; otherwise the instance ends as soon as the call in flight has ended.
    for i in inst.values():
        first = next((e for e in i["sets"] if any(r in PRIMARY for r in e["reason"])), None)
        h = hs.get(i["hid"])
        if first is None or h is None or i["muted"]:
            continue
        tf = first["t"]
        if not alive_inc(i["inc"], tf + DELTA_END) or tf + DELTA_END >= end:
            continue
        cs = by_sid_calls.get(i["sid"], [])
        flying = [c for c in cs if c["t"] <= tf and (c["t_end"] is None or c["t_end"] >= tf)]
        free_at = tf
        blocked = False
        for c in flying:
            if c.get("mode") == "obey":
                if c["t_end"] is None or c["t_end"] > tf + DELTA_END:
                    fail(f"daemon {i['hid']} of {i['uid']} (instance {i['sid']}) waits for its `stopped` flag; the flag was set at t={tf} "
                         f"({first['reason']}) but the function was not released by t={tf + DELTA_END} (it ended at {c['t_end']})",
                         {"site": "aioenums.FlagSetter", "shape": "the stop flag does not reach the function waiting for it"}, sid=i["sid"])
                    blocked = True
                else:
                    ctx.count("delivery", "waiting function released")
            if c["t_end"] is None:
                blocked = True
            else:
                free_at = max(free_at, c["t_end"])
        later = [c for c in cs if c["t"] > tf or (c["t"] == tf and c not in flying)]
        if blocked or later:
            continue
        if not alive_inc(i["inc"], free_at + DELTA_END) or free_at + DELTA_END >= end:
            continue
        if t_end(i) > free_at + DELTA_END:
            fail(f"{i['hid']} of {i['uid']} (instance {i['sid']}) was asked to stop at t={tf} ({first['reason']}); none of the user's code "
                 f"was running from t={free_at} on, but the instance had not ended by t={free_at + DELTA_END} (ended: {i['t_end']}): "
                 f"its wrapper does not obey the stop flag",
                 {"site": "daemons._timer / daemons._daemon", "shape": "idle instance does not end on the stop flag"}, sid=i["sid"])
        else:
            ctx.count("delivery", "idle instance ended at once" if not flying else "instance ended with its call in flight")
    # ---- O14: after a filter mismatch the stages are gone through as well (cycles -> delays -> touch -> next cycle) ------------
    #      The flag cannot be taken back: an instance that was asked to stop is taken to its end also when the object matches
    #      again meanwhile (and is replaced then: O15).
    for i in inst.values():
        h, iv, ob = hs.get(i["hid"]), incs.get(i["inc"]), objs.get(i["uid"])
        if h is None or iv is None or ob is None or h["kind"] != "daemon" or h.get("opts", {}).get("cancellation_timeout") is None:
            continue
        o = h["opts"]
        backoff, timeout = float(o.get("cancellation_backoff") or 0), float(o.get("cancellation_timeout") or 0)
        sets = [e for e in i["sets"] if e["reason"] != ["DONE"]]
        td = next((e["t"] for e in sets if "FILTERS_MISMATCH" in e["reason"] and e["site"] == "stop_daemons"), None)
        if td is None:
            continue
        when = sets[0]["t"]
        for what, dl, sat in (
                ("cancelled", max(td, when + backoff) + DELTA,
                 lambda d: any(cn["t"] <= d for cn in i["cancels"]) or any("DAEMON_ABANDONED" in e["reason"] and e["t"] <= d for e in sets)),
                ("abandoned", max(td, when + backoff + timeout) + DELTA,
                 lambda d: any("DAEMON_ABANDONED" in e["reason"] and e["t"] <= d for e in sets))):
            if not listening(i["inc"], td, dl) or t_end(i) <= dl or dl >= end:
                continue
            if (ob["marked"] is not None and ob["marked"] <= dl) or (ob["gone"] is not None and ob["gone"] <= dl):
                continue                      # the deletion takes over: O9 / O8
            if sat(dl):
                ctx.count("escalation", f"FILTERS_MISMATCH: {what} in time")
                continue
            rematched = any(should_run(ob, h, td + (dl - td) * k / 64) for k in range(1, 65))
            if rematched:
                fail(f"{i['hid']} (instance {i['sid']}) was asked to stop at t={td} (filter mismatch) and kept running; the object matched "
                     f"again before the instance had ended: it was not {what} by t={dl} (backoff={backoff}, timeout={timeout}), and it "
                     f"keeps its place in running_daemons, so that nothing is started for the matching object either",
                     dict(F14_SIG), sid=i["sid"])
            else:
                fail(f"{i['hid']} (instance {i['sid']}) was asked to stop at t={td} (filter mismatch) and kept running, but was not "
                     f"{what} by t={dl} (backoff={backoff}, timeout={timeout})",
                     {"site": "daemons.match_daemons", "shape": f"flagged daemon is not {what} in time", "reason": "FILTERS_MISMATCH"},
                     sid=i["sid"])
            break
    # ---- O15: a start that had to wait for the previous (stopping) instance to end is made up for once it has ended ------------
    #      The statement has no time bound for "started when the object … starts matching", and it FORBIDS the start while the
    #      stopping instance is there. Nothing tells the processing that an instance has ended (the design is cycle-driven:
    #      delays -> touch -> next cycle), so the deferred start is due with the next re-check of the exiting instance, whose
    #      period is the documented knob for exactly that: `cancellation_polling` ("how often to poll the status of an exiting
    #      daemon"; per daemon or settings.background). Allowed: one polling period + the reaction allowance after the end.
    #      (Before ef26531 no re-check was scheduled at all: "never" — findings F14/F15.)
    import kopf as _kopf
    code_poll = float(_kopf.OperatorSettings().background.cancellation_polling)
    set_poll = float(sc.get("settings", {}).get("background.cancellation_polling", code_poll))
    for (inc, uid, hid), lst in by_key.items():
        h, iv, ob = hs.get(hid), incs.get(inc), objs.get(uid)
        if h is None or iv is None or ob is None:
            continue
        poll = float((h.get("opts", {}).get("cancellation_polling") if h["kind"] == "daemon" else None) or set_poll)
        allow = poll + DELTA
        for k, a in enumerate(lst):
            te = a["t_end"]
            if te is None or a["own_exit"] or a["muted"] or not a["sets"]:
                continue
            first = next((e for e in a["sets"] if any(r in PRIMARY for r in e["reason"])), None)
            if first is None or not (set(first["reason"]) & {"FILTERS_MISMATCH", "OPERATOR_PAUSING"}):
                continue
            # the object matched (and the operator listened) already before the instance ended: the start was due then
            due_before = should_run(ob, h, te - 1.0 / 128) and listening(inc, te - 1.0 / 128, te - 1.0 / 128)
            if not due_before:
                continue                     # a rising edge at or after the end: O2 judges it
            if any(c.get("outcome") == "perm" and c["t_end"] is not None and c["t_end"] <= te + allow for c in calls_by.get((inc, uid, hid), [])):
                continue
            nxt = next((b for b in lst[k + 1:] if b["t_spawn"] >= te), None)
            upto = te + allow if nxt is None else min(te + allow, nxt["t_spawn"])
            pts = [te, upto] + [v["t"] for v in ob["versions"] if te <= v["t"] <= upto]
            if upto >= end or not listening(inc, te, upto) or not all(should_run(ob, h, x) for x in pts):
                ctx.count("start_trigger", "deferred start: the window is cut short (end of history, pause, exit, mismatch, deletion)")
                continue
            if nxt is not None and nxt["t_spawn"] <= te + allow:
                late = nxt["t_spawn"] - te
                ctx.count("start_trigger", "started after the stopping instance had ended: " +
                          ("at once (<= 1 s)" if late <= DELTA else "late, within cancellation_polling"))
                info["max_deferred_start_latency"] = max(info.get("max_deferred_start_latency", 0.0), late)
            else:
                fail(f"{hid} of {uid}: the instance created at t={a['t_spawn']} was asked to stop at t={first['t']} ({first['reason']}) and "
                     f"ended at t={te}; the object matches and the operator listens since before that, but no new instance was started "
                     f"within cancellation_polling ({poll}s) + {DELTA}s of the end (next: {[b['t_spawn'] for b in lst[k + 1:]][:1]})",
                     dict(F15_SIG), t=te, uid=uid, hid=hid)
    return info


# =================================================================================================
#  Part 5 — the translator tie (T)
# =================================================================================================
COND_VOCAB = {
    "daemon.task.done()": "a.taskDone",
    "backoff is not None": "a.backoffSome",
    "age < backoff": "a.ageLtBackoff",
    "timeout is not None": "a.timeoutSome",
    "age < timeout + (backoff or 0)": "a.ageLtDeadline",
}
DELAY_VOCAB = {"backoff - age": "Delay.backoffLeft", "timeout + (backoff or 0) - age": "Delay.deadlineLeft", "polling": "Delay.polling"}
REASON_PREFIX = "stoppers.DaemonStoppingReason."
LOG_CALLS = ("logger.debug", "logger.warning", "logger.info", "warnings.warn", "daemon.logger.debug", "daemon.logger.warning")
WAIT_INSTANT = "await _wait_for_instant_exit(settings=settings, daemon=daemon)"


def _is_log(st: ast.stmt) -> bool:
    return isinstance(st, ast.Expr) and isinstance(st.value, ast.Call) and pyextract.norm(st.value.func) in LOG_CALLS


def _reason(text: str) -> str:
    if not text.startswith(REASON_PREFIX) or text[len(REASON_PREFIX):] not in R2L:
        raise ExtractError(f"unknown stopping reason `{text}`")
    return "Reason." + R2L[text[len(REASON_PREFIX):]]


def _act_of(stmts: list[ast.stmt]) -> str:
    """One branch of the stage chain → a Lean `Act` literal."""
    setr, cancel, wait, delay, guarded = "none", False, False, "none", False
    for st in stmts:
        text = pyextract.norm(st)
        if text == "pass" or _is_log(st):
            continue
        if isinstance(st, ast.If) and not st.orelse and text.startswith("if not stopper.is_set(reason="):
            want = pyextract.norm(st.test)[len("not stopper.is_set(reason="):-1]
            if setr != "none":
                raise ExtractError("two stopper blocks in one stage branch")
            for inner in st.body:
                it = pyextract.norm(inner)
                if it == f"stopper.set(reason={want})":
                    setr = f"some {_reason(want)}"
                elif it == "daemon.task.cancel()":
                    cancel = True
                elif it == WAIT_INSTANT:
                    wait = True
                elif not _is_log(inner):
                    raise ExtractError(f"unexpected statement in a stopper block: `{it[:100]}`")
            if setr == "none":
                raise ExtractError(f"stopper block does not set its own reason: `{text[:100]}`")
            continue
        if isinstance(st, ast.If) and not st.orelse and pyextract.norm(st.test) == "not daemon.task.done()" \
                and len(st.body) == 1 and pyextract.norm(st.body[0]).startswith("delays.append("):
            expr = pyextract.norm(st.body[0])[len("delays.append("):-1]
            if expr not in DELAY_VOCAB or delay != "none":
                raise ExtractError(f"delay outside the vocabulary: `{expr}`")
            delay, guarded = f"some {DELAY_VOCAB[expr]}", True
            continue
        if text.startswith("delays.append("):
            expr = text[len("delays.append("):-1]
            if expr not in DELAY_VOCAB or delay != "none":
                raise ExtractError(f"delay outside the vocabulary: `{expr}`")
            delay = f"some {DELAY_VOCAB[expr]}"
            continue
        raise ExtractError(f"statement outside the accepted shapes in a stage branch: `{text[:120]}`")
    b = lambda x: "true" if x else "false"  # noqa: E731
    return f"{{ set := {setr}, cancel := {b(cancel)}, wait := {b(wait)}, delay := {delay}, delayIfAlive := {b(guarded)} }}"


SPAWN_VOCAB = {"handler.id in daemons": "idTaken", "handler.id not in daemons": "(!idTaken)",
               "daemons[handler.id].stopper.is_set()": "stopperSet"}
SPAWN_RECHECK = ["polling = getattr(handler, 'cancellation_polling', None)",
                 "delays.append(polling or settings.background.cancellation_polling)"]
SPAWN_PROLOGUE = {"delays: list[float] = []"}
MATCH_VOCAB = {"daemon.handler.id not in matching_daemon_ids": "notSelected",
               "daemon.stopper.is_set(reason=stoppers.DaemonStoppingReason.FILTERS_MISMATCH)": "flaggedMismatch"}
REVISIT_VOCAB = {"id in matching_daemon_ids": "selected", "id not in daemons": "gone"}
MATCH_STOP_CALL = ("stop_daemons(settings=settings, daemons=mismatching_daemons, "
                   "reason=stoppers.DaemonStoppingReason.FILTERS_MISMATCH)")


def _is_spawn_block(stmts: list[ast.stmt]) -> bool:
    """`stopper = DaemonStopper(); ...; daemon = Daemon(..., task=asyncio.create_task(_runner(...))); daemons[handler.id] = daemon`"""
    texts = [pyextract.norm(st) for st in stmts]
    return len(texts) >= 3 and texts[0] == "stopper = stoppers.DaemonStopper()" and texts[-1] == "daemons[handler.id] = daemon" \
        and any(t.startswith("daemon = Daemon(") and "task=asyncio.create_task(_runner(" in t for t in texts) \
        and all(isinstance(st, ast.Assign) for st in stmts) and not any("delays" in t for t in texts)


def _spawn_act(stmts: list[ast.stmt], tr: Any) -> str:
    """What `spawn_daemons` does for one handler: a statement list → a Lean term of type `SpawnAct`."""
    stmts = [st for st in stmts if not _is_log(st) and pyextract.norm(st) != "pass"]
    if not stmts:
        return "{ spawn := false, delay := none }"
    if _is_spawn_block(stmts):
        return "{ spawn := true, delay := none }"
    if [pyextract.norm(st) for st in stmts] == SPAWN_RECHECK:
        return "{ spawn := false, delay := some Delay.polling }"
    if len(stmts) == 1 and isinstance(stmts[0], ast.If):
        st = stmts[0]
        return f"(if {tr.tr(st.test)} then {_spawn_act(st.body, tr)} else {_spawn_act(st.orelse, tr)})"
    raise ExtractError(f"spawn_daemons: statement outside the accepted shapes for one handler: `{pyextract.norm(stmts[0])[:120]}`")


def extract_spawn(tree: ast.AST) -> str:
    """`spawn_daemons` → `def spawnAct (idTaken stopperSet : Bool) : SpawnAct`."""
    fn = pyextract.find_def(tree, "spawn_daemons")
    body = pyextract.body_without_docstring(fn)
    loops = [k for k, st in enumerate(body) if isinstance(st, ast.For)]
    if len(loops) != 1 or pyextract.norm(body[loops[0]].target) != "handler" or pyextract.norm(body[loops[0]].iter) != "handlers" \
            or body[loops[0]].orelse:
        raise ExtractError("spawn_daemons is no longer one loop `for handler in handlers`")
    k = loops[0]
    declares = False
    for st in body[:k]:
        text = pyextract.norm(st)
        if text in SPAWN_PROLOGUE:
            declares = True
            continue
        guard = isinstance(st, ast.If) and not st.orelse and len(st.body) == 1 and (
            (pyextract.norm(st.test) in ("memory.operator_exiting", "memory.object_gone") and pyextract.norm(st.body[0]) == "return []")
            or (pyextract.norm(st.test) == "memory.live_fresh_body is None" and isinstance(st.body[0], ast.Raise)))
        if not guard:
            raise ExtractError(f"spawn_daemons: unexpected statement before the loop: `{text[:120]}`")
    tail = [pyextract.norm(st) for st in body[k + 1:]]
    act = _spawn_act(body[k].body, pyextract.BoolTranslator(SPAWN_VOCAB))
    returns_delays = "delay := some" in act
    if tail == ["return delays"] and declares:
        pass
    elif tail == ["return []"] and not returns_delays and not declares:
        pass
    else:
        raise ExtractError(f"spawn_daemons: what it returns does not fit what its loop collects: {tail!r}")
    return act


def extract_match(tree: ast.AST) -> tuple[str, str]:
    """`match_daemons` → (`matchVisits notSelected flaggedMismatch`, `revisitNow selected gone`) as Lean Bool terms."""
    fn = pyextract.find_def(tree, "match_daemons")
    body = pyextract.body_without_docstring(fn)
    texts = [pyextract.norm(st) for st in body]
    if len(body) < 4 or texts[0] != "matching_daemon_ids = {handler.id for handler in handlers}" or texts[-1] != "return delays":
        raise ExtractError("match_daemons: the selected ids / the returned delays are not where they were")
    sel = body[1]
    comp = sel.value if isinstance(sel, ast.Assign) and pyextract.norm(sel.targets[0]) == "mismatching_daemons" else None
    if not isinstance(comp, ast.DictComp) or pyextract.norm(comp.key) != "daemon.handler.id" or pyextract.norm(comp.value) != "daemon" \
            or len(comp.generators) != 1 or pyextract.norm(comp.generators[0].target) != "daemon" \
            or pyextract.norm(comp.generators[0].iter) != "daemons.values()" or len(comp.generators[0].ifs) != 1:
        raise ExtractError("match_daemons: `mismatching_daemons` is no longer one filtered comprehension over daemons.values()")
    visits = pyextract.BoolTranslator(MATCH_VOCAB).tr(comp.generators[0].ifs[0])
    if texts[2] not in (f"delays = list(await {MATCH_STOP_CALL})", f"delays = await {MATCH_STOP_CALL}"):
        raise ExtractError(f"match_daemons: the visited daemons are not passed to stop_daemons(FILTERS_MISMATCH): `{texts[2][:120]}`")
    revisit = "false"
    rest = body[3:-1]
    if rest:
        st = rest[0]
        gen = st.test.args[0] if len(rest) == 1 and isinstance(st, ast.If) and not st.orelse and isinstance(st.test, ast.Call) \
            and pyextract.norm(st.test.func) == "any" and len(st.test.args) == 1 and not st.test.keywords else None
        if not isinstance(gen, ast.GeneratorExp) or len(gen.generators) != 1 or gen.generators[0].ifs \
                or pyextract.norm(gen.generators[0].target) != "id" or pyextract.norm(gen.generators[0].iter) != "mismatching_daemons" \
                or [pyextract.norm(x) for x in st.body] != ["delays.append(0)"] or not texts[2].startswith("delays = list("):
            raise ExtractError(f"match_daemons: statement outside the accepted shapes after the stop: `{pyextract.norm(st)[:120]}`")
        revisit = pyextract.BoolTranslator(REVISIT_VOCAB).tr(gen.elt)
    return visits, revisit


def extract(ctx: Ctx) -> None:
    src = ctx.repo / "kopf/_core/engines/daemons.py"
    tree = pyextract.parse_file(src)
    # ---- stop_daemons: the per-daemon loop body --------------------------------------------------------
    fn = pyextract.find_def(tree, "stop_daemons")
    loops = [st for st in pyextract.body_without_docstring(fn) if isinstance(st, ast.For)]
    if len(loops) != 1 or pyextract.norm(loops[0].iter) != "list(daemons.values())":
        raise ExtractError("stop_daemons is no longer one loop over list(daemons.values())")
    body = loops[0].body
    texts = [pyextract.norm(st) for st in body]
    if "age = now - (stopper.when if stopper.when is not None else now)" not in texts:
        raise ExtractError("stop_daemons: the age computation changed")
    sure = [st for st in body if isinstance(st, ast.If) and pyextract.norm(st.test) == "not stopper.is_set(reason=reason)"]
    if len(sure) != 1 or [pyextract.norm(x) for x in sure[0].body] != ["stopper.set(reason=reason)", WAIT_INSTANT] or sure[0].orelse:
        raise ExtractError("stop_daemons: the 'this flag must be surely set' block changed")
    chains = [st for st in body if isinstance(st, ast.If) and pyextract.norm(st.test) == "daemon.task.done()"]
    if len(chains) != 1 or body.index(sure[0]) > body.index(chains[0]):
        raise ExtractError("stop_daemons: the stage chain (if daemon.task.done(): ... elif ...) was not found after the flag block")
    for st in body:
        if st is sure[0] or st is chains[0] or isinstance(st, (ast.Assign, ast.Match)):
            continue
        raise ExtractError(f"stop_daemons: unexpected statement in the loop: `{pyextract.norm(st)[:100]}`")
    tr = pyextract.BoolTranslator(COND_VOCAB)
    node, parts = chains[0], []
    while True:
        parts.append(f"if {tr.tr(node.test)} then {_act_of(node.body)} else")
        if len(node.orelse) == 1 and isinstance(node.orelse[0], ast.If):
            node = node.orelse[0]
            continue
        if not node.orelse:
            raise ExtractError("stop_daemons: the stage chain has no final else")
        parts.append(_act_of(node.orelse))
        break
    stage = "\n    ".join(parts)
    # timers have neither backoff nor timeout — in both functions
    timers_none = True
    matches = [st for st in body if isinstance(st, ast.Match)]
    if len(matches) != 1:
        raise ExtractError("stop_daemons: expected one `match handler`")
    for case in matches[0].cases:
        if pyextract.norm(case.pattern) == "handlers_.TimerHandler()":
            got = {pyextract.norm(x) for x in case.body}
            timers_none = timers_none and {"backoff = None", "timeout = None"} <= got
    # ---- stop_daemon: the linear phases ---------------------------------------------------------------------
    fn2 = pyextract.find_def(tree, "stop_daemon")
    b2 = pyextract.body_without_docstring(fn2)
    t2 = [pyextract.norm(st) for st in b2]
    try:
        k = t2.index("daemon.stopper.set(reason=reason)")
    except ValueError:
        raise ExtractError("stop_daemon: the unconditional `daemon.stopper.set(reason=reason)` is gone")
    if t2[k + 1] != WAIT_INSTANT:
        raise ExtractError("stop_daemon: no instant-exit wait after setting the reason")
    head = b2[:k]
    if len(head) != 2 or not isinstance(head[1], ast.If):
        raise ExtractError("stop_daemon: unexpected prologue")
    tn = head[1]
    branch = tn.orelse[0] if tn.orelse and isinstance(tn.orelse[0], ast.If) else None
    if branch is None or pyextract.norm(branch.test) != "isinstance(handler, handlers_.TimerHandler)" or \
            {pyextract.norm(x) for x in branch.body} != {"backoff = None", "timeout = None"}:
        timers_none = False
    phases = []
    for st in b2[k + 2:]:
        if not isinstance(st, ast.If) or st.orelse:
            raise ExtractError(f"stop_daemon: unexpected statement after the flag: `{pyextract.norm(st)[:100]}`")
        test = pyextract.norm(st.test)
        if test == "daemon.task.done()":
            if not all(_is_log(x) for x in st.body):
                raise ExtractError("stop_daemon: the 'has exited gracefully' block does more than logging")
            continue
        need_b = test == "not daemon.task.done() and backoff is not None"
        need_t = test == "not daemon.task.done() and timeout is not None"
        if not (need_b or need_t or test == "not daemon.task.done()"):
            raise ExtractError(f"stop_daemon: phase guard outside the vocabulary: `{test}`")
        setr, cancel, wait = None, False, "KWait.nothing"
        for inner in st.body:
            it = pyextract.norm(inner)
            if it.startswith("daemon.stopper.set(reason="):
                setr = _reason(it[len("daemon.stopper.set(reason="):-1])
            elif it == "daemon.task.cancel()":
                cancel = True
            elif it == "await aiotasks.wait([daemon.task], timeout=backoff)":
                wait = "KWait.backoff"
            elif it == "await aiotasks.wait([daemon.task], timeout=timeout)":
                wait = "KWait.timeout"
            elif not _is_log(inner):
                raise ExtractError(f"stop_daemon: unexpected statement in a phase: `{it[:100]}`")
        if setr is None:
            raise ExtractError("stop_daemon: a phase sets no reason")
        bb = lambda x: "true" if x else "false"  # noqa: E731
        phases.append(f"{{ needsBackoff := {bb(need_b)}, needsTimeout := {bb(need_t)}, set := {setr}, cancel := {bb(cancel)}, wait := {wait} }}")
    # ---- daemon_killer: every loop that awaits in its body iterates a snapshot `list(...)` ---------------------------
    fk = pyextract.find_def(tree, "daemon_killer")
    await_loops = [n for n in ast.walk(fk) if isinstance(n, ast.For) and any(isinstance(x, ast.Await) for x in ast.walk(n))]
    iters = sorted(pyextract.norm(n.iter) for n in await_loops)
    snapshots = bool(await_loops) and all(i in ("list(memories.iter_all_daemon_memories())", "list(memory.running_daemons.values())")
                                          for i in iters) and "list(memory.running_daemons.values())" in iters
    # the pausing loop: `stop_daemon` is spawned for every listed daemon, unconditionally; rounds are 1.0 s apart
    pausing = [n for n in ast.walk(fk) if isinstance(n, ast.While) and pyextract.norm(n.test) == "operator_paused.is_on()"]
    if len(pausing) != 1:
        raise ExtractError("daemon_killer: the pausing loop `while operator_paused.is_on()` was not found")
    inner = [n for n in ast.walk(pausing[0]) if isinstance(n, ast.For) and pyextract.norm(n.target) == "daemon"]
    unconditional = len(inner) == 1 and len(inner[0].body) == 1 and isinstance(inner[0].body[0], ast.Expr) \
        and isinstance(inner[0].body[0].value, ast.Await) and pyextract.norm(inner[0].body[0].value.value.func) == "scheduler.spawn" \
        and "stop_daemon(" in pyextract.norm(inner[0].body[0]) and "OPERATOR_PAUSING" in pyextract.norm(inner[0].body[0])
    periods = [pyextract.literal(n.items[0].context_expr.args[0]) for n in ast.walk(pausing[0])
               if isinstance(n, ast.AsyncWith) and pyextract.norm(n.items[0].context_expr.func) == "asyncio.timeout"
               and len(n.items[0].context_expr.args) == 1]
    if len(periods) != 1 or not isinstance(periods[0], (int, float)) or float(periods[0]) * 64 != int(float(periods[0]) * 64):
        raise ExtractError(f"daemon_killer: the period of the pausing rounds is not one dyadic literal: {periods!r}")
    # ---- _timer: is the after-run idle loop guarded by the stopper? -------------------------------------------------
    guarded = timer_loop_guarded(tree)
    out = pyextract.HEADER.format(src="kopf/_core/engines/daemons.py")
    out += "import Kopf.Model.C09_Daemons\nnamespace Kopf.C09.Extracted\nopen Kopf.C09\n\n"
    out += "/-- the if/elif chain of `stop_daemons` over task.done() / age / backoff / timeout -/\n"
    out += f"def stage (a : Atoms) : Act :=\n    {stage}\n\n"
    out += "/-- the linear phases of `stop_daemon` -/\n"
    out += "def killerPhases : List KPhase :=\n  [ " + ",\n    ".join(phases) + " ]\n\n"
    out += f"/-- both functions set backoff = timeout = None for timers -/\ndef timersForceNone : Bool := {'true' if timers_none else 'false'}\n\n"
    out += ("/-- `while memory.idle_reset_time <= started [and not stopper.is_set()]` in `_timer` (informative: the theorems cover both) -/\n"
            f"def timerIdleLoopGuarded : Bool := {'true' if guarded else 'false'}\n\n")
    out += ("/-- every awaiting loop of `daemon_killer` iterates `list(...)` snapshots; found: " + "; ".join(iters).replace("-/", "") + " -/\n"
            f"def killerIteratesSnapshots : Bool := {'true' if snapshots else 'false'}\n\n")
    out += ("/-- the pausing loop spawns `stop_daemon(OPERATOR_PAUSING)` for every listed daemon without looking at its stopper -/\n"
            f"def sweepUnconditional : Bool := {'true' if unconditional else 'false'}\n\n"
            "/-- `asyncio.timeout(...)` between two rounds of the pausing loop, in ticks -/\n"
            f"def killerPeriod : Tick := {int(float(periods[0]) * 64)}\n\n")
    ft = pyextract.find_def(tree, "_timer")
    ff = [n for n in ast.walk(ft) if isinstance(n, ast.If) and pyextract.norm(n.test) == "state.done and state.counts.failure"
          and any(pyextract.norm(x) == "memory.forever_stopped.add(handler.id)" for x in n.body)]
    out += ("/-- `_timer`: `if state.done and state.counts.failure: memory.forever_stopped.add(handler.id)` (label `failForGood`) -/\n"
            f"def timerFailureIsForever : Bool := {'true' if len(ff) == 1 else 'false'}\n\n")
    out += ("/-- the retry loops of `_timer` and `_daemon` contain an unconditional `await asyncio.sleep(0)` at the top level of their body -/\n"
            f"def loopsYieldEachIteration : Bool := {'true' if loops_yield_each_iteration(tree) else 'false'}\n\n")
    out += ("/-- a DELETED event stops what runs for the object: `process_resource_event` calls `stop_daemons_of_gone_object` right after\n"
            "    `memories.forget`; that marks the memory `object_gone` and starts `stop_daemon(RESOURCE_DELETED)` for every running daemon;\n"
            "    `spawn_daemons` returns at once for such a memory -/\n"
            f"def stopsGone : Bool := {'true' if stops_gone(ctx.repo, tree) else 'false'}\n\n")
    out += ("/-- the killer's `finally:` starts with `memories.mark_operator_exiting()` (all memories, and — inventory — those created later);\n"
            "    `spawn_daemons` returns at once for a marked memory -/\n"
            f"def marksExiting : Bool := {'true' if marks_exiting(ctx.repo, tree) else 'false'}\n\n")
    out += ("/-- inventory: `iter_all_daemon_memories` — the view `mark_operator_exiting` goes over — yields the daemons-memory of\n"
            "    EVERY remembered object, with or without running daemons (Model/C09_Inventory.lean: `viewAll`) -/\n"
            f"def viewsEveryMemory : Bool := {'true' if views_every_memory(ctx.repo) else 'false'}\n\n")
    out += ("/-- every `aiotime.sleep(...)` of `_timer` and `_daemon` has the instance's stopper as its wake-up event\n"
            "    (`wakeup=stopper.async_event` / `wakeup=cause.stopper.async_event`): what the model's `sleepSuspends` presumes -/\n"
            f"def sleepsWakeOnStop : Bool := {'true' if sleeps_wake_on_stop(tree) else 'false'}\n\n")
    out += ("/-- `_timer`: the wait for the object to become idle is followed by `if stopper.is_set(): continue` (the model's\n"
            "    program point `idleDone`): a timer woken from that wait by its stopper does not call the function -/\n"
            f"def timerRechecksStopAfterIdle : Bool := {'true' if timer_rechecks_stop_after_idle(tree) else 'false'}\n\n")
    visits, revisit = extract_match(tree)
    out += ("/-- `spawn_daemons`, for one selected handler: over `handler.id in daemons` and `daemons[handler.id].stopper.is_set()` -/\n"
            f"def spawnAct (idTaken stopperSet : Bool) : SpawnAct :=\n  {extract_spawn(tree)}\n\n"
            "/-- `match_daemons`: the filter of the comprehension `mismatching_daemons` (which running daemons are handed to\n"
            "    `stop_daemons(FILTERS_MISMATCH)`), over `daemon.handler.id not in matching_daemon_ids` and\n"
            "    `daemon.stopper.is_set(reason=FILTERS_MISMATCH)` -/\n"
            f"def matchVisits (notSelected flaggedMismatch : Bool) : Bool := {visits}\n\n"
            "/-- `match_daemons`: `if any(<this> for id in mismatching_daemons): delays.append(0)` after the stop, over\n"
            "    `id in matching_daemon_ids` and `id not in daemons` (`false`: there is no such statement) -/\n"
            f"def revisitNow (selected gone : Bool) : Bool := {revisit}\n\n")
    out += "end Kopf.C09.Extracted\n"
    leanio.write_generated("Kopf/Extracted/C09.lean", out)


def sleeps_wake_on_stop(tree: ast.AST) -> bool:
    """Every call of `aiotime.sleep` in `_timer` / `_daemon` passes the stopper's event as `wakeup=`; and there is no
    other way of sleeping in them than that and the zero-time yield `asyncio.sleep(0)`."""
    ok = True
    n = 0
    for name in ("_timer", "_daemon"):
        fn = pyextract.find_def(tree, name)
        for node in ast.walk(fn):
            if not isinstance(node, ast.Call):
                continue
            f = pyextract.norm(node.func)
            if f == "aiotime.sleep":
                n += 1
                kw = {k.arg: pyextract.norm(k.value) for k in node.keywords}
                ok = ok and kw.get("wakeup") in ("stopper.async_event", "cause.stopper.async_event")
            elif f == "asyncio.sleep":
                ok = ok and len(node.args) == 1 and pyextract.norm(node.args[0]) == "0"
            elif f.endswith(".sleep") or f in ("asyncio.wait", "asyncio.wait_for", "aiotasks.wait"):
                ok = False
    return ok and n > 0


def timer_rechecks_stop_after_idle(tree: ast.AST) -> bool:
    fn = pyextract.find_def(tree, "_timer")
    blocks = [n for n in ast.walk(fn) if isinstance(n, ast.If) and pyextract.norm(n.test) == "handler.idle is not None" and not n.orelse]
    for b in blocks:
        if len(b.body) == 2 and isinstance(b.body[0], ast.While) and isinstance(b.body[1], ast.If):
            w, c = b.body
            if pyextract.norm(w.test).startswith("not stopper.is_set() and ") and pyextract.norm(c.test) == "stopper.is_set()" \
                    and not c.orelse and [pyextract.norm(x) for x in c.body] == ["continue"]:
                return True
    return False


def _spawn_guard(tree: ast.AST, attr: str) -> bool:
    """`if memory.<attr>: return []` among the statements of `spawn_daemons` that precede its spawning loop"""
    fn = pyextract.find_def(tree, "spawn_daemons")
    for st in pyextract.body_without_docstring(fn):
        if isinstance(st, ast.For):
            return False
        if isinstance(st, ast.If) and pyextract.norm(st.test) == f"memory.{attr}" and not st.orelse \
                and [pyextract.norm(x) for x in st.body] == ["return []"]:
            return True
    return False


def stops_gone(repo: Any, tree: ast.AST) -> bool:
    """The repair of F10 (25da2b9), read from the three places it consists of."""
    try:
        fn = pyextract.find_def(tree, "stop_daemons_of_gone_object")
    except Exception:
        return False
    body = pyextract.body_without_docstring(fn)
    texts = [pyextract.norm(st) for st in body]
    loops = [st for st in body if isinstance(st, ast.For)]
    marks = "memory.object_gone = True" in texts
    sweeps = len(loops) == 1 and pyextract.norm(loops[0].iter) == "list(memory.running_daemons.values())" \
        and not any(isinstance(x, (ast.If, ast.Continue, ast.Break, ast.Return)) for x in ast.walk(loops[0])) \
        and any("asyncio.create_task(" in pyextract.norm(x) and "stop_daemon(" in pyextract.norm(x)
                and "RESOURCE_DELETED" in pyextract.norm(x) for x in loops[0].body)
    ptree = pyextract.parse_file(repo / "kopf/_core/reactor/processing.py")
    pe = pyextract.find_def(ptree, "process_resource_event")
    called = False
    for n in ast.walk(pe):
        if isinstance(n, ast.If) and pyextract.norm(n.test) in ("raw_type == 'DELETED'", 'raw_type == "DELETED"'):
            bt = [pyextract.norm(x) for x in n.body]
            if "await memories.forget(raw_body)" in bt:
                k = bt.index("await memories.forget(raw_body)")
                called = called or (k + 1 < len(bt) and bt[k + 1] ==
                                    "await daemons.stop_daemons_of_gone_object(settings=settings, memory=memory.daemons_memory)")
    return marks and sweeps and called and _spawn_guard(tree, "object_gone")


def marks_exiting(repo: Any, tree: ast.AST) -> bool:
    """The repair of F13 (1d3a667), read from the places it consists of."""
    fk = pyextract.find_def(tree, "daemon_killer")
    tries = [n for n in ast.walk(fk) if isinstance(n, ast.Try) and n.finalbody]
    first = len(tries) == 1 and pyextract.norm(tries[0].finalbody[0]) == "memories.mark_operator_exiting()"
    base = False
    for cls in [n for n in ast.walk(tree) if isinstance(n, ast.ClassDef) and n.name == "DaemonsMemoriesIterator"]:
        for fn in [n for n in cls.body if isinstance(n, ast.FunctionDef) and n.name == "mark_operator_exiting"]:
            loops = [st for st in pyextract.body_without_docstring(fn) if isinstance(st, ast.For)]
            base = len(loops) == 1 and pyextract.norm(loops[0].iter) == "self.iter_all_daemon_memories()" \
                and [pyextract.norm(x) for x in loops[0].body] == ["memory.operator_exiting = True"]
    itree = pyextract.parse_file(repo / "kopf/_core/reactor/inventory.py")
    later = False
    for cls in [n for n in ast.walk(itree) if isinstance(n, ast.ClassDef) and n.name == "ResourceMemories"]:
        fns = {n.name: n for n in cls.body if isinstance(n, (ast.FunctionDef, ast.AsyncFunctionDef))}
        if "mark_operator_exiting" in fns and "recall" in fns:
            mt = [pyextract.norm(x) for x in pyextract.body_without_docstring(fns["mark_operator_exiting"])]
            rt = [pyextract.norm(x) for x in ast.walk(fns["recall"]) if isinstance(x, ast.stmt)]
            later = "self._operator_exiting = True" in mt and "super().mark_operator_exiting()" in mt \
                and "memory.daemons_memory.operator_exiting = self._operator_exiting" in rt
    return first and base and later and _spawn_guard(tree, "operator_exiting")


def views_every_memory(repo: Any) -> bool:
    """`ResourceMemories.iter_all_daemon_memories` yields the daemons-memory of EVERY remembered object, unconditionally:
    the view the exit mark (`mark_operator_exiting`) goes over — a memory without running daemons must be in it. Accepted:
    one loop over `self._items.values()` whose whole body is `yield memory.daemons_memory`, or one statement built on a
    single comprehension / generator over `self._items.values()` without a filter."""
    itree = pyextract.parse_file(repo / "kopf/_core/reactor/inventory.py")
    for cls in [n for n in ast.walk(itree) if isinstance(n, ast.ClassDef) and n.name == "ResourceMemories"]:
        for fn in [n for n in cls.body if isinstance(n, ast.FunctionDef) and n.name == "iter_all_daemon_memories"]:
            body = pyextract.body_without_docstring(fn)
            if len(body) != 1:
                return False
            st = body[0]
            if isinstance(st, ast.For):
                return pyextract.norm(st.iter) == "self._items.values()" and not st.orelse and len(st.body) == 1 \
                    and pyextract.norm(st.body[0]) == f"yield {pyextract.norm(st.target)}.daemons_memory"
            comps = [n for n in ast.walk(st) if isinstance(n, (ast.GeneratorExp, ast.ListComp))]
            if isinstance(st, (ast.Expr, ast.Return)) and len(comps) == 1 and len(comps[0].generators) == 1:
                g = comps[0].generators[0]
                return pyextract.norm(g.iter) == "self._items.values()" and not g.ifs \
                    and pyextract.norm(comps[0].elt) == f"{pyextract.norm(g.target)}.daemons_memory" \
                    and not any(isinstance(n, (ast.If, ast.IfExp)) for n in ast.walk(st))
            return False
    return False


def loops_yield_each_iteration(tree: ast.AST | None = None) -> bool:
    """True when the retry loops of both `_timer` and `_daemon` contain an unconditional `await asyncio.sleep(0)` at the
    top level of their body (a repair of F12): then every run of the micro-step models counts as yielding."""
    if tree is None:
        tree = pyextract.parse_file(_repo() / "kopf/_core/engines/daemons.py")
    ok = []
    for name, test in (("_timer", "not stopper.is_set()"), ("_daemon", "not stopper.is_set() and (not state.done)")):
        fn = pyextract.find_def(tree, name)
        loops = [n for n in ast.walk(fn) if isinstance(n, ast.While) and pyextract.norm(n.test) == test]
        ok.append(len(loops) == 1 and any(pyextract.norm(st) == "await asyncio.sleep(0)" for st in loops[0].body))
    return all(ok)


def timer_loop_guarded(tree: ast.AST | None = None) -> bool:
    """Reads the after-run idle loop of `_timer` from the source under test."""
    if tree is None:
        tree = pyextract.parse_file(_repo() / "kopf/_core/engines/daemons.py")
    fn = pyextract.find_def(tree, "_timer")
    loops = [n for n in ast.walk(fn) if isinstance(n, ast.While) and pyextract.norm(n.test).startswith("memory.idle_reset_time <= started")]
    if len(loops) != 1:
        raise ExtractError("_timer: the after-run idle loop `while memory.idle_reset_time <= started` was not found")
    test = pyextract.norm(loops[0].test)
    if test == "memory.idle_reset_time <= started":
        return False
    if test in ("memory.idle_reset_time <= started and (not stopper.is_set())", "memory.idle_reset_time <= started and not stopper.is_set()"):
        return True
    raise ExtractError(f"_timer: after-run idle loop with an unknown condition `{test}`")


# =================================================================================================
#  Part 6 — the check
# =================================================================================================
WALL = 90.0
CHUNK = 400
LEAN_TARGETS = ["Kopf.Tie.C09"]


def _corpus() -> list[tuple[str, dict]]:
    from ..core import load_corpus
    out = []
    for name, d in load_corpus(ID):
        sc = d.get("scenario", d)
        sc = dict(sc)
        sc["runner"] = RUNNER
        out.append((name, sc))
    return out


def _shape(req: list, impl: Any) -> tuple[Any, bool]:
    """Abstracted case (for the distinct count) and whether it hit a non-default branch."""
    if req[0] == "C09.cycle":
        r = req[1]
        hs = []
        busy = False
        for h, o in zip(r["handlers"], impl["handlers"]):
            pre = h["pre"]
            post = o["run"]
            added = sorted(set(post["reasons"]) - set(pre["reasons"] if pre else [])) if post else None
            hs.append([h["id"][0], h["backoff"] is not None, h["timeout"] is not None, h["matching"], h["forever"],
                       None if pre is None else pre["reasons"], h["ex1"], h["ex2"], o["spawned"], added,
                       bool(post and post["cancelled"] and not (pre and pre["cancelled"])), o["forever"]])
            busy = busy or o["spawned"] or bool(added) or (pre is not None and post is None)
        return ["cycle", r["marked"], r["paused"], r["deleted"], r["exiting"], hs, len(impl["delays"])], busy
    if req[0] == "C09.kplan":
        r = req[1]
        return ["killer", r["backoff"] is not None, r["timeout"] is not None, r["reason"], r["done"], [x[1] for x in impl]], True
    if req[0] == "C09.due":
        return ["due", (req[1]["t"] - req[1]["p"]) // 64, req[1]["since"] >= req[1]["p"]], True
    if req[0] == "C09.sweep":
        return ["round", sorted({tuple(d["reasons"]) for d in req[1]}), sorted(set(impl))], True
    if req[0] == "C09.gone":
        return ["gone", sorted({tuple(d["reasons"]) for d in req[1]}), sorted(set(impl))], True
    return ["exit", req[1]["reasons"], impl["forever"]], True


def _open_signatures() -> list[dict]:
    from ..core import load_findings
    return [f.get("signature") for f in load_findings() if f.get("property") == ID and f.get("status") == "open"]


def _confirm(ctx: Ctx, sc: dict, n_before: int) -> None:
    """A simulation is a pure function of (tree, scenario): an oracle failure that is not a known open finding is
    re-run once in a fresh worker and kept only if the same signature fails again. What does not reproduce is not a
    verdict about kopf: it is counted (`unconfirmed`) and written to stderr, never reported as a VIOLATION."""
    new = [f for f in ctx.failures[n_before:] if f.kind == "oracle"]
    known = _open_signatures()
    suspects = [f for f in new if f.signature not in known]
    if not suspects:
        return
    from ..sim import pool
    res2 = pool.run_many([sc], wall=WALL, batch=1)[0]
    scratch = Ctx(ctx.prop, ctx.tier, ctx.seed)
    if "harness_error" not in res2:
        oracle(scratch, sc, res2)
    again = [f.signature for f in scratch.failures if f.kind == "oracle"]
    for f in suspects:
        if f.signature in again:
            ctx.count("confirmed_on_rerun", str((f.signature or {}).get("shape")))
        else:
            ctx.failures.remove(f)
            ctx.count("unconfirmed", str((f.signature or {}).get("shape")))
            ctx.extra.setdefault("unconfirmed", []).append({"what": f.what, "scenario_seed": sc.get("seed")})
            print(f"C09: an oracle failure did not reproduce on re-run (harness nondeterminism, not a verdict): {f.what[:160]}",
                  file=sys.stderr)


def _run_batch(ctx: Ctx, scenarios: list[dict], names: list[str | None], oracle_only: bool = False) -> dict:
    from ..sim import pool
    agg = {"stalls": 0, "f1_stalls": 0}
    for k in range(0, len(scenarios), CHUNK):
        chunk = scenarios[k:k + CHUNK]
        results = pool.run_many(chunk, wall=WALL, batch=max(4, min(25, -(-len(chunk) // 16))))
        reqs: list = []
        impls: list = []
        where: list = []
        for sc, res, name in zip(chunk, results, names[k:k + CHUNK]):
            if "harness_error" in res:
                raise RuntimeError(f"simulation failed: {res.get('harness_error')}\n{res.get('tb', '')[-1500:]}")
            ctx.traces += 1
            for h in sc["handlers"]:
                if h["kind"] == "daemon":
                    ctx.count("daemon_mode", h["daemon"]["mode"])
                    ctx.count("backoff", h.get("opts", {}).get("cancellation_backoff"))
                    ctx.count("timeout", h.get("opts", {}).get("cancellation_timeout"))
                elif h["kind"] == "timer":
                    o = h.get("opts", {})
                    ctx.count("timer_cfg", ("interval" if "interval" in o else "") + ("+idle" if "idle" in o else "") or "neither")
                    if h.get("noawait"):
                        ctx.count("nonyielding", f"timer {h.get('default')}")
                if h["kind"] == "daemon" and h["daemon"]["mode"] == "retry":
                    ctx.count("nonyielding", f"daemon retry delay={h['daemon'].get('delay')}")
            for e in sc["timeline"]:
                ctx.count("timeline_op", e[1])
            n_before = len(ctx.failures)
            info = oracle(ctx, sc, res)
            _confirm(ctx, sc, n_before)
            if res.get("stall"):
                agg["stalls"] += 1
                agg["f1_stalls"] += int(info.get("stall") == F1_SIG)
                ctx.count("result", "stall: " + str((info.get("stall") or {}).get("shape")))
                ctx.case(key=["stall", info.get("stall")], nontrivial=True)
                continue
            ctx.count("result", "completed")
            ctx.extra["max_start_latency_s"] = max(ctx.extra.get("max_start_latency_s", 0.0), info["max_start_latency"])
            ctx.extra["max_stop_latency_s"] = max(ctx.extra.get("max_stop_latency_s", 0.0), info["max_stop_latency"])
            ctx.extra["max_deferred_start_latency_s"] = max(ctx.extra.get("max_deferred_start_latency_s", 0.0),
                                                            info.get("max_deferred_start_latency", 0.0))
            if sc.get("flavour"):
                ctx.count("flavour", sc["flavour"])
            if sc.get("oracle_only"):
                ctx.count("result", "oracle only (instant_exit_timeout set: outside the model's assumptions)")
            if oracle_only or sc.get("oracle_only"):
                continue
            tr = res["trace"]
            rq, im, wh, st = tie_requests(sc, tr)
            for g in st["log_gaps"][:3]:
                ctx.tie_fail("a stopper changed without a logged event (instrumentation gap)", {"scenario": sc, **g})
            for key in ("cycles", "skipped_concurrent", "killer", "killer_incomplete", "exits", "rounds", "dues", "gone"):
                ctx.count("tie_units", key, st.get(key, 0))
            for r_, i_, w_ in zip(rq, im, wh):
                reqs.append(r_)
                impls.append(i_)
                where.append({"scenario": sc, **w_, "corpus": name})
        if not reqs:
            continue
        try:
            outs = ctx.driver.ask(reqs)
        except leanio.LeanError as e:
            ctx.tie_fail(f"Lean driver failed: {e}", {"log": e.log})
            return agg
        for req, impl, out, wh in zip(reqs, impls, outs, where):
            if not out or out[0] != "ok":
                ctx.tie_fail("the driver rejected a step", {"request": req, "answer": out, **wh})
                continue
            m = out[1]
            if req[0] == "C09.cycle":
                model = {"handlers": [{k: h[k] for k in ("id", "spawned", "run", "forever")} for h in m["handlers"]],
                         "delays": m["delays"],
                         "known": all(h["known"] for h in m["handlers"]) if m["handlers"] else impl["known"]}
                if impl["known"] is None:
                    model["known"] = None
            elif req[0] == "C09.due":
                model = {"round": m["round"], "byDue": m["byDue"]}
            else:
                model = m
            key, busy = _shape(req, impl)
            ctx.case(key=key, nontrivial=busy,
                     sample={"request": req, "impl": impl, "scenario_seed": wh["scenario"].get("seed")} if busy and wh["kind"] != "exit" else None)
            ctx.count("case_kind", wh["kind"])
            ctx.compare(f"C09 {wh['kind']}", impl, model, {"request": req, **wh})
    return agg


def run(ctx: Ctx) -> None:
    try:
        guarded = timer_loop_guarded()
    except ExtractError:
        guarded = None
    ctx.extra["timer_idle_loop_guarded_in_tree"] = guarded
    corpus = _corpus()
    n = ctx.budget(200, 10000)
    gen = [gen_scenario(ctx.rng, ctx.seed * 1_000_000 + i) for i in range(n)]
    agg = _run_batch(ctx, [sc for _, sc in corpus] + gen, [nm for nm, _ in corpus] + [None] * len(gen))
    ctx.extra["stalls"] = agg
    # the micro-step models against the tree, on non-yielding runs: the real run stalls <=> the model never settles
    from ..sim import pool as _pool
    micro = []
    for kind, delay in [("timer", 0), ("timer", None), ("timer", 0.5), ("timer", 1.0 / 64), ("timer", "ok"),
                        ("daemon", 0), ("daemon", 1.0), ("daemon", 1.0 / 64)]:
        if kind == "timer":
            hh = {"kind": "timer", "id": "t1", "opts": {"interval": 1.0}, "noawait": True,
                  "default": "ok" if delay == "ok" else ["temp", delay]}
        else:
            hh = {"kind": "daemon", "id": "d1", "opts": {}, "daemon": {"mode": "retry", "delay": delay}}
        micro.append((kind, delay, {"runner": RUNNER, "seed": 1, "handlers": [hh], "timeline": [[1.0, "create", "a", {"spec": {"x": 0}}]],
                                    "end": 5.0, "settings": {}}))
    mres = _pool.run_many([m[2] for m in micro], wall=WALL, batch=1)
    mreq = []
    try:
        always_yield = loops_yield_each_iteration()
    except ExtractError:
        always_yield = False
    ctx.extra["retry_loops_yield_each_iteration_in_tree"] = always_yield
    for kind, delay, _sc in micro:
        out = {"done": delay == "ok", "failed": False, "errDelay": 0 if delay in (None, "ok") else _ticks(float(delay)),
               "yields": False}
        env = {"now": 100, "stop": False, "idleReset": 0}
        if kind == "timer":
            mreq.append(["C09.timer", {"cfg": {"initialDelay": None, "idle": None, "interval": 64, "sharp": False, "guarded": bool(guarded),
                                               "yielding": always_yield},
                                       "env": env, "loc": {"pc": "head", "started": 0, "done": False, "failed": False, "errDelay": 0},
                                       "outcome": out, "k": 200}])
        else:
            mreq.append(["C09.daemon", {"env": env, "initialDelay": None, "yielding": always_yield, "outcome": out, "k": 200}])
    try:
        mouts = ctx.driver.ask(mreq)
        for (kind, delay, msc), res, out in zip(micro, mres, mouts):
            stalled = bool(res.get("stall")) and classify_stall(res)[1] == F12_SIG
            if "harness_error" in res:
                raise RuntimeError(res["harness_error"])
            ctx.case(key=["micro", kind, str(delay), stalled], nontrivial=True)
            ctx.count("micro_model", f"{kind} non-yielding, retry delay {delay}: {'stalls' if stalled else 'runs'}")
            ctx.compare(f"{kind} micro-steps: the real run stalls <=> the model (variant read from the tree) never settles",
                        {"stalls": stalled}, {"stalls": not out[1]["settles"]},
                        {"scenario": msc, "request": mreq[micro.index((kind, delay, msc))]})
    except leanio.LeanError as e:
        ctx.tie_fail(f"Lean driver failed: {e}", {"log": e.log})
    # the micro-step model against the tree: the F1 witness spins in the model iff the real run stalls
    f1 = next((sc for nm, sc in corpus if nm == "F1.json"), None)
    if f1 is not None and guarded is not None:
        from ..sim import pool
        res = pool.run_many([f1], wall=WALL)[0]
        stalled = bool(res.get("stall")) and classify_stall(res)[1] == F1_SIG
        req = ["C09.timer", {"cfg": {"initialDelay": None, "idle": 64, "interval": None, "sharp": False, "guarded": guarded,
                                     "yielding": False},
                             "env": {"now": 256, "stop": True, "idleReset": 64},
                             "loc": {"pc": "idleLoop", "started": 129, "done": True, "failed": False, "errDelay": 0},
                             "outcome": {"done": True, "failed": False, "errDelay": 0, "yields": True}, "k": 64}]
        try:
            out = ctx.driver.ask([req, ["C09.variant"]])
            ctx.compare("F1 witness: the real run stalls in the idle loop <=> the micro-step model spins", stalled,
                        out[0][1]["spinning"] and not out[0][1]["settles"], {"scenario": f1, "guarded_in_tree": guarded})
            if out[1][1]["treeGuarded"] != guarded or out[1][1]["treeYielding"] != ctx.extra.get("retry_loops_yield_each_iteration_in_tree"):
                ctx.notes.append("Model.treeGuarded differs from the tree under test (informative; the theorems cover both variants)")
                print(f"C09 note: tree variant (idle loop guarded={guarded}, retry loops yield="
                      f"{ctx.extra.get('retry_loops_yield_each_iteration_in_tree')}) differs from the model's constants "
                      f"(treeGuarded={out[1][1]['treeGuarded']}, treeYielding={out[1][1]['treeYielding']})", file=sys.stderr)
        except leanio.LeanError as e:
            ctx.tie_fail(f"Lean driver failed: {e}", {"log": e.log})


def search(ctx: Ctx, broken: list) -> None:
    """A proof/tie is broken and the oracle saw nothing so far: look for a failing history, oracle only."""
    n = ctx.budget(1500, 6000)
    gen = [gen_scenario(ctx.rng, 7_000_000 + ctx.seed * 1_000_000 + i) for i in range(n)]
    for b in broken[:10]:
        sc = (b.replay or {}).get("input", {}).get("scenario") if isinstance(b.replay, dict) else None
        if sc:
            gen.insert(0, sc)
    for k in range(0, len(gen), CHUNK):
        _run_batch(ctx, gen[k:k + CHUNK], [None] * len(gen[k:k + CHUNK]), oracle_only=True)
        known = _open_signatures()
        if any(f.kind == "oracle" and f.signature not in known for f in ctx.failures):
            return


def replay(ctx: Ctx, data: dict) -> None:
    rep = data.get("replay", data)
    sc = rep.get("scenario") or rep.get("input", {}).get("scenario")
    if sc is None:
        print("C09: the replay file names a broken obligation, not a scenario: re-running the check", file=sys.stderr)
        run(ctx)
        return
    sc = dict(sc)
    sc["runner"] = RUNNER
    _run_batch(ctx, [sc], [None])
