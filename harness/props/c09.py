"""C09 — daemon/timer lifecycle: one instance, started on match, stopped in stages, never stalls.

Theorems: lean/Kopf/Props/C09.lean over lean/Kopf/Model/C09_Daemons.lean (per (object, handler id)
lifecycle automaton + micro-steps of `_timer`).
Ties: (T) the if/elif stage chain of `daemons.stop_daemons` and the phase list of `stop_daemon` are
regenerated from the AST and proved equal to the model (Kopf/Tie/C09.lean); (S) every
`process_spawning_cause` pass and every daemon-killer `stop_daemon` run of closed-loop simulations of
the REAL operator is replayed through the model (same spawns, same stopper reasons / `when` /
cancellation, same `forever_stopped`, same delays); stalls are caught by a spin detector + the
pool's watchdog.  The oracle reads only: enter/exit of the daemon/timer functions and of their
runner tasks, the stop flags' set-log, the server-side object history and the scenario's timeline.

Harness features implemented locally (see the final report): pause/resume by toggling the operator's
own `operator_paused` ToggleSet (captured from the `daemon_killer` call), a `TaskProxy` around
`Daemon.task` to see the `done()`/`cancel()` calls of the stopping logic, a deterministic spin
detector on `aiotime.sleep`, own daemon/timer functions (obey / cancel / ignore / exit).
"""
from __future__ import annotations

import ast
import asyncio
import contextlib
import contextvars
import copy
import json
import os
import sys
from typing import Any, Iterator

from .. import leanio, pyextract
from ..core import Ctx, ExtractError

ID = "C09"
LEVEL = "proof"
ENGINES = ["lean-model", "pyextract", "kopfsim"]
TIE = ("T: stage chain of stop_daemons + phase list of stop_daemon (AST → Lean, re-proved equal to the model); "
       "S: every process_spawning_cause pass and every daemon-killer stop_daemon run of whole-operator simulations "
       "replayed through the Lean model; spin detector + pool watchdog for stalls")
LEVEL_TEXT = (
    "Lean theorems for ALL label lists (cycles with any matching/marked/paused/DELETED inputs and any observation of the task, "
    "daemon-killer stages, the instance ending at any moment, any time steps, any backoff/timeout): at_most_one + "
    "spawn_only_when_none, started_on_match, self_exit_is_remembered + no_restart_after_self_exit, staged + staged_monotone, "
    "stop_reasons. 'Stopping never stalls' is a theorem about a micro-step model of _timer: `progress` for the variant with the "
    "loop guard, `progress_partial` with the exact guard + the negation `idle_only_spins(+_witness)` for the tree as it is "
    "(finding F1, reproduced through the pool on every run). The clause 'asked to stop when the object disappears' is false "
    "for DELETED events without deletionTimestamp: negation proved (gone_unmarked_not_stopped, orphan_never_stopped, "
    "gone_unmarked_witness) and reproduced (finding F10). Runtime residue the model cannot exhibit: real threads of sync "
    "daemons, CPython's scheduling of same-instant callbacks.")
THEOREMS = [("Kopf.Props.C09", "Kopf.C09." + n) for n in [
    "at_most_one", "spawn_only_when_none", "started_on_match", "self_exit_is_remembered", "no_restart_after_self_exit",
    "staged", "staged_monotone", "stop_reasons", "exit_reaches_known", "gone_unmarked_not_stopped", "orphan_never_stopped",
    "gone_unmarked_witness", "progress", "progress_partial", "idle_only_spins", "idle_only_spins_witness"]]
TIE_THEOREMS = [("Kopf.Tie.C09", "Kopf.C09.Tie." + n) for n in ["stage_eq", "killer_phases_eq", "timers_force_none"]]
RULE = ("seeded whole-operator histories: 1-2 objects, 1-3 daemons/timers (modes obey/cancel/ignore/exit; cancellation_backoff/"
        "timeout in {None,0,small,large}; timers with interval/idle/both/neither, sharp, initial_delay), optional label filter and "
        "change handler, timeline of label toggles, spec edits, graceful deletion, deletion before the finalizer lands, forced "
        "finalizer removal + deletion, pause/resume, graceful restarts and kills at dyadic times; one case = one "
        "process_spawning_cause pass or one daemon-killer stop_daemon run; distinct & non-trivial = distinct abstracted "
        "(inputs, pre-state shape, stage taken) tuples in which something is spawned, flagged, cancelled, abandoned or ended")
TRUSTED = ["harness/sim (virtual-time loop, fake API server) + the local instrumentation in harness/props/c09.py",
           "pyextract atom vocabulary for daemons.stop_daemons / stop_daemon",
           "the oracle's reading of 'matches' (label equality/presence filters only) and its reaction allowance of 1 s virtual time"]
ASSUMPTIONS = ["settings.background.instant_exit_timeout is None (the default): no time passes inside one stop_daemons call",
               "async daemons/timers only (sync ones run in real threads: outside the model)",
               "CPython >= 3.12 semantics of asyncio.wait_for (an already-set event does not suspend): on 3.10/3.11 the F1 loop "
               "burns CPU but yields to the loop",
               "no event for a uid follows its DELETED event (Kubernetes API guarantee)",
               "the handler call + patch round-trip of a timer run suspends at least once; timers have idle > 0"]

F1_SIG = {"site": "daemons._timer", "shape": "idle-only timer spins without suspending after its stopper is set"}
F10_SIG = {"site": "processing.process_spawning_cause",
           "shape": "DELETED event without deletionTimestamp: running daemons/timers are never asked to stop"}
RUNNER = "harness.props.c09:run_scenario"
PRIMARY = ["FILTERS_MISMATCH", "RESOURCE_DELETED", "OPERATOR_PAUSING", "OPERATOR_EXITING"]
R2L = {"DONE": "done", "FILTERS_MISMATCH": "mismatch", "RESOURCE_DELETED": "deleted", "OPERATOR_PAUSING": "pausing",
       "OPERATOR_EXITING": "exiting", "DAEMON_SIGNALLED": "signalled", "DAEMON_CANCELLED": "cancelled",
       "DAEMON_ABANDONED": "abandoned"}
DELTA = 1.0            # virtual seconds the operator is given to react to an event (measured: a few 1/64 s)
SPIN_LIMIT = 20000


# =================================================================================================
#  Part 1 — inside the worker subprocess: Sim with own daemons/timers, pause/resume, instrumentation
# =================================================================================================
def _ticks(x: float | None) -> int | None:
    if x is None:
        return None
    from ..sim import observe
    return observe.to_ticks(x)


def _names(flag: Any) -> list[str]:
    if flag is None:
        return []
    return sorted(m.name for m in type(flag) if m in flag)


class Recorder:
    """Sequential event log of one scenario (see the module docstring for what is observed)."""

    def __init__(self, sim: Any):
        self.sim = sim
        self.ev: list[dict] = []
        self.calls: list[dict] = []
        self.by_stopper: dict[int, dict] = {}
        self.keep: list[Any] = []          # keeps stoppers alive so that id() stays unique
        self.n_sid = 0
        self.n_cyc = 0
        self.n_k = 0
        self.toggles: dict[int, Any] = {}  # incarnation -> operator_paused ToggleSet
        self.pause_toggle: dict[int, Any] = {}
        self.spawn_ctx: dict | None = None

    def log(self, e: str, **kw: Any) -> dict:
        from ..sim import runner
        rec = {"e": e, "seq": len(self.ev), "t": self.sim.now(), "inc": runner._incarnation.get(), **kw}
        self.ev.append(rec)
        return rec

    def muted(self) -> bool:
        from ..sim import runner
        return runner._incarnation.get() in self.sim.obs.dead

    # ---- the scripted daemon / timer functions ---------------------------------------------------
    def make_handler(self, h: dict) -> Any:
        if h["kind"] == "daemon":
            return self._make_daemon(h)
        if h["kind"] == "timer":
            return self._make_timer(h)
        return self.sim.obs.make_handler(h)

    def _call_rec(self, h: dict, kwargs: dict) -> dict:
        from ..sim import runner
        meta = (kwargs.get("body") or {}).get("metadata", {})
        rec = {"t": self.sim.now(), "inc": runner._incarnation.get(), "id": h["id"], "kind": h["kind"],
               "uid": meta.get("uid"), "name": meta.get("name"), "t_end": None, "outcome": None}
        self.calls.append(rec)
        return rec

    def _make_daemon(self, h: dict) -> Any:
        d = h.get("daemon", {})
        mode, after = d.get("mode", "obey"), float(d.get("after", 4.0))

        async def daemon(**kwargs: Any) -> Any:
            if self.muted():
                raise asyncio.CancelledError()
            stopped = kwargs["stopped"]
            rec = self._call_rec(h, kwargs)
            rec["mode"] = mode
            try:
                if mode == "exit":
                    await asyncio.sleep(after)
                    rec["outcome"] = "own-exit"
                    rec["flag_at_exit"] = bool(stopped)
                    return None
                if mode == "obey":
                    await stopped.wait()
                    rec["outcome"] = "obeyed"
                    rec["stop_reason"] = _names(stopped.reason)
                    return None
                while True:       # cancel / ignore: never looks at the flag
                    try:
                        await asyncio.sleep(2.0 ** 20)
                    except asyncio.CancelledError:
                        rec.setdefault("cancels", []).append(self.sim.now())
                        reasons = _names(stopped.reason)
                        # "ignore" gives in only once the framework has given up on it (abandoned), or when
                        # the cancellation is not part of the stopping protocol at all (kill / exit sweep)
                        if mode == "cancel" or self.muted() or "DAEMON_ABANDONED" in reasons or not reasons \
                                or len(rec["cancels"]) > 50:
                            rec["outcome"] = "cancelled"
                            rec["stop_reason"] = reasons
                            raise
            finally:
                rec["t_end"] = self.sim.now()
                rec["muted_end"] = self.muted()

        daemon.__name__ = daemon.__qualname__ = h["id"]
        return daemon

    def _make_timer(self, h: dict) -> Any:
        script = list(h.get("script", []))
        dur = float(h.get("dur", 1.0 / 64))

        async def timer(**kwargs: Any) -> Any:
            if self.muted():
                raise asyncio.CancelledError()
            import kopf
            rec = self._call_rec(h, kwargs)
            key = (rec["uid"], h["id"])
            n = self.sim.obs.counters.get(key, 0)
            self.sim.obs.counters[key] = n + 1
            rec["n"] = n
            try:
                await asyncio.sleep(dur)
                act = script[n] if n < len(script) else "ok"
                rec["outcome"] = act if isinstance(act, str) else act[0]
                if isinstance(act, list) and act[0] == "temp":
                    raise kopf.TemporaryError("scripted", delay=float(act[1]))
                return None
            finally:
                rec["t_end"] = self.sim.now()

        timer.__name__ = timer.__qualname__ = h["id"]
        return timer


class TaskProxy:
    """Stands in for `Daemon.task`: logs the `done()` / `cancel()` calls made by the stopping logic."""

    def __init__(self, task: Any, rec: dict, recorder: Recorder):
        self.__dict__["_t"] = task
        self.__dict__["_rec"] = rec
        self.__dict__["_r"] = recorder

    def done(self) -> bool:
        r = self._t.done()
        f = sys._getframe(1)
        site = f.f_code.co_name
        if site in ("stop_daemons", "stop_daemon"):
            self._r.log("done?", sid=self._rec["sid"], site=site, line=f.f_lineno, r=r, cid=_cur_stop.get(), kid=_cur_kill.get())
        return r

    def cancel(self, *a: Any, **k: Any) -> bool:
        f = sys._getframe(1)
        site = f.f_code.co_name
        self._r.log("cancel", sid=self._rec["sid"], site=site, cid=_cur_stop.get(), kid=_cur_kill.get())
        return self._t.cancel(*a, **k)

    def __getattr__(self, name: str) -> Any:
        return getattr(self._t, name)

    def __repr__(self) -> str:
        return f"<TaskProxy of {self._t!r}>"


_cur_stop: contextvars.ContextVar[int | None] = contextvars.ContextVar("c09_stop", default=None)
_cur_kill: contextvars.ContextVar[int | None] = contextvars.ContextVar("c09_kill", default=None)
_cur_mems: contextvars.ContextVar[Any] = contextvars.ContextVar("c09_memories", default=None)


def _while_test_at(filename: str, lineno: int) -> tuple[str | None, str | None]:
    """(enclosing function name, test of the innermost `while` loop containing the line)."""
    try:
        tree = ast.parse(open(filename).read())
    except Exception:  # noqa: BLE001
        return None, None
    best: tuple[int, str] | None = None
    func = None
    for node in ast.walk(tree):
        if isinstance(node, (ast.FunctionDef, ast.AsyncFunctionDef)) and node.lineno <= lineno <= (node.end_lineno or 0):
            func = node.name
        if isinstance(node, ast.While) and node.lineno <= lineno <= (node.end_lineno or 0):
            if best is None or node.lineno > best[0]:
                best = (node.lineno, ast.unparse(node.test))
    return func, (best[1] if best else None)


@contextlib.contextmanager
def instrumented(sim: Any, R: Recorder) -> Iterator[None]:
    from kopf._cogs.aiokits import aioenums, aiotime
    from kopf._core.engines import daemons
    from kopf._core.reactor import processing
    from ..sim import runner

    o_Daemon, o_set = daemons.Daemon, aioenums.FlagSetter.set
    o_runner, o_sd, o_sdn, o_killer = daemons._runner, daemons.stop_daemons, daemons.stop_daemon, daemons.daemon_killer
    o_spawn, o_pause, o_psc, o_pre = daemons.spawn_daemons, daemons.pause_daemons, processing.process_spawning_cause, \
        processing.process_resource_event
    o_sleep = aiotime.sleep

    def snap_stopper(st: Any) -> dict:
        return {"reasons": _names(st.reason), "when": _ticks(st.when)}

    def Daemon(**kw: Any) -> Any:
        R.n_sid += 1
        ctxinfo = R.spawn_ctx or {}
        rec = {"sid": R.n_sid, "hid": str(kw["handler"].id), "uid": ctxinfo.get("uid"), "stopper": kw["stopper"]}
        R.by_stopper[id(kw["stopper"])] = rec
        R.keep.append(kw["stopper"])
        kw["task"] = TaskProxy(kw["task"], rec, R)
        R.log("spawn", sid=rec["sid"], hid=rec["hid"], uid=rec["uid"], cyc=ctxinfo.get("cyc"))
        return o_Daemon(**kw)

    def fset(self: Any, reason: Any = None) -> None:
        rec = R.by_stopper.get(id(self))
        prior = _names(self.reason) if rec is not None else None
        o_set(self, reason)
        if rec is not None:
            R.log("set", sid=rec["sid"], reason=_names(reason), prior=prior, site=sys._getframe(1).f_code.co_name,
                  lt=_ticks(asyncio.get_running_loop().time()), when=_ticks(self.when), cid=_cur_stop.get(), kid=_cur_kill.get())

    async def _runner(**kw: Any) -> None:
        rec = R.by_stopper.get(id(kw["cause"].stopper))
        sid = rec["sid"] if rec else None
        R.log("run0", sid=sid)
        hid, mem = kw["handler"].id, kw["memory"]
        try:
            await o_runner(**kw)
        finally:
            R.log("end", sid=sid, forever=hid in mem.forever_stopped, still_listed=hid in mem.running_daemons,
                  muted=R.muted())

    async def stop_daemons(**kw: Any) -> Any:
        R.n_cyc += 1
        cid = R.n_cyc
        snap = []
        for d in list(kw["daemons"].values()):
            rec = R.by_stopper.get(id(d.stopper))
            snap.append(rec["sid"] if rec else None)
        reason = kw.get("reason")
        R.log("sd0", cid=cid, cyc=(_cur_cyc.get() or {}).get("cyc"),
              reason=_names(reason) if reason is not None else ["RESOURCE_DELETED"], snap=snap,
              lt=_ticks(asyncio.get_running_loop().time()), site=sys._getframe(1).f_code.co_name)
        tok = _cur_stop.set(cid)
        try:
            out = await o_sd(**kw)
        finally:
            _cur_stop.reset(tok)
        R.log("sd1", cid=cid, delays=[_ticks(float(x)) for x in out], lt=_ticks(asyncio.get_running_loop().time()))
        return out

    async def stop_daemon(**kw: Any) -> None:
        R.n_k += 1
        kid = R.n_k
        rec = R.by_stopper.get(id(kw["daemon"].stopper))
        R.log("k0", kid=kid, sid=rec["sid"] if rec else None, reason=_names(kw["reason"]),
              lt=_ticks(asyncio.get_running_loop().time()), pre=snap_stopper(kw["daemon"].stopper))
        tok = _cur_kill.set(kid)
        try:
            await o_sdn(**kw)
        finally:
            _cur_kill.reset(tok)
            R.log("k1", kid=kid, lt=_ticks(asyncio.get_running_loop().time()))

    async def daemon_killer(**kw: Any) -> None:
        R.toggles[runner._incarnation.get()] = kw["operator_paused"]
        await o_killer(**kw)

    async def pause_daemons(**kw: Any) -> Any:
        op = kw.get("operator_paused")
        R.log("pause?", cyc=(_cur_cyc.get() or {}).get("cyc"), on=bool(op is not None and op.is_on()))
        return await o_pause(**kw)

    def mem_snapshot(memory: Any, uid: str) -> dict:
        dm = memory.daemons_memory
        run = {}
        for hid, d in dm.running_daemons.items():
            rec = R.by_stopper.get(id(d.stopper))
            run[str(hid)] = {"sid": rec["sid"] if rec else None, **snap_stopper(d.stopper), "task_done": d.task._t.done()
                             if isinstance(d.task, TaskProxy) else d.task.done()}
        mems = _cur_mems.get()
        return {"running": run, "order": [str(k) for k in dm.running_daemons], "forever": sorted(map(str, dm.forever_stopped)),
                "known": (uid in mems._items) if mems is not None else None}

    async def process_spawning_cause(**kw: Any) -> Any:
        from kopf._cogs.structs import finalizers
        cause, memory, registry = kw["cause"], kw["memory"], kw["registry"]
        uid = cause.body.get("metadata", {}).get("uid") or ""
        if cause.resource.plural != sim.kex.plural or R.muted():
            return await o_psc(**kw)
        matching = [str(h.id) for h in registry._spawning.get_handlers(cause=cause, excluded=frozenset())]
        R.n_cyc += 1
        cyc = R.n_cyc
        R.log("cyc0", cyc=cyc, uid=uid, lt=_ticks(asyncio.get_running_loop().time()), etype=_cur_evt.get(),
              marked=bool(finalizers.is_deletion_ongoing(cause.body)), matching=matching, reset=bool(cause.reset),
              pre=mem_snapshot(memory, uid))
        R.spawn_ctx = None
        tok = _cur_cyc.set({"uid": uid, "cyc": cyc})
        try:
            out = await o_psc(**kw)
            R.log("cyc1", cyc=cyc, uid=uid, lt=_ticks(asyncio.get_running_loop().time()),
                  delays=sorted(_ticks(float(x)) for x in out), post=mem_snapshot(memory, uid))
            return out
        except BaseException as e:  # noqa: BLE001
            R.log("cyc-error", cyc=cyc, uid=uid, error=type(e).__name__, msg=str(e)[:200])
            raise
        finally:
            _cur_cyc.reset(tok)

    async def spawn_daemons(**kw: Any) -> Any:
        R.spawn_ctx = _cur_cyc.get()          # spawn_daemons has no awaits: a plain attribute is exact
        try:
            return await o_spawn(**kw)
        finally:
            R.spawn_ctx = None

    async def process_resource_event(**kw: Any) -> Any:
        tok = _cur_mems.set(kw.get("memories"))
        raw = kw.get("raw_event") or {}
        tok2 = _cur_evt.set(raw.get("type"))
        try:
            return await o_pre(**kw)
        finally:
            _cur_evt.reset(tok2)
            _cur_mems.reset(tok)

    spin = {"iter": -1, "n": 0}

    async def sleep(delays: Any, wakeup: Any = None) -> Any:
        loop = asyncio.get_running_loop()
        it0 = getattr(loop, "iterations", None)
        out = await o_sleep(delays, wakeup)
        if it0 is not None and loop.iterations == it0:          # returned without giving control to the loop
            if spin["iter"] == it0:
                spin["n"] += 1
                if spin["n"] > SPIN_LIMIT:
                    f = sys._getframe(1)
                    func, test = _while_test_at(f.f_code.co_filename, f.f_lineno)
                    info = {"func": func or f.f_code.co_name, "file": os.path.basename(f.f_code.co_filename), "line": f.f_lineno,
                            "loop_test": test, "n": spin["n"], "t": sim.now(),
                            "locals": {k: repr(v)[:80] for k, v in f.f_locals.items() if k in ("started", "handler", "delay")},
                            "tail": R.ev[-12:]}
                    sys.stderr.write("\n@@C09-SPIN " + json.dumps(info, default=repr) + "\n")
                    sys.stderr.flush()
                    os._exit(3)
            else:
                spin["iter"], spin["n"] = it0, 1
        return out

    daemons.Daemon = Daemon  # type: ignore[assignment,misc]
    aioenums.FlagSetter.set = fset  # type: ignore[assignment]
    daemons._runner = _runner  # type: ignore[assignment]
    daemons.stop_daemons = stop_daemons  # type: ignore[assignment]
    daemons.stop_daemon = stop_daemon  # type: ignore[assignment]
    daemons.daemon_killer = daemon_killer  # type: ignore[assignment]
    daemons.spawn_daemons = spawn_daemons  # type: ignore[assignment]
    daemons.pause_daemons = pause_daemons  # type: ignore[assignment]
    processing.process_spawning_cause = process_spawning_cause  # type: ignore[assignment]
    processing.process_resource_event = process_resource_event  # type: ignore[assignment]
    aiotime.sleep = sleep  # type: ignore[assignment]
    try:
        yield
    finally:
        daemons.Daemon = o_Daemon  # type: ignore[misc]
        aioenums.FlagSetter.set = o_set  # type: ignore[assignment]
        daemons._runner = o_runner
        daemons.stop_daemons = o_sd
        daemons.stop_daemon = o_sdn
        daemons.daemon_killer = o_killer
        daemons.spawn_daemons = o_spawn
        daemons.pause_daemons = o_pause
        processing.process_spawning_cause = o_psc
        processing.process_resource_event = o_pre
        aiotime.sleep = o_sleep


_cur_cyc: contextvars.ContextVar[dict | None] = contextvars.ContextVar("c09_cyc", default=None)
_cur_evt: contextvars.ContextVar[Any] = contextvars.ContextVar("c09_evt", default=None)


def make_sim(sc: dict) -> Any:
    from ..sim import scenario

    class C09Sim(scenario.Sim):
        def __init__(self, sc: dict):
            super().__init__(sc)
            self.rec = Recorder(self)
            self.registry = scenario.build_registry(sc, self.rec)   # own daemon/timer functions

        def apply_op(self, op: list) -> None:
            if op[0] in ("pause", "resume"):
                name = op[1] if len(op) > 1 else "op"
                o = self.ops.get(name)
                if o is not None and o.alive and not o.killed and o.n in self.rec.toggles:
                    asyncio.ensure_future(self._toggle(o.n, op[0] == "pause"))
                    self.mark(op[0], op=name, inc=o.n)
                else:
                    self.mark(op[0] + "-noop", op=name)
                return
            super().apply_op(op)

        async def _toggle(self, inc: int, on: bool) -> None:
            ts = self.rec.toggles[inc]
            tog = self.rec.pause_toggle.get(inc)
            if tog is None:
                self.rec.pause_toggle[inc] = await ts.make_toggle(on, name="verif-pause")
            else:
                await tog.turn_to(on)
            self.rec.log("paused" if on else "resumed", target=inc)

        async def run(self) -> dict:
            tr = await super().run()
            return tr

    return C09Sim(sc)


def run_scenario(sc: dict, wall_limit: float = 60.0) -> dict:
    """Entry point inside the pool's worker (scenario key "runner")."""
    from ..sim import observe, simloop
    if not all(simloop.dyadic(e[0]) for e in sc.get("timeline", [])):
        raise ValueError("non-dyadic time in the scenario")
    holder: dict[str, Any] = {}

    async def main() -> dict:
        sim = make_sim(copy.deepcopy(sc))
        holder["sim"] = sim
        with observe.installed(sim.obs), instrumented(sim, sim.rec):
            alive_probe = asyncio.ensure_future(_probe_alive(sim, float(sc.get("end", 60.0))))
            tr = await sim.run()
            alive_probe.cancel()
            return tr

    try:
        tr = simloop.run_sim(main, wall_limit=wall_limit)
    except (simloop.SimDeadlock, simloop.SimStall) as e:
        sim = holder.get("sim")
        tr = sim.obs.trace() if sim is not None else {}
        tr["sim_error"] = f"{type(e).__name__}: {e}"
    sim = holder.get("sim")
    if sim is not None:
        slim = {"marks": tr.get("marks"), "incarnations": tr.get("incarnations"), "sim_error": tr.get("sim_error"),
                "history": {k: [{"t": v["t"], "event": v["event"], "meta": _slim_meta(v["body"])} for v in vs]
                            for k, vs in (tr.get("history") or {}).items()},
                "ev": [{k: v for k, v in e.items()} for e in sim.rec.ev], "calls": sim.rec.calls,
                "cycle_errors": [{"i": c["i"], "error": c["error"], "t": c["t0"]} for c in tr.get("cycles", []) if c.get("error")],
                }
        return json.loads(json.dumps(slim, default=repr))
    return tr


def _slim_meta(body: dict) -> dict:
    m = body.get("metadata", {})
    return {"uid": m.get("uid"), "name": m.get("name"), "labels": m.get("labels") or {},
            "deletionTimestamp": m.get("deletionTimestamp"), "finalizers": m.get("finalizers") or []}


async def _probe_alive(sim: Any, end: float) -> None:
    await sim.sleep_until(end - 1.0 / 64)
    sim.mark("alive?", alive={n: bool(o.alive) for n, o in sim.ops.items() if not o.killed})


# =================================================================================================
#  Part 2 — generator
# =================================================================================================
BACKOFFS = [None, None, 0, 0.5, 6.0]
TIMEOUTS = [None, None, 0, 1.0, 8.0]
TIMER_CFGS = ["interval", "interval", "interval", "sharp", "both", "both", "idle", "neither", "neither"]


def gen_scenario(rng: Any, seed: int) -> dict:
    handlers: list[dict] = []
    for k in range(rng.choice([1, 1, 2, 2, 3])):
        opts: dict[str, Any] = {}
        if rng.random() < 0.35:
            opts["labels"] = {"on": rng.choice(["1", "1", "__PRESENT__"])}
        if rng.random() < 0.55:
            b, t = rng.choice(BACKOFFS), rng.choice(TIMEOUTS)
            if b is not None:
                opts["cancellation_backoff"] = b
            if t is not None:
                opts["cancellation_timeout"] = t
            if rng.random() < 0.2:
                opts["cancellation_polling"] = 2.0
            h = {"kind": "daemon", "id": f"d{k}", "opts": opts,
                 "daemon": {"mode": rng.choice(["obey", "obey", "cancel", "cancel", "ignore", "exit"]),
                            "after": rng.choice([0.5, 2.0, 5.0])}}
        else:
            kind = rng.choice(TIMER_CFGS)
            if kind in ("interval", "sharp", "both"):
                opts["interval"] = rng.choice([1.0, 2.5])
            if kind == "sharp":
                opts["sharp"] = True
            if kind in ("idle", "both"):
                opts["idle"] = rng.choice([1.0, 3.0])
            if rng.random() < 0.25:
                opts["initial_delay"] = rng.choice([0.5, 2.0])
            h = {"kind": "timer", "id": f"t{k}", "opts": opts, "tcfg": kind}
            if rng.random() < 0.2:
                h["script"] = [rng.choice(["ok", ["temp", 1.0]]) for _ in range(3)]
        handlers.append(h)
    if rng.random() < 0.5:
        handlers.append({"kind": "create", "id": "c1"})
        if rng.random() < 0.5:
            handlers.append({"kind": "update", "id": "u1"})
    t = 1.0
    lab = rng.choice(["1", "1", "0", None])
    body: dict[str, Any] = {"spec": {"x": 0}}
    if lab is not None:
        body["metadata"] = {"labels": {"on": lab}}
    tl: list[list] = [[t, "create", "a", body]]
    alive_a, x = True, 0
    steps = [1.0 / 64, 0.25, 0.5, 1.0, 2.0, 3.5, 6.0]
    for _ in range(rng.choice([1, 2, 3, 4, 5])):
        t += rng.choice(steps)
        op = rng.choice(["label", "label", "spec", "delete", "force", "strip", "quick", "pause", "pause", "restart", "kill", "recreate"])
        if op == "label" and alive_a:
            lab = rng.choice([v for v in ["1", "0", None] if v != lab])
            tl.append([t, "edit", "a", {"metadata": {"labels": {"on": lab}}}])
        elif op == "spec" and alive_a:
            x += 1
            tl.append([t, "edit", "a", {"spec": {"x": x}}])
        elif op == "delete" and alive_a:
            tl.append([t, "delete", "a"])
            alive_a = False
        elif op == "force" and alive_a:
            tl.append([t, "force_delete", "a"])
            alive_a = False
        elif op == "strip" and alive_a:
            tl.append([t, "strip_own_finalizer", "a"])
            t += rng.choice([0, 1.0 / 64, 2.0 / 64])
            tl.append([t, "delete", "a"])
            alive_a = False
        elif op == "quick":
            tl.append([t, "create", "b", {"spec": {"x": 0}, "metadata": {"labels": {"on": "1"}}}])
            tl.append([t + rng.choice([0, 1.0 / 64, 2.0 / 64, 3.0 / 64]), "delete", "b"])
        elif op == "pause":
            tl.append([t, "pause"])
            t += rng.choice([0.5, 1.5, 3.0, 7.0])
            tl.append([t, "resume"])
        elif op in ("restart", "kill"):
            tl.append([t, "stop" if op == "restart" else "kill"])
            t += rng.choice([0.5, 2.0, 10.0])
            tl.append([t, "start"])
        elif op == "recreate" and not alive_a:
            tl.append([t, "create", "a", {"spec": {"x": 0}, "metadata": {"labels": {"on": "1"}}}])
            alive_a, lab = True, "1"
    sc: dict[str, Any] = {"runner": RUNNER, "seed": seed, "handlers": handlers, "timeline": tl,
                          "end": t + rng.choice([4.0, 10.0, 20.0]), "settings": {}}
    if rng.random() < 0.3:
        sc["settings"]["background.cancellation_polling"] = 2.0
    return sc


def spawning_handlers(sc: dict) -> dict[str, dict]:
    return {h["id"]: h for h in sc.get("handlers", []) if h["kind"] in ("daemon", "timer")}


def cfg_of(sc: dict, h: dict) -> dict:
    """backoff/timeout/polling in ticks as the stopping logic reads them (timers: None/None)."""
    o = h.get("opts", {})
    default_poll = float(sc.get("settings", {}).get("background.cancellation_polling", 60))
    if h["kind"] == "timer":
        return {"backoff": None, "timeout": None, "polling": _ticks(default_poll)}
    return {"backoff": _ticks(o.get("cancellation_backoff")), "timeout": _ticks(o.get("cancellation_timeout")),
            "polling": _ticks(float(o.get("cancellation_polling") or default_poll))}


# =================================================================================================
#  Part 3 — reading a trace: instances, and the requests of the (S) tie
# =================================================================================================
def instances(tr: dict) -> dict[int, dict]:
    inst: dict[int, dict] = {}
    for e in tr["ev"]:
        k = e["e"]
        if k == "spawn":
            inst[e["sid"]] = {"sid": e["sid"], "hid": e["hid"], "uid": e["uid"], "inc": e["inc"], "t_spawn": e["t"],
                              "seq_spawn": e["seq"], "t_start": None, "t_end": None, "seq_end": None, "sets": [],
                              "cancels": [], "own_exit": None, "end_forever": None, "muted": False}
        elif k in ("run0", "end", "set", "cancel") and e.get("sid") in inst:
            i = inst[e["sid"]]
            if k == "run0":
                i["t_start"] = e["t"]
            elif k == "set":
                i["sets"].append(e)
                if e["reason"] == ["DONE"] and e["site"] == "_runner":
                    i["own_exit"] = (e["prior"] == [])
                    i["final_reasons"] = e["prior"]
            elif k == "cancel":
                i["cancels"].append(e)
            elif k == "end":
                i["t_end"], i["seq_end"], i["end_forever"], i["muted"] = e["t"], e["seq"], e["forever"], e["muted"]
                i["still_listed"] = e["still_listed"]
    return inst


def _model_reasons(names: list[str]) -> list[str]:
    return sorted(R2L[n] for n in names)


def tie_requests(sc: dict, tr: dict) -> tuple[list, list, list, dict]:
    """→ (requests, impl outputs, where, stats) for every comparable cycle / killer run / exit."""
    ev = tr["ev"]
    inst = instances(tr)
    hs = spawning_handlers(sc)
    reqs: list = []
    impls: list = []
    where: list = []
    stats = {"cycles": 0, "skipped_concurrent": 0, "killer": 0, "killer_incomplete": 0, "exits": 0, "log_gaps": []}
    by_cyc: dict[int, list[dict]] = {}
    by_cid: dict[int, list[dict]] = {}
    by_kid: dict[int, list[dict]] = {}
    for e in ev:
        if e.get("cyc") is not None:
            by_cyc.setdefault(e["cyc"], []).append(e)
        if e.get("cid") is not None:
            by_cid.setdefault(e["cid"], []).append(e)
        if e.get("kid") is not None:
            by_kid.setdefault(e["kid"], []).append(e)
    # replayed stopper state per sid, for the completeness check of the log
    cur: dict[int, dict] = {}
    cancelled_before: dict[int, list[int]] = {}
    for e in ev:
        if e["e"] == "cancel":
            cancelled_before.setdefault(e["sid"], []).append(e["seq"])

    def was_cancelled(sid: int, seq: int) -> bool:
        return any(q < seq for q in cancelled_before.get(sid, []))

    def inst_json(d: dict | None, seq: int) -> dict | None:
        if d is None:
            return None
        return {"reasons": _model_reasons(d["reasons"]), "when": d["when"], "cancelled": was_cancelled(d["sid"], seq)}

    for e in ev:
        if e["e"] == "spawn":
            cur[e["sid"]] = {"reasons": [], "when": None}
        elif e["e"] == "set" and e["sid"] in cur:
            c = cur[e["sid"]]
            c["reasons"] = sorted(set(c["reasons"]) | set(e["reason"]))
            c["when"] = c["when"] if c["when"] is not None else e["lt"]
        elif e["e"] == "cyc0":
            for hid, d in e["pre"]["running"].items():
                c = cur.get(d["sid"])
                if c is None or sorted(c["reasons"]) != sorted(d["reasons"]) or c["when"] != d["when"]:
                    stats["log_gaps"].append({"cyc": e["cyc"], "hid": hid, "snapshot": d, "replayed": c})
    # ---- cycles ----------------------------------------------------------------------------------
    for e0 in ev:
        if e0["e"] != "cyc0":
            continue
        grp = by_cyc.get(e0["cyc"], [])
        e1 = next((x for x in grp if x["e"] == "cyc1"), None)
        if e1 is None:
            continue
        uid = e0["uid"]
        sds = [x for x in grp if x["e"] == "sd0"]
        pz = next((x for x in grp if x["e"] == "pause?"), None)
        paused = bool(pz["on"]) if pz else False
        window = [x for x in ev[e0["seq"]:e1["seq"] + 1]]
        my_sids = {d["sid"] for d in e0["pre"]["running"].values()} | {x["sid"] for x in grp if x["e"] == "spawn"}
        concurrent = any(x["e"] == "set" and x.get("kid") is not None and x["sid"] in my_sids for x in window) \
            or e0["lt"] != e1["lt"]
        calls = []
        for sd in sds:
            sd1 = next((x for x in by_cid.get(sd["cid"], []) if x["e"] == "sd1"), None)
            calls.append((sd, sd1, by_cid.get(sd["cid"], [])))
        for x in window:
            if x["e"] == "end" and x["sid"] in my_sids:
                inside = any(x["sid"] in sd["snap"] and sd1 is not None and sd["seq"] < x["seq"] < sd1["seq"] for sd, sd1, _ in calls)
                if not inside:
                    concurrent = True
        if concurrent:
            stats["skipped_concurrent"] += 1
            continue

        def ex_for(sid: int | None, call: tuple | None) -> list[bool]:
            if sid is None or call is None or sid not in call[0]["snap"]:
                return [False, False, False]
            evs = [x for x in call[2] if x.get("sid") == sid and x["e"] in ("set", "done?", "cancel")]
            first = evs[0]["seq"] if evs else None
            endseq = inst[sid]["seq_end"] if sid in inst else None
            d0 = bool(first is not None and endseq is not None and endseq < first)
            dn = [x["r"] for x in evs if x["e"] == "done?" and x["site"] == "stop_daemons"]
            d1 = bool(dn[0]) if dn else d0
            d2 = bool(dn[1]) if len(dn) > 1 else d1
            return [d0, d1, d2]

        if e0["marked"]:
            call1 = calls[0] if calls else None
            call2 = None
        else:
            call1 = next((c for c in calls if c[0]["reason"] == ["FILTERS_MISMATCH"]), None)
            call2 = next((c for c in calls if c[0]["reason"] == ["OPERATOR_PAUSING"]), None)
        hreq, himpl = [], []
        for hid, h in hs.items():
            pre = e0["pre"]["running"].get(hid)
            spawned = next((x for x in grp if x["e"] == "spawn" and x["hid"] == hid), None)
            sid = pre["sid"] if pre else (spawned["sid"] if spawned else None)
            post = e1["post"]["running"].get(hid)
            hreq.append({"id": hid, **cfg_of(sc, h), "matching": hid in e0["matching"], "forever": hid in e0["pre"]["forever"],
                         "pre": inst_json(pre, e0["seq"]), "ex1": ex_for(sid, call1), "ex2": ex_for(sid, call2)})
            himpl.append({"id": hid, "spawned": spawned is not None, "run": inst_json(post, e1["seq"]),
                          "forever": hid in e1["post"]["forever"]})
        req = ["C09.cycle", {"now": e0["lt"], "marked": e0["marked"], "paused": paused, "deleted": e0["etype"] == "DELETED",
                             "handlers": hreq}]
        impl = {"handlers": himpl, "delays": sorted(e1["delays"]), "known": e1["post"]["known"]}
        reqs.append(req)
        impls.append(impl)
        where.append({"kind": "cycle", "cyc": e0["cyc"], "t": e0["t"], "uid": uid})
        stats["cycles"] += 1
    # ---- daemon-killer runs -------------------------------------------------------------------------
    for e0 in ev:
        if e0["e"] != "k0" or e0["sid"] not in inst:
            continue
        grp = by_kid.get(e0["kid"], [])
        dn = [x["r"] for x in grp if x["e"] == "done?" and x["site"] == "stop_daemon"]
        k1 = next((x for x in grp if x["e"] == "k1"), None)
        if len(dn) != 4 or k1 is None:
            stats["killer_incomplete"] += 1
            continue
        h = hs[inst[e0["sid"]]["hid"]]
        sets = [[x["lt"], R2L[x["reason"][0]]] for x in grp if x["e"] == "set" and x["site"] == "stop_daemon"]
        reqs.append(["C09.kplan", {**cfg_of(sc, h), "reason": R2L[e0["reason"][0]], "start": e0["lt"], "done": dn[1:]}])
        impls.append(sets)
        where.append({"kind": "killer", "kid": e0["kid"], "t": e0["t"], "sid": e0["sid"]})
        stats["killer"] += 1
    # ---- instance ends --------------------------------------------------------------------------------
    for i in inst.values():
        if i["seq_end"] is None or i["muted"] or i["own_exit"] is None:
            continue
        reqs.append(["C09.exit", {"reasons": _model_reasons(i["final_reasons"]), "forever": False}])
        impls.append({"forever": bool(i["end_forever"]), "running": bool(i["still_listed"]), "live": 0})
        where.append({"kind": "exit", "sid": i["sid"], "t": i["t_end"]})
        stats["exits"] += 1
    return reqs, impls, where, stats
