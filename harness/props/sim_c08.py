"""C08, closed-loop part: the real operator against the fake API under virtual time.

Scenarios (JSON, an extension of harness/sim/scenario.py's language):
  "c08_handlers": [{"kind": "create|update|resume|timer|daemon", "id": "cf", "opts": {...}, "sleep": 2.0,
                    "patch": {...merge fields...}, "fns": [["block", "verif.io/m"], ["setStatus", "k", 1]],
                    "result": {...}}]      # handlers that also append transformation functions
  "c08_slips": [{"kind": "jsonBody", "nth": 1, "op": ["edit", {...}] | ["setFins", [...]] | ["delete"] | ["recreate", {...}]}]
                                            # a foreign write right before the n-th request of that kind
Everything else (handlers with outcome scripts, timeline with `recreate`, 422 fault rules) is the
shared language. Observed: every `patching.patch_obj` call on the watched kind (the body it was
computed for, server snapshots around each of its requests, the returned pair), and for every
`process_resource_causes` whether its patch starts from `memory.remaining_patch`.
"""
from __future__ import annotations

import asyncio
import contextlib
import contextvars
import copy
import json
import os
import subprocess
import sys
from concurrent.futures import ThreadPoolExecutor
from pathlib import Path
from typing import Any, Iterator

from .. import leanio
from ..core import Ctx, load_corpus
from . import c08

ROOT = Path(__file__).resolve().parent.parent.parent
MARK = "verif.io/m"
_call_var: contextvars.ContextVar[dict | None] = contextvars.ContextVar("verif_c08_call", default=None)
_body_var: contextvars.ContextVar[Any] = contextvars.ContextVar("verif_c08_body", default=None)
_entry_var: contextvars.ContextVar[Any] = contextvars.ContextVar("verif_c08_entry", default=None)
OWN = "kopf.zalando.org/KopfFinalizerMarker"


# ----------------------------------------------------------------------------------------------
# worker side
def do_foreign(c: Any, kex: Any, w: list, name: str = "a") -> None:
    if w[0] == "edit":
        c.edit(kex, "ns", name, copy.deepcopy(w[1]))
    elif w[0] == "setFins":
        c.mutate(kex, "ns", name, lambda b: b["metadata"].__setitem__("finalizers", list(w[1])))
    elif w[0] == "addFin":      # keeps what is there
        c.mutate(kex, "ns", name, lambda b: b["metadata"].__setitem__(
            "finalizers", list(b["metadata"].get("finalizers", [])) + [x for x in w[1] if x not in b["metadata"].get("finalizers", [])]))
    elif w[0] == "delete":
        c.delete(kex, "ns", name)
    elif w[0] == "recreate":
        key = (kex.key, "ns", name)
        if key in c.objects:
            c._remove(key)
        c.create_raw(kex, "ns", name, copy.deepcopy(w[1]))
    else:
        raise ValueError(w)


def _fn_desc(f: Any) -> list:
    d = getattr(f, "_c08_desc", None)
    if d is not None:
        return list(d)
    func = getattr(f, "func", None)
    if func is not None and getattr(func, "__name__", "") in ("block_deletion", "allow_deletion"):
        return ["block" if func.__name__ == "block_deletion" else "allow", f.keywords.get("finalizer")]
    return ["unknown", repr(f)]


def _mk_fn(desc: list) -> Any:
    f = c08._mk_fn(desc)
    try:
        f._c08_desc = c08.norm_desc(list(desc))     # the shape (function / partial / callable object) is not part of the view
    except AttributeError:
        pass
    return f


def uid_tail(uid: Any) -> str:
    return str(uid).rsplit("-", 1)[-1] if uid else "x"


def _make_handler(sim: Any, h: dict, calls: list) -> Any:
    async def handler(**kwargs: Any) -> Any:
        from ..sim import runner
        if runner._incarnation.get() in sim.obs.dead:
            raise asyncio.CancelledError()
        body = kwargs.get("body") or {}
        meta = body.get("metadata", {}) if body else {}
        rec = {"t": sim.now(), "id": h["id"], "kind": h["kind"], "uid": meta.get("uid"), "rv": meta.get("resourceVersion"),
               "retry": kwargs.get("retry"), "fns": c08.norm_fns(h.get("fns") or [])}
        calls.append(rec)
        if h.get("tokens"):
            # Every invocation accumulates content no other invocation has: two status fields (one before, one after
            # an await) and one transformation that is NOT safe to call repeatedly (a list append).
            key = (rec["uid"] or "", h["id"])
            n = sim.obs.counters.get(("c08tok",) + key, 0)
            sim.obs.counters[("c08tok",) + key] = n + 1
            tok = f"{h['id']}#{uid_tail(rec['uid'])}#{n}"
            p = kwargs["patch"]
            rec.update({"n": n, "token": tok, "own_fields": {"status": {f"{h['id']}-a": tok + "a", f"{h['id']}-b": tok + "b"}},
                        "own_fns": [["uappend", "log", tok]], "fns": []})
            p.setdefault("status", {})[f"{h['id']}-a"] = tok + "a"
            p.fns.append(_mk_fn(["uappend", "log", tok]))
            rec["writes"] = [{"t": sim.now(), "set": {"status": {f"{h['id']}-a": tok + "a"}}, "fns": [["uappend", "log", tok]]}]
            if h.get("sleep"):
                await asyncio.sleep(float(h["sleep"]))
            p.setdefault("status", {})[f"{h['id']}-b"] = tok + "b"
            rec["writes"].append({"t": sim.now(), "set": {"status": {f"{h['id']}-b": tok + "b"}}, "fns": []})
            rec["t_end"] = sim.now()
            if n < int(h.get("temp") or 0):
                # the invocation asks to be retried: the runner delivers what it accumulated and goes on
                import kopf
                rec["outcome"] = "temp"
                raise kopf.TemporaryError("again", delay=float(h.get("temp_delay", 0.5)))
            rec["outcome"] = "ok"
            return None
        if h.get("sleep"):
            await asyncio.sleep(float(h["sleep"]))
        p = kwargs.get("patch")
        if p is not None:
            for k, v in copy.deepcopy(h.get("patch") or {}).items():
                if isinstance(v, dict):
                    p.setdefault(k, {}).update(v)
                else:
                    p[k] = v
            for d in h.get("fns") or []:
                p.fns.append(_mk_fn(d))
        rec["t_end"] = sim.now()
        rec["outcome"] = "ok"
        if h["kind"] == "daemon":
            stopped = kwargs["stopped"]
            while not stopped:
                await stopped.wait(0.5)
            return None
        return copy.deepcopy(h.get("result"))

    handler.__name__ = handler.__qualname__ = h["id"]
    return handler


def _register(sim: Any, h: dict, calls: list) -> None:
    import kopf
    fn = _make_handler(sim, h, calls)
    opts = dict(h.get("opts") or {})
    reg = sim.registry
    if h["kind"] == "daemon":
        kopf.daemon("kopfexamples", id=h["id"], registry=reg, **opts)(fn)
    elif h["kind"] == "timer":
        kopf.timer("kopfexamples", id=h["id"], registry=reg, **opts)(fn)
    else:
        getattr(kopf.on, h["kind"])("kopfexamples", id=h["id"], registry=reg, **opts)(fn)


@contextlib.contextmanager
def instrumented(sim: Any, pcalls: list, carried: list, strays: list) -> Iterator[None]:
    from kopf._cogs.clients import patching
    from kopf._core.actions import application
    from kopf._core.reactor import processing
    from ..sim import observe
    c, kex = sim.cluster, sim.kex
    slips = [dict(s, seen=0, done=False) for s in sim.sc.get("c08_slips", [])]

    def get(name: str) -> dict | None:
        o = c.get(kex, "ns", name)
        return copy.deepcopy(o) if o is not None else None

    def before(req: dict) -> None:
        call = _call_var.get()
        kind = c08.req_kind(req)
        if call is None and req["method"] not in ("GET", "HEAD") and "/kopfexamples" in req["path"]:
            # a write to the watched kind that does not come from `patching.patch_obj`
            strays.append({"t": sim.now(), "method": req["method"], "path": req["path"], "ctype": req.get("ctype"),
                           "payload": observe._jsonable(req.get("payload"))})
        if call is None or kind is None or f"/kopfexamples/{call['name']}" not in req["path"]:
            return
        rec = {"kind": kind, "slip": None, "req": req, "state_hook0": (c.rv, c.uid_counter)}
        by_req[id(req)] = rec
        for s in slips:
            if s["done"] or s["kind"] != kind:
                continue
            s["seen"] += 1
            if s["seen"] == s.get("nth", 1):
                s["done"] = True
                do_foreign(c, kex, s["op"], call["name"])
                rec["slip"] = s["op"]
                sim.mark("c08_slip", op=s["op"], kind=kind)
                break
        rec["pre"] = get(call["name"])
        rec["post"] = rec["pre"]
        rec["state_pre"] = (c.rv, c.uid_counter)
        rec["state_serve"] = rec["state_pre"]
        call["log"].append(rec)

    from ..sim import fakeapi as _fakeapi
    orig_serve = _fakeapi.FakeSession._serve
    by_req: dict[int, dict] = {}

    def _serve(self: Any, req: dict, *a: Any, **k: Any) -> Any:
        # the object as the server finds it when it serves the request (after the API latency)
        rec = by_req.get(id(req))
        if rec is not None and rec["req"] is req and self.cluster is c:
            name = req["path"].split("/kopfexamples/", 1)[1].split("/")[0]
            rec["pre"] = get(name)
            rec["post"] = rec["pre"]
            rec["state_serve"] = (c.rv, c.uid_counter)
        return orig_serve(self, req, *a, **k)

    def after(req: dict, out: Any) -> None:
        call = _call_var.get()
        if call is None:
            return
        for rec in reversed(call["log"]):
            if rec["req"] is req:
                rec["post"] = get(call["name"])
                rec["state_post"] = (c.rv, c.uid_counter)
                break

    orig_patch_obj = patching.patch_obj
    orig_pac = application.patch_and_check
    orig_prc = processing.process_resource_causes

    async def patch_and_check(**kw: Any) -> Any:
        tok = _body_var.set(kw.get("body"))
        try:
            return await orig_pac(**kw)
        finally:
            _body_var.reset(tok)

    async def patch_obj(**kw: Any) -> Any:
        resource, patch = kw["resource"], kw["patch"]
        if getattr(resource, "plural", None) != kex.plural:
            return await orig_patch_obj(**kw)
        name = kw["name"]
        ref = patch._original if patch._original is not None else _body_var.get()
        ref_raw = observe._jsonable(dict(ref)) if ref is not None else None
        call: dict[str, Any] = {"t": sim.now(), "name": name, "log": [], "ref": ref_raw,
                                "fields": observe._jsonable(dict(patch)), "fns": [_fn_desc(f) for f in patch.fns],
                                "server_before": {"clock": c.rv, "uids": c.uid_counter, "obj": c08.abs_obj(get(name))},
                                "sub": "status" in resource.subresources, "from_body_kwarg": patch._original is None,
                                "task": getattr(asyncio.current_task(), "get_name", lambda: "")()}
        pcalls.append(call)
        tok = _call_var.set(call)
        try:
            rb, rem = await orig_patch_obj(**kw)
            call["outcome"] = {"kind": "ok", "remaining": None if rem is None else [_fn_desc(f) for f in rem.fns],
                               "body": None if rb is None else {"uid": c08.uid_num(rb["metadata"]["uid"]),
                                                                "rv": int(rb["metadata"]["resourceVersion"])}}
            return rb, rem
        except asyncio.CancelledError:
            call["outcome"] = {"kind": "cancelled"}
            raise
        except Exception as e:  # noqa: BLE001
            call["outcome"] = {"kind": "raised", "exc": type(e).__name__}
            raise
        finally:
            _call_var.reset(tok)
            call["t_end"] = sim.now()
            call["final_raw"] = get(name)
            call["server_after"] = {"clock": c.rv, "uids": c.uid_counter, "obj": c08.abs_obj(call["final_raw"])}

    orig_pre = processing.process_resource_event

    async def process_resource_event(**kw: Any) -> Any:
        # what the per-object memory holds when the cycle starts
        want: list = []
        try:
            uid = kw["raw_event"]["object"].get("metadata", {}).get("uid") or ""
            m = kw["memories"]._items.get(uid)
            if m is not None and m.remaining_patch is not None:
                want = list(m.remaining_patch.fns)
        except Exception:  # noqa: BLE001
            pass
        tok = _entry_var.set(want)
        try:
            return await orig_pre(**kw)
        finally:
            _entry_var.reset(tok)

    async def process_resource_causes(**kw: Any) -> Any:
        if getattr(kw.get("resource"), "plural", None) == kex.plural:
            patch = kw["patch"]
            want = list(_entry_var.get() or [])
            have = list(patch.fns)
            same = len(want) == len(have) and all(a is b for a, b in zip(want, have))
            carried.append({"t": sim.now(), "uid": kw["body"].get("metadata", {}).get("uid"),
                            "remaining": [_fn_desc(f) for f in want], "patch_fns": [_fn_desc(f) for f in have],
                            "same": same, "fields": observe._jsonable(dict(patch)),
                            # the object as this cycle sees it (only needed when the patch does not start from the memory)
                            "body": None if same else observe._jsonable(dict(kw["body"]))})
        return await orig_prc(**kw)

    c.before_request.append(before)
    c.after_write.append(after)
    _fakeapi.FakeSession._serve = _serve  # type: ignore[method-assign]
    patching.patch_obj = patch_obj  # type: ignore[assignment]
    application.patch_and_check = patch_and_check  # type: ignore[assignment]
    processing.process_resource_causes = process_resource_causes  # type: ignore[assignment]
    processing.process_resource_event = process_resource_event  # type: ignore[assignment]
    try:
        yield
    finally:
        _fakeapi.FakeSession._serve = orig_serve  # type: ignore[method-assign]
        patching.patch_obj = orig_patch_obj  # type: ignore[assignment]
        application.patch_and_check = orig_pac  # type: ignore[assignment]
        processing.process_resource_causes = orig_prc  # type: ignore[assignment]
        processing.process_resource_event = orig_pre  # type: ignore[assignment]


def _finish_call(call: dict) -> dict:
    """The per-call observation in the shape `c08.oracle_call` / the model replay expect."""
    ref = call["ref"]
    out = {"t": call["t"], "t_end": call.get("t_end"), "name": call["name"], "sub": call["sub"], "fields": call["fields"],
           "fns": call["fns"], "outcome": call.get("outcome") or {"kind": "cancelled"},
           "server_before": call["server_before"], "server_after": call.get("server_after"), "final_raw": call.get("final_raw"),
           "orig_raw": ref, "orig": c08.abs_obj(ref) if ref and (ref.get("metadata") or {}).get("uid") else None,
           "from_body_kwarg": call["from_body_kwarg"], "task": call.get("task")}
    reqs = []
    last_ok = None
    prev_state = (call["server_before"]["clock"], call["server_before"]["uids"])
    interleaved = False
    for rec in call["log"]:
        r = rec["req"]
        base = last_ok if last_ok is not None else ref
        fault = None
        if r.get("fault") and isinstance(r.get("response"), int):
            fault = r["response"]
        if rec["state_hook0"] != prev_state or rec["state_serve"] != rec["state_pre"]:
            interleaved = True      # somebody else wrote between two requests of this call / during the latency
        prev_state = rec.get("state_post", rec["state_serve"])
        reqs.append({"kind": rec["kind"], "payload": c08.abs_payload(rec["kind"], r["payload"], base),
                     "raw_payload": copy.deepcopy(r["payload"]), "target": c08.uid_num(r.get("target_uid")),
                     "code": r["response"] if isinstance(r["response"], int) else str(r["response"]),
                     "slip": rec["slip"], "pre": rec["pre"], "post": rec["post"], "fault": fault,
                     "path": r["path"], "ctype": r["ctype"], "result": copy.deepcopy(r.get("result"))})
        if r["response"] == 200 and r.get("result") is not None:
            last_ok = r["result"]
    sa = call.get("server_after")
    if sa is None or (sa["clock"], sa["uids"]) != prev_state:
        interleaved = True          # … or after the last request, before the call returned
    out["reqs"] = reqs
    out["interleaved"] = interleaved
    return out


def _add_siblings(sim: Any, conf: dict | None) -> None:
    """Other resources served beside `kopfexamples` (no objects of theirs, not announced by CRD objects): the operator's own
    API discovery at its start sees them; the order of the discovery entries is the scenario's."""
    if not conf:
        return
    from ..sim import fakeapi
    import random as _random
    c = sim.cluster
    sim.kex.subresources = c08.own_subresources("status" in sim.kex.subresources, conf)
    for n, sib in enumerate(conf.get("siblings") or []):
        rd = fakeapi.ResourceDef(sib["group"], sib["version"], sib["plural"], sib.get("kind") or f"Sibling{n}",
                                 namespaced=bool(sib.get("namespaced", True)), subresources=tuple(sib.get("subs") or ()))
        if rd.key not in c.resources:
            c.add_resource(rd, announce=False)
    order = conf.get("order") or "asis"
    plain = c.discovery

    def discovery(path: str) -> dict | None:
        d = plain(path)
        if d is not None and d.get("kind") == "APIResourceList":
            items = list(d["resources"])
            if order == "subs-first":
                items = [i for i in items if "/" in i["name"]] + [i for i in items if "/" not in i["name"]]
            elif order == "subs-last":
                items = [i for i in items if "/" not in i["name"]] + [i for i in items if "/" in i["name"]]
            elif order == "reversed":
                items.reverse()
            elif isinstance(order, list) and order[0] == "shuffled":
                _random.Random(f"{order[1]}:{path}").shuffle(items)
            d["resources"] = items
        return d

    c.discovery = discovery     # instance attribute: this cluster only


def run_closed(sc: dict, wall_limit: float = 60.0) -> dict:
    from ..sim import observe, scenario, simloop
    holder: dict[str, Any] = {}
    pcalls: list[dict] = []
    carried: list[dict] = []
    hcalls: list[dict] = []
    strays: list[dict] = []

    async def main() -> dict:
        sim = scenario.Sim(copy.deepcopy(sc))
        holder["sim"] = sim
        _add_siblings(sim, sc.get("c08_cluster"))
        for h in sc.get("c08_handlers", []):
            _register(sim, h, hcalls)
        with observe.installed(sim.obs), instrumented(sim, pcalls, carried, strays):
            return await sim.run()

    err = None
    try:
        tr = simloop.run_sim(main, wall_limit=wall_limit)
    except (simloop.SimDeadlock, simloop.SimStall) as e:
        sim = holder.get("sim")
        tr = sim.obs.trace() if sim is not None else {}
        err = f"{type(e).__name__}: {e}"
    cycles = [{"i": cy["i"], "uid": cy["uid"], "t0": cy["t0"], "event_type": cy["event_type"], "rv": cy["rv"],
               "mem_before": cy.get("mem_before"), "mem_after": cy.get("mem_after"), "error": cy.get("error"),
               "apply": cy.get("apply")} for cy in tr.get("cycles", [])]
    return {"sim_error": err, "patch_calls": [_finish_call(cl) for cl in pcalls], "carried": carried, "strays": strays,
            "handler_calls": hcalls + [{k: cl.get(k) for k in ("t", "id", "kind", "uid", "rv", "retry", "outcome", "t_end")}
                                       for cl in tr.get("calls", [])],
            "cycles": cycles, "final_objects": tr.get("final_objects", {}), "marks": tr.get("marks", []),
            "history": {k: [{"t": v["t"], "event": v["event"], "uid": v["body"]["metadata"]["uid"],
                             "rv": v["body"]["metadata"]["resourceVersion"], "fins": v["body"]["metadata"].get("finalizers", []),
                             "status": v["body"].get("status"), "annotations": v["body"]["metadata"].get("annotations", {})}
                            for v in vs] for k, vs in tr.get("history", {}).items() if "kopfexamples" in k}}


def worker_main() -> None:
    wall = float(sys.argv[1]) if len(sys.argv) > 1 else 40.0
    for line in sys.stdin:
        line = line.strip()
        if not line:
            continue
        item = json.loads(line)
        sys.stderr.write(f"@@BEGIN {item['i']}\n")
        sys.stderr.flush()
        try:
            out = {"i": item["i"], "trace": run_closed(item["sc"], wall_limit=wall)}
        except Exception as e:  # noqa: BLE001
            import traceback
            out = {"i": item["i"], "harness_error": f"{type(e).__name__}: {e}", "tb": traceback.format_exc()[-3000:]}
        sys.stdout.write(json.dumps(out, default=repr) + "\n")
        sys.stdout.flush()


# ----------------------------------------------------------------------------------------------
# parent side: stall-safe subprocess pool (same protocol as harness/sim/pool.py, own worker)
def _run_batch(items: list[tuple[int, dict]], wall: float, results: dict[int, dict]) -> None:
    pending = list(items)
    env = dict(os.environ)
    env["PYTHONPATH"] = f"{ROOT}:{env.get('KOPF_REPO', '/repo')}"
    env["PYTHONHASHSEED"] = "0"
    while pending:
        payload = "".join(json.dumps({"i": i, "sc": sc}) + "\n" for i, sc in pending)
        try:
            p = subprocess.run([sys.executable, "-c", "from harness.props import sim_c08; sim_c08.worker_main()", str(wall)],
                               input=payload, capture_output=True, text=True, cwd=str(ROOT), env=env,
                               timeout=wall * (len(pending) + 2) + 120)
            stdout, stderr, rc = p.stdout, p.stderr, p.returncode
        except subprocess.TimeoutExpired as e:
            stdout = (e.stdout or b"").decode() if isinstance(e.stdout, bytes) else (e.stdout or "")
            stderr = (e.stderr or b"").decode() if isinstance(e.stderr, bytes) else (e.stderr or "")
            rc = -9
        done = set()
        for line in stdout.splitlines():
            if line.startswith("{"):
                r = json.loads(line)
                results[r["i"]] = r
                done.add(r["i"])
        rest = [(i, sc) for i, sc in pending if i not in done]
        if not rest:
            return
        if rc == 0 and len(rest) == len(pending):
            for i, _ in rest:
                results[i] = {"i": i, "harness_error": "worker produced no output", "tb": stderr[-2000:]}
            return
        i0, _sc0 = rest[0]
        tail = stderr[stderr.rfind(f"@@BEGIN {i0}"):][-6000:]
        results[i0] = {"i": i0, "stall": True, "returncode": rc, "stderr": tail}
        pending = rest[1:]


def run_many(scenarios: list[dict], wall: float = 40.0, batch: int = 12) -> list[dict]:
    jobs = int(os.environ.get("VERIF_JOBS", "0")) or min(16, os.cpu_count() or 4)
    items = list(enumerate(scenarios))
    batches = [items[k:k + batch] for k in range(0, len(items), batch)]
    results: dict[int, dict] = {}
    with ThreadPoolExecutor(max_workers=jobs) as ex:
        list(ex.map(lambda b: _run_batch(b, wall, results), batches))
    return [results.get(i, {"i": i, "harness_error": "missing"}) for i in range(len(scenarios))]


# ----------------------------------------------------------------------------------------------
# scenarios
def _t(x: float) -> float:
    return round(x * 64) / 64.0


def gen_scenario(rng: Any, i: int) -> dict:
    kind = rng.choice(["reuse", "reuse", "reuse-daemon", "conflict", "conflict", "conflict-own", "mixed", "overlap", "overlap", "stale-carry"])
    sc: dict[str, Any] = {"seed": i, "c08_kind": kind, "status_subresource": rng.random() < 0.5, "handlers": [],
                          "c08_handlers": [], "c08_slips": [], "faults": [], "timeline": [], "settings": {}}
    if rng.random() < 0.3:
        sc["settings"]["persistence.consistency_timeout"] = rng.choice([0.5, 2.0])
    body = {"spec": {"x": 0}}
    if kind in ("reuse", "mixed"):
        d = rng.choice([0.5, 1.0, 2.0, 4.0])
        sc["handlers"].append({"kind": rng.choice(["create", "create", "update", "resume"]), "id": "slow",
                               "script": [["sleep", d, rng.choice(["ok", ["ok", {"done": 1}], ["temp", 1.0]])]], "default": "ok"})
        if rng.random() < 0.4:
            sc["handlers"].append({"kind": "delete", "id": "del", "script": [], "default": "ok",
                                   "opts": {"optional": rng.random() < 0.5}})
        t0 = 1.0
        sc["timeline"].append([t0, "create", "a", body])
        # delete-and-recreate at every kind of moment relative to the running handler
        off = rng.choice([_t(rng.uniform(0.0, d)), d - 1 / 64, d, d + 1 / 64, d + 2 / 64, _t(rng.uniform(d, d + 0.5)), 1 / 64, 2 / 64, 3 / 64])
        sc["timeline"].append([t0 + max(0.0, off), "recreate", "a", {"spec": {"x": 1}}])
        if rng.random() < 0.4:
            sc["timeline"].append([t0 + max(0.0, off) + rng.choice([1 / 64, 0.25, 1.0]), "edit", "a", {"spec": {"x": 2}}])
        if rng.random() < 0.25:
            sc["timeline"].append([t0 + d + 6.0, "recreate", "a", {"spec": {"x": 3}}])
        sc["end"] = t0 + d + 20.0
    if kind == "reuse-daemon":
        which = rng.choice(["timer", "daemon"])
        if which == "timer":
            sc["handlers"].append({"kind": "timer", "id": "tick", "opts": {"interval": rng.choice([1.0, 2.0])},
                                   "script": [["sleep", rng.choice([0.25, 0.5]), ["ok", {"n": 1}]]], "default": ["ok", {"n": 2}]})
        else:
            sc["c08_handlers"].append({"kind": "timer", "id": "tick", "opts": {"interval": 1.0}, "sleep": 0.5,
                                       "patch": {"status": {"tick": "t"}}, "fns": [["ublock", MARK]] if rng.random() < 0.5 else []})
        sc["timeline"].append([1.0, "create", "a", body])
        sc["timeline"].append([_t(rng.uniform(1.5, 4.0)), "recreate", "a", {"spec": {"x": 1}}])
        sc["end"] = 12.0
    if kind in ("conflict", "mixed"):
        fns = rng.choice([[["ublock", MARK]], [["ublock", MARK], ["setStatus", "observed", 1]], [["setStatus", "observed", 2]],
                          [["ublock", MARK], ["uallow", "never.io/x"]], [["pblock", MARK]], [["cblock", MARK], ["setStatus", "observed", 3]]])
        sc["c08_handlers"].append({"kind": "create", "id": "cf", "sleep": rng.choice([0, 0, 0.5]),
                                   "patch": rng.choice([{}, {"status": {"cf": "seen"}}, {"metadata": {"annotations": {"cf": "1"}}}]),
                                   "fns": fns, "result": rng.choice([None, {"ok": 1}])})
        if kind == "conflict":
            sc["timeline"].append([1.0, "create", "a", body])
        how = rng.choice(["slip-edit", "slip-edit", "slip-fin", "fault", "slip-recreate", "slip-delete", "none",
                          "slip-edit-then-error", "slip-edit-then-error", "slip-fulfil", "slip-fulfil"])
        jk = rng.choice(["jsonBody", "jsonBody", "jsonStatus"]) if sc["status_subresource"] else "jsonBody"
        if how == "slip-edit-then-error":
            # conflict, then the cycle that carries the transformation fails on an API error, then a later event
            sc["c08_slips"].append({"kind": "jsonBody", "nth": 1, "op": ["edit", {"spec": {"x": 50}}]})
            sc["faults"].append({"match": {"method": "PATCH", "path_contains": "kopfexamples/a", "ctype": "json-patch", "nth": 2},
                                 "fault": ["status", rng.choice([409, 400])]})
            sc["timeline"].append([rng.choice([4.0, 6.0]), "edit", "a", {"metadata": {"labels": {"again": "1"}}}])
            sc["timeline"].append([12.0, "edit", "a", {"metadata": {"labels": {"again": "2"}}}])
            sc["end"] = 40.0
        elif how == "slip-fulfil":
            # the write that makes the JSON-patch conflict brings (a part of) what the handler's transformations ask for:
            # what is carried is fulfilled on the next cycle's body (handed on all the same, the patching finds nothing to send) -- or only partly;
            # sometimes the next cycle has dict content of its own (an on.event result), sometimes the effect is undone again
            sc["c08_slips"].append({"kind": "jsonBody", "nth": 1, "op": ["addFin", [MARK]]})
            if rng.random() < 0.5:
                sc["handlers"].append({"kind": "event", "id": "ev", "script": [], "default": ["ok", {"n": 1}]})
            if rng.random() < 0.3:
                sc["c08_slips"].append({"kind": "mergeBody", "nth": rng.choice([2, 3]), "op": ["setFins", []]})
            elif rng.random() < 0.3:
                sc["timeline"].append([rng.choice([3.0, 5.0]), "fins", "a", []])
        elif how == "slip-edit":
            sc["c08_slips"].append({"kind": jk, "nth": rng.choice([1, 1, 2]), "op": ["edit", {"spec": {"x": 50}}]})
        elif how == "slip-fin":
            sc["c08_slips"].append({"kind": jk, "nth": 1, "op": ["addFin", ["late.io/f"]]})
        elif how == "slip-recreate":
            sc["c08_slips"].append({"kind": rng.choice(["mergeBody", "mergeStatus", jk]), "nth": rng.choice([1, 2]), "op": ["recreate", {"spec": {"x": 60}}]})
        elif how == "slip-delete":
            sc["c08_slips"].append({"kind": jk, "nth": 1, "op": ["delete"]})
        elif how == "fault":
            sc["faults"].append({"match": {"method": "PATCH", "ctype": "json-patch", "nth": rng.choice([1, 2])}, "fault": ["status", 422]})
            sc["timeline"].append([rng.choice([3.0, 5.0]), "edit", "a", {"spec": {"x": 7}}])
        if rng.random() < 0.5:
            sc["timeline"].append([rng.choice([6.0, 8.0]), "edit", "a", {"metadata": {"labels": {"late": "1"}}}])
        sc["end"] = max(sc.get("end", 0.0), 16.0)
    if kind == "overlap":
        # several timers/daemons of one object, spawned in the same cycle, first invocations overlapping
        ids = rng.sample(["ta", "tb", "dc", "td"], rng.choice([2, 2, 3]))
        slow = rng.randrange(len(ids))
        for n, hid in enumerate(ids):
            hk = "daemon" if hid.startswith("d") and rng.random() < 0.7 else "timer"
            sleep = rng.choice([0.25, 0.5, 1.0, 2 / 64]) if n == slow else rng.choice([0, 0, 1 / 64, 0.125])
            h: dict[str, Any] = {"kind": hk, "id": hid, "tokens": True, "sleep": sleep, "opts": {}}
            if rng.random() < 0.4:
                h["temp"], h["temp_delay"] = rng.choice([1, 1, 2]), rng.choice([0.25, 0.5, 1.0])
            if hk == "timer":
                h["opts"]["interval"] = rng.choice([3.0, 5.0, 50.0])
            sc["c08_handlers"].append(h)
        sc["timeline"].append([1.0, "create", "a", body])
        if rng.random() < 0.4:
            sc["timeline"].append([rng.choice([1.5, 2.5, 4.0]), "edit", "a", {"spec": {"x": 2}}])
        if rng.random() < 0.25:
            sc["c08_slips"].append({"kind": "jsonBody", "nth": rng.choice([2, 3]), "op": ["edit", {"metadata": {"labels": {"z": "1"}}}]})
        sc["end"] = 12.0
    if kind == "stale-carry":
        # a lagging watch-stream: the handler's transformation is refused (422) and carried, the next cycle works on an event that is
        # older than the object -- on which the transformation is (or is not) fulfilled already -- with or without dict content of its own
        d = rng.choice([1.0, 2.0, 3.0])
        fns = rng.choice([[["ublock", MARK]], [["pblock", MARK]], [["ublock", MARK], ["setStatus", "observed", 1]], [["uallow", "late.io/f"]]])
        sc["c08_handlers"].append({"kind": "create", "id": "cf", "sleep": d, "patch": rng.choice([{}, {"status": {"cf": "seen"}}]),
                                   "fns": fns, "result": None})
        if rng.random() < 0.5:
            sc["handlers"].append({"kind": "event", "id": "ev", "script": [], "default": ["ok", {"n": 1}]})
        sc["timeline"].append([1.0, "create", "a", body])
        t1 = 1.0 + _t(rng.uniform(0.1, d * 0.5))
        t2 = 1.0 + _t(rng.uniform(d * 0.5, d - 0.05))
        first, second = rng.choice([([MARK], []), ([MARK], ["late.io/f"]), (["late.io/f"], [MARK]), ([MARK, "late.io/f"], [])])
        sc["timeline"].append([t1, "fins", "a", first])
        sc["timeline"].append([t2, "fins", "a", second])
        sc["c08_slips"].append({"kind": "jsonBody", "nth": 1, "op": ["edit", {"spec": {"x": 50}}]})
        lag = rng.choice([2.0, 4.0])
        first_late = rng.choice([3, 3, 4])       # the events from this one on arrive late
        sc["echo_delay"] = {"default": 0, "rules": [[n, None, lag] for n in range(first_late, first_late + 3)]}
        if rng.random() < 0.4:
            sc["timeline"].append([1.0 + d + lag + 3.0, "edit", "a", {"metadata": {"labels": {"late": "1"}}}])
        sc["end"] = 1.0 + d + lag + 12.0
    if kind == "conflict-own":
        # kopf's own finalizer transformations under conflicts
        sc["handlers"].append({"kind": "delete", "id": "del", "script": [rng.choice(["ok", ["temp", 1.0], ["sleep", 0.5, "ok"]])], "default": "ok"})
        sc["handlers"].append({"kind": "create", "id": "cr", "script": [rng.choice(["ok", ["patch", {"status": {"cr": 1}}, "ok"]])], "default": "ok"})
        sc["timeline"].append([1.0, "create", "a", body])
        how = rng.choice(["slip-edit", "slip-fin", "fault", "slip-edit-late", "slip-fin-merge", "slip-fin-merge"])
        if how == "slip-fin-merge":
            # another controller adds its finalizer right before one of the cycle's merge-patches (also the one that
            # goes with the release): whatever kopf does to the list afterwards must be computed from a state that has it
            sc["c08_slips"].append({"kind": rng.choice(["mergeBody", "mergeBody", "mergeStatus"]) if sc["status_subresource"] else "mergeBody",
                                    "nth": rng.choice([1, 2, 3, 4]), "op": ["addFin", ["late.io/f"]]})
        elif how == "slip-edit":
            sc["c08_slips"].append({"kind": "jsonBody", "nth": 1, "op": ["edit", {"spec": {"x": 50}}]})
        elif how == "slip-fin":
            sc["c08_slips"].append({"kind": "jsonBody", "nth": 1, "op": ["addFin", ["late.io/f"]]})
        elif how == "fault":
            sc["faults"].append({"match": {"method": "PATCH", "ctype": "json-patch", "nth": 1}, "fault": ["status", 422]})
            sc["timeline"].append([3.0, "edit", "a", {"spec": {"x": 7}}])
        else:
            sc["c08_slips"].append({"kind": "jsonBody", "nth": 2, "op": ["edit", {"metadata": {"labels": {"z": "1"}}}]})
        sc["timeline"].append([rng.choice([5.0, 6.5]), "delete", "a"])
        if how in ("slip-fin", "slip-fin-merge"):
            sc["timeline"].append([12.0 if how == "slip-fin-merge" else 9.0, "fins", "a", []])
        sc["end"] = 20.0
    sc["timeline"].sort(key=lambda e: e[0])
    # the cluster around the object (its own random stream: the scenario itself stays what it was): other resources beside
    # `kopfexamples` whose names extend it / are prefixes of it / ..., mostly with the opposite `status` fact
    import random as _random
    conf = c08.gen_cluster(_random.Random(f"C08-closed-cluster:{i}"), bool(sc["status_subresource"]))
    if conf is not None:
        # (the handlers select `kopfexamples` by name: a namesake in another group/version would be served by them too -- the
        # differential run has those, with the resource picked by group/version/plural)
        conf["siblings"] = [sib for sib in conf["siblings"] if sib["plural"] != c08.PLURAL]
        sc["c08_cluster"] = conf
    return sc


# ----------------------------------------------------------------------------------------------
SIG_CARRY = {"site": "processing.process_resource_event", "shape": "the cycle's patch does not start from memory.remaining_patch"}
SIG_LOST = {"site": "processing.process_resource_event", "shape": "a carried transformation was lost or duplicated"}


def oracle(ctx: Ctx, sc: dict, tr: dict) -> None:
    rep = {"kind": "closed-loop", "scenario": sc}
    # every patching call: the per-call clauses of the property
    for n, o in enumerate(tr["patch_calls"]):
        if o["outcome"]["kind"] == "cancelled" or o["orig"] is None:
            continue
        # (whether there is a status subresource is the cluster's fact, not what the operator believes)
        c08.oracle_call(ctx, rep, n, o, bool(sc.get("status_subresource")), where="closed-loop patch_obj")
    # everything the operator writes to the object goes through the one patching routine (routing by the
    # subresource, the version test, the silent 404): a write that bypasses it is judged by none of the above
    for st in tr.get("strays") or []:
        ctx.oracle_fail(f"the operator wrote to the object outside patching.patch_obj at t={st['t']}: {st['method']} {st['path']} {st['payload']}",
                        rep, {"site": "patching.patch_obj", "shape": "a write to the object that bypasses the patching routine"})
        break
    # the next cycle starts from what remained -- or what remained changes nothing in the object as that cycle sees it (its
    # effect is present: the re-evaluation is done); never dropped while it would still change the body at hand; and what is
    # dropped without a versioned request (forgotten at the head, or handed on and found to need no operation) holds for the
    # freshest state around: the server's at that moment, and the one the cycle's own patching gets back
    f4_uids: set = set()
    for n, cr in enumerate(tr["carried"]):
        if not cr["remaining"]:
            continue
        forgotten = not cr["same"]
        if forgotten and (cr["patch_fns"] or not c08.o_noop(cr["remaining"], cr.get("body"))):
            ctx.oracle_fail(f"cycle at t={cr['t']} for {cr['uid']}: memory.remaining_patch has {cr['remaining']}, the cycle's patch starts with {cr['patch_fns']}; "
                            f"the cycle's body has finalizers {c08._fins(cr.get('body'))}, status {(cr.get('body') or {}).get('status')}",
                            rep, SIG_CARRY)
            continue
        later = [x["t"] for x in tr["carried"][n + 1:] if x["uid"] == cr["uid"]]
        t_next = min(later) if later else 1e18
        call = next((o for o in tr["patch_calls"] if o["orig"] is not None and o["orig_raw"]["metadata"]["uid"] == cr["uid"]
                     and not (o.get("task") or "").startswith("runner of ") and cr["t"] <= o["t"] < t_next), None)
        if not forgotten:
            versioned = call is not None and (any(r["kind"].startswith("json") for r in call["reqs"]) or call["outcome"].get("kind") != "ok"
                                              or call["outcome"].get("remaining") is not None or any(r["code"] == 404 for r in call["reqs"]))
            ctx.count("closed_carried", "in the next cycle's patch" + ("" if versioned or call is None else ": no operation, nothing sent for it"))
            if versioned or call is None:
                continue
        else:
            ctx.count("closed_carried", "fulfilled on the cycle's body: forgotten")
        body = cr.get("body") or (call or {}).get("orig_raw") or {}
        body_rv = str((body.get("metadata") or {}).get("resourceVersion"))
        how = "forgotten at the head of the cycle" if forgotten else "handed on, found to need no operation and dropped"
        stored = [v for vs in tr["history"].values() for v in vs if v["uid"] == cr["uid"] and v["t"] < cr["t"]]
        if stored and stored[-1]["event"] != "DELETED" and str(stored[-1]["rv"]) != body_rv:
            cur = {"metadata": {"finalizers": list(stored[-1]["fins"] or [])}, "status": copy.deepcopy(stored[-1]["status"])}
            if not c08.o_noop(cr["remaining"], cur):
                ctx.oracle_fail(f"cycle at t={cr['t']} for {cr['uid']}: {cr['remaining']} remained and were {how} on the evidence of a STALE "
                                f"body (version {body_rv}, finalizers {c08._fins(body)}); the server holds version {stored[-1]['rv']} since t={stored[-1]['t']} with "
                                f"finalizers {stored[-1]['fins']}, status {stored[-1]['status']}: their effect is not there, they were neither sent nor carried on", rep,
                                c08.SIG_F4 if forgotten else c08.SIG_F6)
                f4_uids.add(cr["uid"])
                continue
        if forgotten and call is not None and call["outcome"].get("kind") == "ok":
            seen = c08.freshest_seen(call)
            if seen is not None and seen["metadata"]["uid"] == cr["uid"] and not c08.o_noop(cr["remaining"], seen):
                ctx.oracle_fail(f"cycle at t={cr['t']} for {cr['uid']}: {cr['remaining']} remained and were forgotten at the head of the cycle (no-ops on its body: "
                                f"finalizers {c08._fins(body)}); the object after the last accepted request of the cycle's patching (t={call['t']}) has finalizers "
                                f"{c08._fins(seen)}, status {seen.get('status')}: their effect is not there, they were neither sent nor carried on", rep, c08.SIG_F4)
                f4_uids.add(cr["uid"])
    # the re-evaluation of what was carried is a part of the object's cycle: when a carried function cannot be evaluated on the
    # new body (it raises), that is this object's error -- handled like an error of its patching (logged, throttled, retried),
    # the transformation stays carried; an exception that leaves the cycle ends the worker and with it the whole operator
    for cy in tr["cycles"]:
        if cy.get("error") and cy["error"] != "CancelledError" and (cy.get("mem_before") or {}).get("remaining_patch") is not None \
                and cy.get("apply") is None:
            after = [hc for hc in tr["handler_calls"] if hc.get("t") is not None and hc["t"] > cy["t0"]]
            ctx.oracle_fail(f"cycle {cy['i']} at t={cy['t0']} for {cy['uid']} started with a carried patch {cy['mem_before']['remaining_patch']} and was left by {cy['error']} "
                            f"before anything was applied; handler calls of the operator after that moment: {len(after)}", rep, c08.SIG_F5)
            break
    # a transformation a handler queued is applied exactly once (not lost, not duplicated)
    by_uid: dict[str, dict] = {}
    for cy in tr["cycles"]:
        by_uid[cy["uid"]] = cy
    removed_by_foreign = any(s["op"][0] == "setFins" for s in sc.get("c08_slips", [])) or \
        any(e[1] == "fins" and MARK not in (e[3] if len(e) > 3 else []) for e in sc.get("timeline", []))
    for hc in tr["handler_calls"]:
        if hc.get("outcome") != "ok" or not hc.get("fns"):
            continue
        uid = hc["uid"]
        last = by_uid.get(uid)
        pending = last is None or (last.get("mem_after") or {}).get("remaining_patch") is not None or last.get("error")
        final = next((o for k, o in tr["final_objects"].items() if "kopfexamples" in k and o["metadata"]["uid"] == uid), None)
        if final is None or pending or removed_by_foreign:
            ctx.count("closed_fn_effect", "pending-or-gone")
            continue
        if uid in f4_uids:
            ctx.count("closed_fn_effect", "lost: reported above (judged on a body that was not the freshest)")
            continue
        # was the handler's result ever delivered (its cycle's patch call not cut by 404/exception)?
        delivered = [o for o in tr["patch_calls"] if o["orig"] and o["orig_raw"]["metadata"]["uid"] == uid and o["fns"]
                     and o["t"] >= hc["t"] and o["outcome"]["kind"] == "ok"]
        if not delivered or any(r["code"] == 404 for o in delivered for r in o["reqs"]):
            ctx.count("closed_fn_effect", "not-delivered")
            continue
        fins = final["metadata"].get("finalizers", [])
        for d in hc["fns"]:
            if d[0] == "ublock":
                if fins.count(d[1]) != 1:
                    ctx.oracle_fail(f"handler {hc['id']} queued {d} for {uid}; at the end the finalizer occurs {fins.count(d[1])} times in {fins}",
                                    rep, SIG_LOST)
                else:
                    ctx.count("closed_fn_effect", "applied-once")
            elif d[0] == "setStatus":
                if (final.get("status") or {}).get(d[1]) != d[2]:
                    ctx.oracle_fail(f"handler {hc['id']} queued {d} for {uid}; final status is {final.get('status')}", rep, SIG_LOST)
                else:
                    ctx.count("closed_fn_effect", "applied-once")


SIG_F3 = c08.SIG_F3


SIG_FOREIGN_FIN = {"site": "patching.patch_obj", "shape": "a finalizer added by another actor disappeared without that actor's doing"}


def oracle_foreign_finalizers(ctx: Ctx, sc: dict, tr: dict) -> None:
    """A finalizer that a foreign write added (a slip right before one of kopf's requests) stays on the object until a
    foreign write removes it: kopf's own list edits are computed from, and tested against, a state that has it."""
    rep = {"kind": "closed-loop", "scenario": sc}
    adds = [m for m in tr["marks"] if m["what"] == "c08_slip" and m.get("op") and m["op"][0] == "addFin"]
    if not adds:
        return
    removals = [float(e[0]) for e in sc.get("timeline", []) if e[1] in ("fins", "force_delete", "recreate")]
    removals += [m["t"] for m in tr["marks"] if m["what"] == "c08_slip" and m.get("op") and m["op"][0] in ("setFins", "recreate", "delete")]
    for m in adds:
        until = min([t for t in removals if t >= m["t"]], default=1e9)
        for k, vs in tr["history"].items():
            seen = False
            uid = None
            for v in vs:
                if v["t"] < m["t"] or v["t"] >= until:
                    continue
                has = all(f in v["fins"] for f in m["op"][1])
                if has and not seen:
                    seen, uid = True, v["uid"]
                elif seen and v["uid"] == uid and (not has or v["event"] == "DELETED"):
                    # (a finalizer nobody removed holds the object: it cannot be gone either)
                    now = "the object is gone (released)" if v["event"] == "DELETED" else f"the stored object has {v['fins']}"
                    ctx.oracle_fail(f"{m['op'][1]} was added to {uid} by another actor at t={m['t']} (before a {m.get('kind')} request); "
                                    f"at t={v['t']} {now} and nobody but the operator wrote meanwhile", rep, SIG_FOREIGN_FIN)
                    return
            ctx.count("closed_foreign_finalizer", "kept" if seen else "never stored")


def _sig_inv(shape: str) -> dict:
    return {"site": "daemons: per-invocation patch", "shape": shape}


def _payload_values(x: Any) -> list:
    if isinstance(x, dict):
        return [v for y in x.values() for v in _payload_values(y)]
    if isinstance(x, list):
        return [v for y in x for v in _payload_values(y)]
    return [x]


def oracle_invocations(ctx: Ctx, sc: dict, tr: dict) -> None:
    """From the property text, over the request log: what ONE daemon/timer invocation accumulated (its field
    values, its transformation) is sent in exactly one accepted delivery — not before the invocation ended,
    not together with another handler's content, not again later."""
    invs = [hc for hc in tr["handler_calls"] if hc.get("token")]
    if not invs:
        return
    rep = {"kind": "closed-loop", "scenario": sc}
    by_tok = {hc["token"]: hc for hc in invs}
    end_t = max((m["t"] for m in tr["marks"] if m["what"] == "end"), default=1e9)

    def owners(strings: list) -> set:
        out = set()
        for v in strings:
            if isinstance(v, str) and v[:-1] in by_tok and v[-1:] in ("a", "b"):
                out.add(v[:-1])
            elif isinstance(v, str) and v in by_tok:
                out.add(v)
        return out

    sent: dict[str, list] = {}      # leaf value -> [(call, req)]
    fn_calls: dict[str, list] = {}  # token -> calls whose patch held its transformation
    for o in tr["patch_calls"]:
        for r in o["reqs"]:
            if not r["kind"].startswith("merge"):
                continue
            vals = [v for v in _payload_values(r["raw_payload"]) if isinstance(v, str)]
            own = owners(vals)
            if len({by_tok[t]["id"] for t in own}) > 1 or len(own) > 1:
                ctx.oracle_fail(f"one request carries the content of several handler invocations {sorted(own)}: {r['raw_payload']}",
                                rep, _sig_inv("content of several invocations in one request"))
            for v in vals:
                if owners([v]):
                    sent.setdefault(v, []).append((o, r))
        toks = [d[2] for d in o["fns"] if d[0] == "uappend" and d[2] in by_tok]
        if len({by_tok[t]["id"] for t in toks}) > 1:
            ctx.oracle_fail(f"one delivery carries the transformations of several handlers {toks}", rep,
                            _sig_inv("transformations of several handlers in one delivery"))
        for t in toks:
            fn_calls.setdefault(t, []).append(o)
    for hc in invs:
        tok = hc["token"]
        t_end = hc.get("t_end")
        for suffix in ("a", "b"):
            hits = sent.get(tok + suffix, [])
            for o, r in hits:
                if t_end is None or o["t"] < t_end:
                    ctx.oracle_fail(f"field of invocation {tok} sent at t={o['t']} while the invocation ran until {t_end}", rep,
                                    _sig_inv("content sent before its invocation ended"))
            if len(hits) > 1:
                ctx.oracle_fail(f"field value {tok + suffix} of one invocation was sent in {len(hits)} requests", rep,
                                _sig_inv("content of one invocation sent more than once"))
        for o in fn_calls.get(tok, []):
            if t_end is None or o["t"] < t_end:
                ctx.oracle_fail(f"transformation of invocation {tok} delivered at t={o['t']} while the invocation ran until {t_end}", rep,
                                _sig_inv("content sent before its invocation ended"))
        accepted = [o for o in fn_calls.get(tok, []) if o["outcome"].get("kind") == "ok" and o["outcome"].get("remaining") is None
                    and o["reqs"] and all(r["code"] == 200 for r in o["reqs"])]
        if len(accepted) > 1:
            ctx.oracle_fail(f"transformation of invocation {tok} was part of {len(accepted)} accepted deliveries", rep,
                            _sig_inv("transformation delivered more than once"))
        final = next((ob for k, ob in tr["final_objects"].items() if "kopfexamples" in k and ob["metadata"]["uid"] == hc["uid"]), None)
        if final is not None:
            log = (final.get("status") or {}).get("log") or []
            if log.count(tok) > 1:
                ctx.oracle_fail(f"transformation of invocation {tok} took effect {log.count(tok)} times: {log}", rep,
                                _sig_inv("transformation delivered more than once"))
            quiet_for = end_t - (t_end if t_end is not None else end_t)
            if t_end is not None and quiet_for >= 3.0 and not sc.get("faults") and not any(m["what"] in ("killed", "stopped") and not m.get("final") for m in tr["marks"]):
                # the deliveries of this invocation's runner for this object, and those after the invocation that left
                # nothing to retry: whatever the runner carried forward must have taken effect by then
                runner = [o for o in tr["patch_calls"] if (o.get("task") or "") == f"runner of {hc['id']}" and o["orig"]
                          and o["orig_raw"]["metadata"]["uid"] == hc["uid"]]
                settled = [o for o in runner if o["t"] >= t_end and o["outcome"].get("kind") == "ok" and o["outcome"].get("remaining") is None
                           and all(r["code"] == 200 for r in o["reqs"])]
                refused = [o for o in fn_calls.get(tok, []) if o["outcome"].get("kind") == "ok" and o["outcome"].get("remaining") is not None]
                if not sent.get(tok + "a") or not sent.get(tok + "b") or not fn_calls.get(tok) or (accepted and log.count(tok) != 1):
                    ctx.oracle_fail(f"content of invocation {tok} (ended at {t_end}) never reached the server: fields sent {[len(sent.get(tok + x, [])) for x in 'ab']}, "
                                    f"deliveries with its transformation {len(fn_calls.get(tok, []))}, log {log}",
                                    rep, _sig_inv("content of an invocation never delivered"))
                elif log.count(tok) == 0 and settled:
                    ctx.oracle_fail(f"transformation of invocation {tok} was refused ({len(refused)} time(s)) and never took effect, although a later delivery "
                                    f"of its runner (t={settled[0]['t']}) was accepted: log {log}", rep,
                                    _sig_inv("a refused transformation was not carried forward to the runner's next delivery"))
                elif log.count(tok) == 0 and refused and hc["kind"] == "daemon" and hc.get("outcome") == "ok":
                    # the daemon's function has returned: the runner made no further delivery
                    ctx.oracle_fail(f"transformation of invocation {tok} was refused (422) in the last delivery of its daemon, which then exited: "
                                    f"it never took effect: log {log}", rep, SIG_F3)
                elif log.count(tok) == 0:
                    ctx.count("closed_invocations", "refused, pending until the timer's next tick")
                else:
                    ctx.count("closed_invocations", "delivered-once")
            else:
                ctx.count("closed_invocations", "late-or-faulted")
        else:
            ctx.count("closed_invocations", "object-gone")


SIG_FIN = {"site": "processing.process_resource_causes",
           "shape": "eventual own-finalizer state differs from the decision on the final state"}


def oracle_own_finalizer(ctx: Ctx, sc: dict, tr: dict) -> None:
    """The framework's own finalizer edits are re-decided every cycle, so after a conflict their effect
    shows in the eventual state: a live object carries the finalizer exactly once iff something requires
    it (a mandatory deletion handler, a daemon or a timer); an object marked for deletion is released."""
    hs = list(sc.get("handlers", [])) + list(sc.get("c08_handlers", []))
    if any(h.get("opts", {}).get("labels") or h.get("opts", {}).get("annotations") or h.get("opts", {}).get("when") or h.get("opts", {}).get("field") for h in hs):
        return          # filters: C15's subject
    requires = any((h["kind"] == "delete" and not h.get("opts", {}).get("optional")) or h["kind"] in ("daemon", "timer") for h in hs)
    has_changing = any(h["kind"] in ("create", "update", "delete", "resume", "daemon", "timer", "event", "field") for h in hs)
    if not has_changing:
        return
    last: dict[str, dict] = {}
    for cy in tr["cycles"]:
        last[cy["uid"]] = cy
    rep = {"kind": "closed-loop", "scenario": sc}
    end_t = max((m["t"] for m in tr["marks"] if m["what"] == "end"), default=None)
    for k, o in tr["final_objects"].items():
        if "kopfexamples" not in k:
            continue
        uid = o["metadata"]["uid"]
        cy = last.get(uid)
        if cy is None or cy.get("error") or (cy.get("mem_after") or {}).get("remaining_patch") is not None \
                or (cy.get("mem_after") or {}).get("throttled"):
            ctx.count("closed_own_finalizer", "pending")
            continue
        hist = [v for v in tr["history"].get(k, []) if v["uid"] == uid]
        if end_t is not None and hist and end_t - hist[-1]["t"] < 4.0:
            ctx.count("closed_own_finalizer", "not-quiescent")
            continue
        if any(hc.get("uid") == uid and hc.get("outcome") not in ("ok", "obeyed-flag", "cancelled", "exited-on-its-own", None) for hc in tr["handler_calls"][-3:]):
            pass
        fins = o["metadata"].get("finalizers", [])
        marked = bool(o["metadata"].get("deletionTimestamp"))
        n = fins.count(OWN)
        token_daemons = {h["id"] for h in hs if h["kind"] == "daemon" and h.get("tokens")}
        if not marked and any(hc.get("uid") == uid and hc.get("id") in token_daemons and hc.get("outcome") == "ok" for hc in tr["handler_calls"]):
            # a daemon whose function has returned no longer requires the finalizer; it is dropped with the next event,
            # if one comes (C09's subject): present and absent are both right here
            ctx.count("closed_own_finalizer", "a daemon has exited on its own")
            continue
        if marked:
            if n != 0:
                # still held: legitimate only while a deletion handler has not succeeded yet
                done = any(hc.get("uid") == uid and hc.get("kind") == "delete" and hc.get("outcome") == "ok" for hc in tr["handler_calls"])
                has_del = any(h["kind"] == "delete" for h in hs)
                if done or not has_del:
                    ctx.oracle_fail(f"{uid} is marked for deletion, its handlers are done, yet the own finalizer is still there: {fins}", rep, SIG_FIN)
                else:
                    ctx.count("closed_own_finalizer", "held-handler-unfinished")
            else:
                ctx.count("closed_own_finalizer", "released")
        else:
            if n != (1 if requires else 0):
                ctx.oracle_fail(f"{uid}: own finalizer occurs {n} times in {fins}; required={requires}", rep, SIG_FIN)
            else:
                ctx.count("closed_own_finalizer", "present" if requires else "absent")


def own_inputs(tr: dict) -> dict[int, tuple[dict, list]]:
    """For deliveries of daemon/timer invocations that logged what they accumulated: the model's inputs
    (`daemonRun`: this invocation's own fields and fns + what remained of the same runner's previous delivery),
    keyed by the position of the call in `patch_calls`."""
    invs: dict[tuple, list] = {}
    for hc in tr["handler_calls"]:
        if hc.get("token") and hc.get("t_end") is not None:
            invs.setdefault((hc["uid"], hc["id"]), []).append(hc)
    seen: dict[tuple, int] = {}
    prev: dict[tuple, list] = {}
    out: dict[int, tuple[dict, list]] = {}
    for i, o in enumerate(tr["patch_calls"]):
        task = o.get("task") or ""
        if not task.startswith("runner of ") or o["orig"] is None:
            continue
        key = (o["orig_raw"]["metadata"]["uid"], task[len("runner of "):])
        if key not in invs:
            continue
        n = seen.get(key, 0)
        seen[key] = n + 1
        if n < len(invs[key]):
            hc = invs[key][n]
            out[i] = (hc["own_fields"], list(prev.get(key) or []) + list(hc["own_fns"]))
        rem = o["outcome"].get("remaining") if o["outcome"].get("kind") == "ok" else None
        prev[key] = list(rem or [])
    return out


def daemon_labels(tr: dict) -> tuple[list, list] | None:
    """The interleaving of the token daemons/timers of one object as labels of the model's `dstep`:
    the handlers' own log of their writes + the deliveries of their runner tasks (with the server state
    each started on). Cut before the first delivery that somebody else interleaved with."""
    toks = [hc for hc in tr["handler_calls"] if hc.get("token") and hc.get("writes")]
    if not toks:
        return None
    uid = toks[0]["uid"]
    ids = {hc["id"] for hc in toks}
    events: list[tuple] = []
    for hc in toks:
        if hc["uid"] != uid:
            continue
        for w in hc["writes"]:
            events.append((w["t"], 0, {"write": hc["id"], "set": w["set"], "fns": w["fns"]}, None))
    for o in tr["patch_calls"]:
        task = o.get("task") or ""
        if not task.startswith("runner of ") or task[len("runner of "):] not in ids or o["orig"] is None:
            continue
        if o["orig_raw"]["metadata"]["uid"] != uid:
            continue
        events.append((o["t"], 1, None, o))
    events.sort(key=lambda e: (e[0], e[1]))
    labels, calls = [], []
    for t, _k, lab, o in events:
        if lab is not None:
            labels.append(lab)
            continue
        if o["interleaved"] or o["outcome"].get("kind") == "cancelled" or any(not isinstance(r["code"], int) or r["code"] >= 500 for r in o["reqs"]) \
                or any(d[0] in ("unknown", "ufragile") for d in o["fns"]):
            break
        slips = {}
        for r in o["reqs"]:
            if r["slip"] is not None:
                slips[r["kind"]] = ["setFins", list((r["pre"] or {}).get("metadata", {}).get("finalizers", []))] if r["slip"][0] == "addFin" else r["slip"]
        labels.append({"deliver": (o["task"])[len("runner of "):], "orig": o["orig"], "server": o["server_before"], "slips": slips,
                       "faults": {r["kind"]: r["fault"] for r in o["reqs"] if r["fault"]}})
        calls.append(o)
    # writes after the last replayed delivery say nothing
    while labels and "write" in labels[-1]:
        labels.pop()
    return (labels, calls) if calls else None


def model_requests(tr: dict) -> list[tuple[list, dict]]:
    out = []
    own = own_inputs(tr)
    for idx, o in enumerate(tr["patch_calls"]):
        if o["outcome"]["kind"] == "cancelled" or o["orig"] is None or o["interleaved"]:
            continue
        if any(d[0] in ("unknown", "ufragile") for d in o["fns"]) or any(not isinstance(r["code"], int) or r["code"] >= 500 for r in o["reqs"]):
            continue
        if any(r["slip"] is not None and r["slip"][0] == "addFin" for r in o["reqs"]):
            slips = {}
            for r in o["reqs"]:
                if r["slip"] is not None:
                    slips[r["kind"]] = ["setFins", list((r["pre"] or {}).get("metadata", {}).get("finalizers", []))] if r["slip"][0] == "addFin" else r["slip"]
        else:
            slips = {r["kind"]: r["slip"] for r in o["reqs"] if r["slip"] is not None}
        faults = {r["kind"]: r["fault"] for r in o["reqs"] if r["fault"]}
        fields, fns = own.get(idx, (o["fields"], o["fns"]))
        req = ["C08.patch", {"sub": o["sub"], "fields": fields, "fns": fns, "orig": o["orig"],
                             "server": o["server_before"], "slips": slips, "faults": faults}]
        out.append((req, o))
    return out


def evaluate(ctx: Ctx, scenarios: list[dict], tie: bool = True) -> None:
    results = run_many(scenarios, wall=40.0)
    reqs, obs = [], []
    dreqs: list[tuple] = []
    for sc, res in zip(scenarios, results):
        if res.get("stall"):
            # liveness is not C08's subject: a stalled simulation is a harness-level failure (exit 2)
            raise RuntimeError(f"closed-loop simulation stalled: {json.dumps(sc)[:1500]}\n{res.get('stderr', '')[-3000:]}")
        if "trace" not in res:
            raise RuntimeError(f"closed-loop simulation failed: {str(res)[:3000]}")
        tr = res["trace"]
        if tr.get("sim_error"):
            raise RuntimeError(f"closed-loop simulation error: {tr['sim_error']}")
        ctx.traces += 1
        oracle(ctx, sc, tr)
        oracle_own_finalizer(ctx, sc, tr)
        oracle_invocations(ctx, sc, tr)
        oracle_foreign_finalizers(ctx, sc, tr)
        ctx.count("closed_scenarios", sc.get("c08_kind", "corpus"))
        landed = 0
        for o in tr["patch_calls"]:
            if o["orig"] is None:
                continue
            shape = [(r["kind"], r["code"], None if r["target"] is None else r["target"] == o["orig"]["uid"], r["slip"][0] if r["slip"] else None)
                     for r in o["reqs"]]
            landed += sum(1 for r in o["reqs"] if r["target"] is not None and r["target"] != o["orig"]["uid"])
            ctx.case(key={"closed": sc.get("c08_kind"), "sub": o["sub"], "shape": shape, "out": o["outcome"]["kind"],
                          "rem": None if o["outcome"].get("remaining") is None else len(o["outcome"]["remaining"]), "fns": [d[0] for d in o["fns"]]},
                     nontrivial=bool(o["reqs"]))
            ctx.count("closed_call_outcome", o["outcome"]["kind"] + ("+remaining" if o["outcome"].get("remaining") is not None else ""))
            for r in o["reqs"]:
                ctx.count("closed_request", f"{r['kind']}:{r['code']}")
        ctx.count("closed_requests_on_other_uid", min(landed, 5))
        ctx.count("closed_carried_nonempty", sum(1 for cr in tr["carried"] if cr["remaining"]))
        if tie:
            for req, o in model_requests(tr):
                reqs.append(req)
                obs.append((sc, o))
            dl = daemon_labels(tr)
            if dl is not None:
                dreqs.append((["C08.drun", {"sub": bool(sc.get("status_subresource")), "labels": dl[0]}], dl[1], sc))
    if tie and dreqs:
        try:
            douts = c08.ask_driver(ctx, [r for r, _c, _s in dreqs])
        except leanio.LeanError as e:
            ctx.tie_fail(f"Lean driver failed: {e}", {"log": e.log})
            douts = []
        for (req, calls, sc), out in zip(dreqs, douts):
            if not out or out[0] != "ok" or len(out[1]) != len(calls):
                ctx.tie_fail("driver rejected a daemons interleaving", {"request": req, "answer": out, "kind": "closed-loop", "scenario": sc})
                continue
            for o, m in zip(calls, out[1]):
                impl = {"patch": {"fields": o["fields"], "fns": o["fns"]}, **c08.impl_view(o, "patch_obj")}
                model = {"patch": {"fields": m["fields"], "fns": m["fns"]}, **c08.model_view({"result": m["result"]}, "patch_obj")}
                ctx.compare("C08 daemons interleaving: delivery", impl, model,
                            {"kind": "closed-loop", "scenario": sc, "call_t": o["t"], "daemon": m["daemon"]})
            ctx.count("closed_daemon_interleavings_replayed", min(len(calls), 6))
    if not tie or not reqs:
        return
    try:
        outs = c08.ask_driver(ctx, reqs)
    except leanio.LeanError as e:
        ctx.tie_fail(f"Lean driver failed: {e}", {"log": e.log})
        return
    for req, (sc, o), out in zip(reqs, obs, outs):
        if not out or out[0] != "ok":
            ctx.tie_fail("driver rejected a closed-loop call", {"request": req, "answer": out, "scenario": sc})
            continue
        impl = c08.impl_view(o, "patch_obj")
        model = c08.model_view({"result": out[1]}, "patch_obj")
        ctx.compare("C08 closed-loop patch_obj call", impl, model, {"kind": "closed-loop", "scenario": sc, "call_t": o["t"], "request": req})


def corpus() -> list[dict]:
    out = []
    for name, d in load_corpus(c08.ID):
        sc = d.get("scenario") or (d.get("replay") or {}).get("scenario")
        if sc:
            out.append(sc)
    return out


def run(ctx: Ctx) -> None:
    n = ctx.budget(64, 2400)
    scs = corpus() + [gen_scenario(ctx.rng, ctx.seed * 100000 + i) for i in range(n)]
    evaluate(ctx, scs)


def search(ctx: Ctx) -> None:
    n = ctx.budget(400, 4000)
    evaluate(ctx, [gen_scenario(ctx.rng, 5_000_000 + ctx.seed * 100000 + i) for i in range(n)], tie=False)


def replay(ctx: Ctx, rep: dict) -> None:
    sc = rep.get("scenario") or (rep.get("input") or {}).get("scenario")
    evaluate(ctx, [sc], tie=True)
