"""C06's REAL-thread worker: what the virtual-time simulations cannot contain.

The whole-operator simulator runs sync handlers inline (`runner.InlineExecutor`): no task is ever cancelled there
while its sync function is still running in a real thread. This worker runs, on a REAL asyncio loop with a REAL
`ThreadPoolExecutor` (threading.Event gates; observations of ORDER, never of durations):

* kind "invoke": the real `kopf._core.actions.invocation.invoke` of a gated sync function inside a task, driven by a
  label list `cancel` / `wake` / `return` / `raise`; after each label `task.done()` and "the function has returned"
  are read. `return`/`raise` opens the gate and BLOCKS the loop thread until the executor's future is done and its
  done-callbacks (asyncio's hand-over to the loop is the first of them) have been called — so the task has provably
  not run yet; `wake` lets the loop run everything that is ready (a fixed number of zero-time turns).
* kind "e2e": the real `processing.process_resource_event` (real registry, memories, daemons, patching, api client)
  against the in-memory API server of harness/sim/fakeapi.py (through a `Vault` holding its `FakeSession`), fed by a
  minimal worker: one cycle per stored version of the object, `stream_pressure` raised by every new version. A sync
  `@kopf.daemon(cancellation_backoff=…, cancellation_timeout=…)` or `@kopf.timer` whose function is gated. Recorded:
  every removal of the operator's own finalizer with — read at that very instant on the loop thread — whether a
  function of the daemon/timer is executing in its thread, and the time since the deletion request; every call of
  `daemons.stop_daemons` (task done before/after, declared backoff/timeout, age, whether delays were reported).

Run as `python -m harness.props.threads_c06` with a JSON list of cases on stdin: one JSON result line per case.
Every wait has a generous ceiling; hitting one is reported in the result ("ceiling": …), never asserted upon.
"""
from __future__ import annotations

import asyncio
import concurrent.futures
import copy
import faulthandler
import json
import logging
import sys
import threading
import time
from typing import Any

CEILING = 20.0      # seconds: for things that MUST happen for the case to make sense (thread start, thread return)
TURNS = 40          # zero-time loop turns of one `wake`


class RecordingExecutor(concurrent.futures.ThreadPoolExecutor):
    """A real thread pool that keeps the futures it handed out (to know when a thread has really returned)."""

    def __init__(self, *a: Any, **k: Any) -> None:
        super().__init__(*a, **k)
        self.handed: list[concurrent.futures.Future] = []

    def submit(self, fn: Any, /, *args: Any, **kwargs: Any) -> concurrent.futures.Future:  # type: ignore[override]
        f = super().submit(fn, *args, **kwargs)
        self.handed.append(f)
        return f


class Gate:
    """The gated sync function's state, shared between its thread(s) and the loop thread."""

    def __init__(self) -> None:
        self.lock = threading.Lock()
        self.open = threading.Event()
        self.started = threading.Event()
        self.raise_on_exit = False
        self.executing = 0       # invocations inside the function right now
        self.entered = 0
        self.exited = 0

    def enter(self) -> None:
        with self.lock:
            self.executing += 1
            self.entered += 1
        self.started.set()

    def leave(self) -> None:
        with self.lock:
            self.executing -= 1
            self.exited += 1

    def running(self) -> bool:
        with self.lock:
            return self.executing > 0


async def _turns(n: int = TURNS) -> None:
    for _ in range(n):
        await asyncio.sleep(0)


def _block_until_callbacks_called(futs: list[concurrent.futures.Future]) -> bool:
    """Block the calling (loop) thread until all futures are done AND the done-callbacks registered so far have been
    invoked (callbacks run in registration order: ours is registered last)."""
    ok = True
    for f in futs:
        ev = threading.Event()
        f.add_done_callback(lambda _f, ev=ev: ev.set())
        ok = ev.wait(CEILING) and ok
    return ok


# =============================================================================================
# kind "invoke"
# =============================================================================================
async def run_invoke(case: dict) -> dict:
    from kopf._cogs.configs import configuration
    from kopf._core.actions import invocation

    gate = Gate()
    settings = configuration.OperatorSettings()
    executor = RecordingExecutor(max_workers=2)
    settings.execution.executor = executor

    def fn(**_: Any) -> str:
        gate.enter()
        try:
            gate.open.wait(CEILING * 3)
            if gate.raise_on_exit:
                raise ValueError("scripted")
            return "value"
        finally:
            gate.leave()

    out: dict[str, Any] = {"obs": [], "ceiling": None}
    task = asyncio.create_task(invocation.invoke(fn, settings=settings, kwargs={"x": 1}))
    try:
        t0 = time.monotonic()
        while not gate.started.is_set() and time.monotonic() - t0 < CEILING:
            await asyncio.sleep(0.002)
        if not gate.started.is_set():
            out["ceiling"] = "the function never started"
            return out

        def obs() -> dict:
            return {"done": task.done(), "returned": gate.exited > 0}

        for lab in case["labels"]:
            if lab == "cancel":
                task.cancel()
            elif lab == "wake":
                await _turns()
            elif lab in ("return", "raise"):
                gate.raise_on_exit = lab == "raise"
                gate.open.set()
                if not _block_until_callbacks_called(list(executor.handed)):
                    out["ceiling"] = "the thread did not return"
                    return out
            else:
                raise ValueError(lab)
            out["obs"].append(obs())
        if task.done():
            out["fin"] = "cancelled" if task.cancelled() else ("error" if task.exception() is not None else "value")
        else:
            out["fin"] = None
        return out
    finally:
        gate.open.set()
        if not task.done():
            task.cancel()
        try:
            await asyncio.wait([task], timeout=CEILING)
        except BaseException:  # noqa: BLE001
            pass
        if task.done() and not task.cancelled():
            task.exception()
        executor.shutdown(wait=True)
        await _turns(5)


# =============================================================================================
# kind "e2e"
# =============================================================================================
async def run_e2e(case: dict) -> dict:
    import kopf
    from kopf._cogs.clients import auth
    from kopf._cogs.configs import configuration
    from kopf._cogs.structs import credentials, ephemera, references
    from kopf._core.actions import lifecycles
    from kopf._core.engines import daemons, indexing
    from kopf._core.intents import registries
    from kopf._core.reactor import inventory, processing
    from ..sim import fakeapi

    loop = asyncio.get_running_loop()
    own = case.get("finalizer") or "kopf.zalando.org/KopfFinalizerMarker"
    backoff, timeout = case.get("backoff"), case.get("timeout")
    kind, mode = case["handler"], case["mode"]

    settings = configuration.OperatorSettings()
    settings.posting.enabled = False
    settings.persistence.finalizer = own
    settings.networking.error_backoffs = (0.05, 0.05)
    executor = RecordingExecutor(max_workers=4)
    settings.execution.executor = executor

    cluster = fakeapi.Cluster(latency=1.0 / 256)
    session = fakeapi.FakeSession(cluster, identity="op")
    auth.vault_var.set(credentials.Vault({"fake": credentials.AiohttpSession(
        aiohttp_session=session, server="http://fake", default_namespace="default")}))  # type: ignore[arg-type]
    res = fakeapi.KEX
    resource = references.Resource(group=res.group, version=res.version, plural=res.plural, kind=res.kind,
                                   singular="kopfexample", shortcuts=frozenset(["kex"]), namespaced=True, preferred=True,
                                   verbs=frozenset(["list", "watch", "patch"]))
    key = (res.key, "ns", "a")

    gate = Gate()
    registry = registries.OperatorRegistry()

    def body_of_fn(stopped: Any = None, **_: Any) -> None:
        gate.enter()
        try:
            if mode == "obey" and stopped is not None:
                while not stopped.is_set() and not gate.open.is_set():
                    stopped.wait(0.01)
            else:   # busy: in the middle of a blocking piece of work; the stop flag is not even looked at
                gate.open.wait(CEILING * 3)
            if gate.raise_on_exit:
                raise ValueError("scripted")
        finally:
            gate.leave()

    if kind == "daemon":
        opts: dict[str, Any] = {}
        if backoff is not None:
            opts["cancellation_backoff"] = backoff
        if timeout is not None:
            opts["cancellation_timeout"] = timeout
        kopf.daemon("kopfexamples", registry=registry, id="dm", **opts)(body_of_fn)
    else:
        kopf.timer("kopfexamples", registry=registry, id="tm", interval=case.get("interval", 0.03))(body_of_fn)

    out: dict[str, Any] = {"removals": [], "stops": [], "marks": {}, "ceiling": None, "cycles": 0, "errors": []}
    state: dict[str, Any] = {"t_mark": None, "gone": False}
    dirty = asyncio.Event()
    pressure = asyncio.Event()

    def fins(b: dict | None) -> list[str]:
        return list(((b or {}).get("metadata") or {}).get("finalizers") or [])

    orig_apply_new, orig_store, orig_remove = cluster._apply_new, cluster._store, cluster._remove

    def apply_new(k: tuple, new: dict, sub: Any, foreign: bool = False) -> dict:
        old_f = fins(cluster.objects.get(k))
        running = gate.running()          # read BEFORE the write takes effect, on the loop thread
        now = loop.time()
        res_ = orig_apply_new(k, new, sub, foreign)
        if k == key and own in old_f and own not in fins(res_):
            out["removals"].append({"t": now, "foreign": foreign, "fn_running": running,
                                    "since_mark": None if state["t_mark"] is None else now - state["t_mark"],
                                    "fins_before": old_f, "fins_after": fins(res_),
                                    "entered": gate.entered, "exited": gate.exited})
        return res_

    def store(k: tuple, b: dict, etype: str) -> dict:
        r = orig_store(k, b, etype)
        if k == key:
            dirty.set()
            pressure.set()
        return r

    def remove(k: tuple) -> None:
        orig_remove(k)
        if k == key:
            state["gone"] = True
            dirty.set()
            pressure.set()

    cluster._apply_new, cluster._store, cluster._remove = apply_new, store, remove  # type: ignore[method-assign]

    orig_stop = daemons.stop_daemons

    async def stop_daemons(*, settings: Any, daemons: dict, reason: Any = None, **kw: Any) -> Any:  # noqa: A002
        ds = list(daemons.values())
        t0 = loop.time()
        before = [(d, d.task.done(), d.stopper.when) for d in ds]
        kw2 = dict(kw) if reason is None else dict(kw, reason=reason)
        delays = await orig_stop(settings=settings, daemons=daemons, **kw2)
        t1 = loop.time()
        if len(before) == 1:
            d, done0, when = before[0]
            out["stops"].append({"done_before": done0, "done_after": d.task.done(),
                                 "age0": 0.0 if when is None else t0 - when, "age1": 0.0 if when is None else t1 - when,
                                 "delays": len(list(delays)), "fn_running": gate.running(),
                                 "backoff": getattr(d.handler, "cancellation_backoff", None),
                                 "timeout": getattr(d.handler, "cancellation_timeout", None)})
        return delays

    daemons.stop_daemons = stop_daemons  # type: ignore[assignment]

    memories = inventory.ResourceMemories()
    indexers = indexing.OperatorIndexers()
    queue: asyncio.Queue = asyncio.Queue()
    stop_worker = False

    async def worker() -> None:
        processed = None
        last_body = None
        first = True
        while not stop_worker:
            body = cluster.objects.get(key)
            if body is None:
                if last_body is not None:
                    await cycle({"type": "DELETED", "object": last_body})
                return
            rv = body["metadata"]["resourceVersion"]
            if rv == processed:
                dirty.clear()
                if cluster.objects.get(key) is body:
                    await dirty.wait()
                continue
            last_body = copy.deepcopy(body)
            processed = rv
            pressure.clear()
            await cycle({"type": "ADDED" if first else "MODIFIED", "object": copy.deepcopy(body)})
            first = False

    async def cycle(raw: dict) -> None:
        out["cycles"] += 1
        try:
            await processing.process_resource_event(
                lifecycle=lifecycles.all_at_once, indexers=indexers, registry=registry, settings=settings,
                memories=memories, memobase=ephemera.Memo(), resource=resource, raw_event=raw,  # type: ignore[arg-type]
                event_queue=queue, stream_pressure=pressure, no_throttling=True)
        except asyncio.CancelledError:
            raise
        except Exception as e:  # noqa: BLE001
            out["errors"].append(f"{type(e).__name__}: {e}"[:300])

    async def until(pred: Any, ceiling: float) -> bool:
        t0 = time.monotonic()
        while not pred():
            if time.monotonic() - t0 > ceiling:
                return False
            await asyncio.sleep(0.004)
        return True

    cluster.create_raw(res, "ns", "a", {"metadata": {"finalizers": list(case.get("foreign") or [])}, "spec": {"x": 1}})
    wtask = asyncio.create_task(worker())
    n_poke = 0
    try:
        if not await until(lambda: gate.started.is_set() and own in fins(cluster.objects.get(key)), CEILING):
            out["ceiling"] = "setup: the function did not start / the finalizer was not added"
            return out
        for step in case["steps"]:
            op = step[0] if isinstance(step, list) else step
            if op == "delete":
                state["t_mark"] = loop.time()
                cluster.delete(res, "ns", "a")
            elif op == "poke":       # a foreign write: a new version, hence a new cycle
                n_poke += 1
                cluster.edit(res, "ns", "a", {"metadata": {"labels": {"poke": str(n_poke)}}})
            elif op == "idle":
                await asyncio.sleep(float(step[1]))
                continue
            elif op == "release" or op == "release-raise":
                gate.raise_on_exit = op == "release-raise"
                gate.open.set()
                await until(lambda: not gate.running(), CEILING)
                out["marks"]["released_at"] = loop.time()
                continue
            else:
                raise ValueError(op)
            await asyncio.sleep(0.06)    # let the cycle of this version run (it may well still be sleeping on its delays)
        # the end: the function is let go (if it was not); with a few more events the object must be released
        gate.open.set()
        await until(lambda: not gate.running(), CEILING)
        out["fn_returned_at_end"] = not gate.running()
        if state["t_mark"] is not None:
            for _ in range(40):
                if state["gone"] or own not in fins(cluster.objects.get(key)):
                    break
                n_poke += 1
                cluster.edit(res, "ns", "a", {"metadata": {"labels": {"poke": str(n_poke)}}})
                await asyncio.sleep(0.05)
        out["released_in_the_end"] = state["gone"] or own not in fins(cluster.objects.get(key))
        out["final_fins"] = fins(cluster.objects.get(key))
        out["gone"] = state["gone"]
        out["history"] = [{"event": h["event"], "fins": fins(h["body"]), "marked": bool(h["body"]["metadata"].get("deletionTimestamp"))}
                          for h in cluster.history.get(key, [])][-30:]
        return out
    finally:
        gate.open.set()
        stop_worker = True
        daemons.stop_daemons = orig_stop  # type: ignore[assignment]
        cur = asyncio.current_task()
        others = [t for t in asyncio.all_tasks() if t is not cur and not t.done()]
        for t in others:
            t.cancel()
        if others:
            await asyncio.wait(others, timeout=CEILING)
        for t in others:
            if t.done() and not t.cancelled():
                t.exception()
        executor.shutdown(wait=True)
        await _turns(5)


def run_case(case: dict) -> dict:
    loop = asyncio.new_event_loop()
    asyncio.set_event_loop(loop)
    loop.set_exception_handler(lambda l, c: None)
    try:
        coro = run_invoke(case) if case["kind"] == "invoke" else run_e2e(case)
        return loop.run_until_complete(asyncio.wait_for(coro, timeout=CEILING * 4))
    finally:
        try:
            loop.run_until_complete(loop.shutdown_default_executor())
        except Exception:  # noqa: BLE001
            pass
        loop.close()
        asyncio.set_event_loop(None)


def main() -> None:
    import warnings
    warnings.simplefilter("ignore")
    logging.getLogger("kopf").setLevel(logging.CRITICAL)
    logging.getLogger("asyncio").setLevel(logging.CRITICAL)
    logging.disable(logging.CRITICAL)
    cases = json.loads(sys.stdin.read())
    faulthandler.dump_traceback_later(float(sys.argv[1]) if len(sys.argv) > 1 else 120.0, exit=True)
    for i, case in enumerate(cases):
        try:
            r = run_case(case)
        except BaseException as e:  # noqa: BLE001
            import traceback
            r = {"harness_error": f"{type(e).__name__}: {e}", "tb": traceback.format_exc()[-2500:]}
        sys.stdout.write(json.dumps({"i": i, **r}, default=repr) + "\n")
        sys.stdout.flush()


def run_many(cases: list[dict], wall: float = 120.0, jobs: int = 8) -> list[dict]:
    """Run the cases in `jobs` worker subprocesses (each under a hard kill after `wall` seconds)."""
    import os
    import subprocess
    from pathlib import Path
    root = Path(__file__).resolve().parent.parent.parent
    env = dict(os.environ)
    env["PYTHONPATH"] = f"{root}:{env.get('KOPF_REPO', '/repo')}"
    shards: list[list[tuple[int, dict]]] = [[] for _ in range(max(1, min(jobs, len(cases))))]
    for i, c in enumerate(cases):
        shards[i % len(shards)].append((i, c))
    results: dict[int, dict] = {}

    def one(shard: list[tuple[int, dict]]) -> None:
        try:
            p = subprocess.run(["timeout", "-s", "KILL", str(int(wall) + 30), sys.executable, "-m", "harness.props.threads_c06", str(wall)],
                               input=json.dumps([c for _, c in shard]), capture_output=True, text=True, cwd=str(root), env=env)
        except Exception as e:  # noqa: BLE001
            for i, _ in shard:
                results[i] = {"harness_error": repr(e)}
            return
        for line in p.stdout.splitlines():
            if line.startswith("{"):
                r = json.loads(line)
                results[shard[r["i"]][0]] = r
        for i, _ in shard:
            results.setdefault(i, {"harness_error": f"no result (worker rc={p.returncode})", "tb": p.stderr[-2500:]})

    with concurrent.futures.ThreadPoolExecutor(max_workers=len(shards)) as ex:
        list(ex.map(one, shards))
    return [results[i] for i in range(len(cases))]


if __name__ == "__main__":
    main()
