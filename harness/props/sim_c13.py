"""C13 — simulation half: several REAL `kopf.operator()`s on one fake cluster with a ClusterKopfPeering.

Nothing in /repo is edited. Observation is by attribute patching (restored afterwards):
 * `aiotoggles.Toggle.turn_to`, `ToggleSet.make_toggle/drop_toggle(s)` → every transition of every operator's
   `operator_paused` set (per incarnation, by contextvar);
 * `peering.process_peering_event` wrapped; inside one call `peering.clean`, `peering.touch`, the `aiotime.sleep`
   seen from `peering`, and the toggle are observed → one record per call (the (S) tie input/output);
 * `peering.random.randint` / `peering.asyncio.sleep` as seen from `peering.keepalive` → the keep-alive arithmetic;
 * `processing.process_resource_event` → one record per handling cycle of the handled resource;
 * scripted create/update handlers and a daemon per operator; the fake API's request log / watch objects.

Also the subprocess worker (`python -m harness.props.sim_c13 <wall>`) and the pool that drives it.
"""
from __future__ import annotations

import asyncio
import contextlib
import copy
import json
import os
import random
import subprocess
import sys
from concurrent.futures import ThreadPoolExecutor
from pathlib import Path
from typing import Any, Iterator

ROOT = Path(__file__).resolve().parent.parent.parent
TPS = 64                      # ticks per second (1 tick = 1/64 s)
NS = "ns"


def ticks(seconds: float) -> int:
    x = float(seconds) * TPS
    r = round(x)
    if abs(x - r) > 1e-6:
        raise ValueError(f"time {seconds!r} is not a multiple of 1/{TPS} s")
    return int(r)


class _Proxy:
    """A module look-alike: a few names overridden, everything else is the real module's."""

    def __init__(self, real: Any, **over: Any) -> None:
        self.__dict__["_real"] = real
        self.__dict__.update(over)

    def __getattr__(self, name: str) -> Any:
        return getattr(self.__dict__["_real"], name)


def iso_ticks(val: Any) -> Any:
    """Abstraction of a `lastseen` value: ticks since the simulation epoch, or 'bad' when iso8601 rejects it."""
    import iso8601
    from ..sim import simloop
    if val is None:
        return None
    try:
        dt = iso8601.parse_date(val)
    except Exception:  # noqa: BLE001
        return "bad"
    x = (dt - simloop.EPOCH).total_seconds() * TPS
    if abs(x - round(x)) > 1e-6:
        return "offgrid"
    return int(round(x))


def abstract_status(status: Any) -> Any:
    """The peering status as the model reads it: an ordered list of [identity, record]; in a record
    `lastseen` is replaced by ticks (the only abstraction), every other field is passed through verbatim."""
    if not isinstance(status, dict):
        return {"notdict": status if isinstance(status, (type(None), bool, int, str)) else type(status).__name__}
    out = []
    for k, v in status.items():
        if isinstance(v, dict):
            v = dict(v)
            if "lastseen" in v:
                v["lastseen"] = {"t": iso_ticks(v["lastseen"])}
        out.append([k, v])
    return out


# =================================================================================================
class Sim13:
    def __init__(self, sc: dict):
        from ..sim import fakeapi
        self.sc = sc
        self.rng = random.Random(sc.get("seed", 0))
        random.seed(sc.get("seed", 0))
        self.kex = fakeapi.KEX
        # `"scope": "namespaced"`: operators restricted to the namespace `ns` (kopf run --namespace=ns), peering through the
        # KopfPeering object of that namespace; default: cluster-wide operators and a ClusterKopfPeering
        self.namespaced = sc.get("scope") == "namespaced"
        self.peer_res = fakeapi.NS_PEERING if self.namespaced else fakeapi.CLUSTER_PEERING
        self.peer_ns = NS if self.namespaced else None
        self.peer_path = "/" + self.peer_res.plural
        self.cluster = fakeapi.Cluster([fakeapi.NAMESPACES, fakeapi.CRDS, fakeapi.KEX, fakeapi.CLUSTER_PEERING, fakeapi.NS_PEERING])
        self.pname = sc.get("peering", "default")
        self.incs: list[dict] = []                 # incarnations
        self.by_inc: dict[int, dict] = {}
        self.live: dict[str, Any] = {}             # operator name -> runner.Operator (latest incarnation)
        self.toggles: list[dict] = []
        self.pcalls: list[dict] = []
        self.ka: list[dict] = []
        self.touches: list[dict] = []
        self.calls: list[dict] = []
        self.cycles: list[dict] = []
        self.marks: list[dict] = []
        self.guard_failures: list[dict] = []
        self.writes: list[dict] = []
        self.refused: list[dict] = []          # conditional PATCHes of the peering object answered 409
        self.fault_hits: list[dict] = []       # every request answered by an injected fault of the scenario (t, t_done, who, class, kind)
        self.slow_hits: list[dict] = []        # every peering PATCH that a `slow_requests` rule of the scenario held up on its way to the server
        self.peer_patches: list[dict] = []     # every peering PATCH at the moment it is SENT: class, payload, and when its client cancelled it (if it did)
        self._patch_class: str | None = None   # the class of the peering PATCH that is being issued right now (see `installed`)
        self._on_fault: Any = None             # set by `installed`: marks the process_peering_event call a fault hits
        self.toggle_set: dict[int, Any] = {}       # id(toggle) -> (toggle, set)
        self.sets: dict[int, dict] = {}            # id(set) -> {"inc":, "fn":}
        self.dead: set[int] = set()
        self.delivery = {k: float(v) for k, v in (sc.get("delivery") or {}).items()}
        self.cluster.echo_delay = self._echo_delay
        for f in sc.get("faults", []):
            self.cluster.fault_rules.append(self._mk_fault(f))

    def _mk_fault(self, f: dict) -> Any:
        """{"who": name, "after": t, "method": "PATCH", "res": "peering", "status": 503}: the API refuses such requests.
        Targeted form (peering PATCHes only): {"who": name, "cls": "keepalive"|"selftouch"|"clean"|"withdraw", "nth": n, "count": k,
        "kind": "status"|"conn-before"|"conn-after"|"timeout", "status": 409}: the n-th .. (n+k-1)-th REQUEST of that class by that
        operator (every attempt of kopf's client is a request of its own) fails that way. The class of a request is what it asks
        for and where it comes from (set by the request wrapper of `installed`): the own record written outside / inside a
        process_peering_event call, the own record removed, records of others removed."""
        from ..sim import fakeapi
        seen = {"n": 0}

        def rule(req: dict) -> Any:
            if req["who"].split("#")[0].split("-r")[0] != f.get("who"):
                return None
            if req["method"] != f.get("method", "PATCH") or self.now() < float(f.get("after", 0.0)):
                return None
            if f.get("res", "peering") == "peering" and self.peer_path not in req["path"]:
                return None
            kind, status = f.get("kind", "status"), int(f.get("status", 503))
            if f.get("cls") is not None:
                cls = self._patch_class
                if cls != f["cls"]:
                    return None
                seen["n"] += 1
                if not (int(f.get("nth", 1)) <= seen["n"] < int(f.get("nth", 1)) + int(f.get("count", 1))):
                    return None
            hit = {"t": self.now(), "t_done": None, "inc": self.inc(), "who": req["who"], "cls": self._patch_class, "kind": kind,
                   "status": status if kind == "status" else None, "in_call": False}
            self.fault_hits.append(hit)
            if self._on_fault is not None:
                self._on_fault(hit)
            return fakeapi.Fault(kind, status)
        return rule

    # ---- helpers --------------------------------------------------------------------------------
    def now(self) -> float:
        from ..sim import simloop
        return simloop.WALL.now_s()

    def inc(self) -> int:
        from ..sim import runner
        return runner._incarnation.get()

    def mark(self, what: str, **kw: Any) -> None:
        self.marks.append({"t": self.now(), "what": what, **kw})

    def _echo_delay(self, w: Any, etype: str, body: dict) -> float:
        if w.res.key != self.peer_res.key:
            return 0.0
        name = w.session.identity.split("#")[0]
        return self.delivery.get(name, 0.0)

    # ---- handlers -------------------------------------------------------------------------------
    def build_registry(self, name: str) -> Any:
        import kopf
        reg = kopf.OperatorRegistry()
        sim = self

        def rec_of(kind: str, hid: str, kwargs: dict) -> dict | None:
            n = sim.inc()
            if n in sim.dead:
                return None
            body = kwargs.get("body") or {}
            meta = body.get("metadata", {})
            r = {"t": sim.now(), "inc": n, "op": name, "id": hid, "kind": kind, "uid": meta.get("uid"),
                 "name": meta.get("name"), "rv": meta.get("resourceVersion"), "x": (body.get("spec") or {}).get("x"),
                 "retry": kwargs.get("retry")}
            if kwargs.get("diff") is not None:
                r["diff"] = json.loads(json.dumps(list(kwargs["diff"]), default=repr))
            sim.calls.append(r)
            return r

        hdelay = float(self.sc.get("handler_delay", 0.0))

        @kopf.on.create("kopfexamples", id="c", registry=reg)
        async def c(**kwargs: Any) -> None:
            r = rec_of("create", "c", kwargs)
            if r is None:
                raise asyncio.CancelledError()
            if hdelay:
                await asyncio.sleep(hdelay)
            r["t_end"] = sim.now()

        # `handler_ignores_cancel: true`: the update handler swallows every cancellation until its time is over (an
        # uncooperative handler: what a graceful stop does when the handling does not stop within queueing.exit_timeout)
        shielded = bool(self.sc.get("handler_ignores_cancel"))

        @kopf.on.update("kopfexamples", id="u", registry=reg)
        async def u(**kwargs: Any) -> None:
            r = rec_of("update", "u", kwargs)
            if r is None:
                raise asyncio.CancelledError()
            if hdelay and shielded:
                t_end = sim.now() + hdelay
                while sim.now() < t_end and sim.inc() not in sim.dead:
                    try:
                        await asyncio.sleep(t_end - sim.now())
                    except asyncio.CancelledError:
                        r["cancels_ignored"] = r.get("cancels_ignored", 0) + 1
            elif hdelay:
                await asyncio.sleep(hdelay)
            r["t_end"] = sim.now()

        # `daemon_mode`: "obey" - the daemon polls its `stopped` flag (ends within 0.5 s of being asked); "cancel" - it never looks
        # at the flag and waits for ever: only the CANCELLATION of its task (cancellation_timeout) ends it
        dmode = self.sc.get("daemon_mode", "obey")
        if self.sc.get("daemon", True):
            @kopf.daemon("kopfexamples", id="d", registry=reg, cancellation_timeout=1.0)
            async def d(stopped: Any, **kwargs: Any) -> None:
                r = rec_of("daemon", "d", kwargs)
                if r is None:
                    raise asyncio.CancelledError()
                r["mode"] = dmode
                try:
                    if dmode == "cancel":
                        await asyncio.Event().wait()
                    while not stopped:
                        await stopped.wait(0.5)
                    r["stop_reason"] = repr(getattr(stopped, "reason", None))
                finally:
                    r["t_end"] = sim.now()
                    r["muted_end"] = sim.inc() in sim.dead

        # `timer: s`: a timer every s seconds on every object (timers are stopped by a pause like the daemons)
        if self.sc.get("timer"):
            @kopf.timer("kopfexamples", id="t", registry=reg, interval=float(self.sc["timer"]))
            async def t(**kwargs: Any) -> None:
                r = rec_of("timer", "t", kwargs)
                if r is None:
                    raise asyncio.CancelledError()
                r["t_end"] = sim.now()
        return reg

    # ---- operator lifecycle ---------------------------------------------------------------------
    async def start_op(self, name: str) -> None:
        from ..sim import runner
        spec = self.sc["ops"][name]
        old = self.live.get(name)
        if old is not None and old.alive and not old.killed:
            return
        over = {"peering.lifetime": int(spec.get("lifetime", 60))}
        over.update(self.sc.get("settings", {}))
        settings = runner.default_settings(**over)
        nth = sum(1 for i in self.incs if i["name"] == name)
        # kopf's default identity is unique per process; with POD_ID (sticky) it survives restarts
        ident = spec.get("identity", name if self.sc.get("sticky_identities") else (name if nth == 0 else f"{name}-r{nth}"))
        scope = dict(clusterwide=False, namespaces=[NS]) if self.namespaced else {}
        op = runner.Operator(self.cluster, self.build_registry(name), settings, identity=ident,
                             priority=int(spec.get("priority", 0)), peering_name=self.pname, standalone=False, **scope)
        self.live[name] = op
        info = {"name": name, "nth": nth, "identity": ident, "inc": op.n, "who": op.session.identity, "priority": int(spec.get("priority", 0)),
                "lifetime": int(spec.get("lifetime", 60)), "t_start": self.now(), "t_stop_req": None, "t_stopped": None,
                "t_killed": None, "result": None, "t_exit": None, "exit": None, "exit_site": None}
        self.incs.append(info)
        self.by_inc[op.n] = info
        await op.start()
        self.mark("start", op=name, inc=op.n)

        def _done(task: Any, info: dict = info, op: Any = op) -> None:
            info["t_exit"] = self.now()
            if op.killed or task.cancelled():
                info["exit"] = "cancelled"
                return
            exc = task.exception()
            if exc is None:
                info["exit"] = "returned"
                return
            site = None
            tb = exc.__traceback__
            while tb is not None:
                if "/kopf/" in tb.tb_frame.f_code.co_filename:
                    site = f"{tb.tb_frame.f_code.co_filename.split('/kopf/')[-1]}:{tb.tb_frame.f_code.co_name}"
                tb = tb.tb_next
            info["exit"] = f"{type(exc).__name__}: {exc}"
            info["exit_site"] = site
        op.task.add_done_callback(_done)

    def stop_op(self, name: str) -> None:
        op = self.live.get(name)
        if op is None or not op.alive or op.killed:
            return
        info = self.by_inc[op.n]
        if info["t_stop_req"] is not None:
            return
        info["t_stop_req"] = self.now()
        self.mark("stop", op=name, inc=op.n)

        async def _stop() -> None:
            r = await op.stop()
            info["t_stopped"] = self.now()
            info["result"] = repr(r)
        info["_task"] = asyncio.get_running_loop().create_task(_stop())

    def on_wake(self, inc: int) -> None:
        """`stop_on_wake: {name: t}` of the scenario: the first time after t that a `process_peering_event` call of that operator
        has slept to a blocker's deadline undisturbed, the operator is asked to stop AT THAT TICK - the call's self-touch and the
        pinger's withdrawal are then issued together (the coincidence of audit N3 / of the old finding F2)."""
        info = self.by_inc.get(inc)
        spec = self.sc.get("stop_on_wake") or {}
        if info is None or info["name"] not in spec or self.now() < float(spec[info["name"]]) or info["t_stop_req"] is not None:
            return
        if inc in self.dead or info.get("_wake_stop"):
            return
        info["_wake_stop"] = True
        self.mark("stop_on_wake", op=info["name"], inc=inc)
        # (from a neutral context: the stopping task must not count as one of the operator's own tasks)
        asyncio.get_running_loop().call_soon(self.stop_op, info["name"], context=self._base_ctx)

    def kill_op(self, name: str) -> None:
        op = self.live.get(name)
        if op is None or not op.alive or op.killed:
            return
        info = self.by_inc[op.n]
        if info["t_stop_req"] is not None:
            return      # a stopping operator is left to finish
        self.dead.add(op.n)
        op.kill()
        info["t_killed"] = self.now()
        self.mark("kill", op=name, inc=op.n)

    def apply(self, kind: str, args: list) -> None:
        c, kex = self.cluster, self.kex
        if kind == "create":
            if c.get(kex, NS, args[0]) is None:
                c.create_raw(kex, NS, args[0], args[1] if len(args) > 1 else {"spec": {"x": 0}})
        elif kind == "edit":
            c.edit(kex, NS, args[0], args[1])
        elif kind == "delete_peering":      # somebody deletes the peering object itself
            c.delete(self.peer_res, self.peer_ns, self.pname)
        elif kind == "create_peering":
            if c.get(self.peer_res, self.peer_ns, self.pname) is None:
                c.create_raw(self.peer_res, self.peer_ns, self.pname, {})
        elif kind == "ghost":       # a foreign actor writes into the peering status (merge-patch of `status`)
            c.edit(self.peer_res, self.peer_ns, self.pname, {"status": args[0]})
        elif kind == "ghost_rel":   # the same, `lastseen` given relative to now: {"id": {"age": s, ...}}
            st = {}
            for k, v in args[0].items():
                if isinstance(v, dict) and "age" in v:
                    v = dict(v)
                    age = v.pop("age")
                    from ..sim import simloop
                    import datetime
                    # `tz: minutes`: the writer stamps its record in a local time with that UTC offset (the same instant)
                    tz = datetime.timezone(datetime.timedelta(minutes=int(v.pop("tz", 0))))
                    v["lastseen"] = (simloop.WALL.now(tz=datetime.timezone.utc) - datetime.timedelta(seconds=age)).astimezone(tz).isoformat()
                st[k] = v
            c.edit(self.peer_res, self.peer_ns, self.pname, {"status": st})
        else:
            raise ValueError(f"unknown op {kind}")
        self.mark("op", op=[kind, *args])

    async def sleep_until(self, t: float) -> None:
        d = t - self.now()
        if d > 0:
            await asyncio.sleep(d)

    async def run(self) -> dict:
        import contextvars
        self._base_ctx = contextvars.copy_context()
        sc = self.sc
        body: dict[str, Any] = {}
        if sc.get("pre_status") is not None:
            body["status"] = copy.deepcopy(sc["pre_status"])
        if not sc.get("no_peering_object"):
            self.cluster.create_raw(self.peer_res, self.peer_ns, self.pname, body)
        # `other_peerings: {name: status}`: other peering objects of the same kind (other peering neighbourhoods; not ours to
        # worry about, whatever their names and whoever is in them)
        for oname, ost in (sc.get("other_peerings") or {}).items():
            self.cluster.create_raw(self.peer_res, self.peer_ns, oname, {"status": copy.deepcopy(ost)})
        for o in sc.get("objects", []):
            self.cluster.create_raw(self.kex, NS, o["name"], o.get("body", {"spec": {"x": 0}}))
        for ev in sorted(sc.get("timeline", []), key=lambda e: e[0]):
            t, kind, args = ev[0], ev[1], list(ev[2:])
            await self.sleep_until(t)
            if kind == "start":
                await self.start_op(args[0])
            elif kind == "stop":
                self.stop_op(args[0])
            elif kind == "kill":
                self.kill_op(args[0])
            else:
                self.apply(kind, args)
        await self.sleep_until(float(sc.get("end", 60.0)))
        self.mark("end")
        t_end = self.now()
        snapshot = self.trace(t_end)
        # wind down: graceful stop of whatever still runs (not part of the judged history)
        for name, op in self.live.items():
            if op.alive and not op.killed and self.by_inc[op.n]["t_stop_req"] is None:
                self.by_inc[op.n]["t_stop_req_final"] = self.now()
                try:
                    await op.stop(timeout=120.0)
                except BaseException:  # noqa: BLE001
                    pass
        for info in self.incs:
            t = info.get("_task")
            if t is not None and not t.done():
                try:
                    await asyncio.wait_for(t, 120.0)
                except BaseException:  # noqa: BLE001
                    pass
        return snapshot

    # ---- the trace ------------------------------------------------------------------------------
    def trace(self, t_end: float) -> dict:
        c = self.cluster
        pk = (self.peer_res.key, self.peer_ns, self.pname)
        phist = [{"t": h["t"], "rv": h["body"]["metadata"]["resourceVersion"], "event": h["event"],
                  "status": copy.deepcopy(h["body"].get("status"))} for h in c.history.get(pk, [])]
        khist = {}
        for k, v in c.history.items():
            if k[0] == self.kex.key:
                khist[k[2]] = [{"t": h["t"], "rv": h["body"]["metadata"]["resourceVersion"], "event": h["event"],
                                "uid": h["body"]["metadata"].get("uid"), "x": (h["body"].get("spec") or {}).get("x")} for h in v]
        reqs = []
        for r in c.requests:
            is_kex = "/kopfexamples" in r["path"]
            is_peer = self.peer_path in r["path"]
            if not (is_kex or is_peer):
                continue
            rr = {"t": r["t"], "who": r["who"], "method": r["method"], "path": r["path"], "watch": bool(r["query"].get("watch")),
                  "res": "kex" if is_kex else "peering", "response": r.get("response") if isinstance(r.get("response"), (int, str)) else None}
            if r["method"] == "PATCH" and is_peer:
                rr["payload"] = r.get("payload")
                rr["injected"] = "fault" in r          # answered by an injected fault of the scenario (the environment)
            if "listed" in r:
                rr["listed"] = r["listed"]
            w = r.get("watch")
            if w is not None:
                rr["closed_at"] = getattr(w, "closed_at", None)
                rr["still_open"] = not w.closed
                rr["delivered"] = [[d[0], d[1], d[2], d[3]] for d in w.delivered]
            reqs.append(rr)
        incs = [{k: v for k, v in i.items() if not k.startswith("_")} for i in self.incs]
        # NB: a snapshot: the wind-down after `end` (graceful stops of whatever still runs) must not leak into the judged history
        snap = copy.deepcopy
        return {"t_end": t_end, "incs": incs, "toggles": snap(self.toggles), "pcalls": snap([{k: v for k, v in p.items() if not k.startswith("_")} for p in self.pcalls]),
                "ka": snap(self.ka), "touches": snap(self.touches), "calls": snap(self.calls), "cycles": snap(self.cycles), "marks": snap(self.marks),
                "peering_history": phist, "kex_history": khist, "requests": reqs, "guard_failures": snap(self.guard_failures), "writes": snap(self.writes), "refused": snap(self.refused),
                "fault_hits": snap(self.fault_hits), "slow_hits": snap(self.slow_hits), "peer_patches": snap(self.peer_patches)}


# =================================================================================================
@contextlib.contextmanager
def installed(sim: Sim13) -> Iterator[None]:
    from kopf._cogs.aiokits import aiotoggles
    from kopf._core.engines import peering
    from kopf._core.reactor import processing
    from ..sim import fakeapi

    # ---- toggles ------------------------------------------------------------------------------
    T, TS = aiotoggles.Toggle, aiotoggles.ToggleSet
    o_turn, o_make, o_drop, o_drops = T.turn_to, TS.make_toggle, TS.drop_toggle, TS.drop_toggles

    def set_info(s: Any) -> dict:
        info = sim.sets.get(id(s))
        if info is None:
            info = sim.sets[id(s)] = {"inc": sim.inc(), "fn": getattr(s._fn, "__name__", "?"), "ref": s}
        return info

    def log(kind: str, toggle: Any, state: Any, s: Any) -> None:
        si = set_info(s) if s is not None else None
        sim.toggles.append({"t": sim.now(), "inc": si["inc"] if si else sim.inc(), "set": si["fn"] if si else None,
                            "kind": kind, "name": toggle.name, "tid": id(toggle) % 100000, "state": state,
                            "set_on": s.is_on() if s is not None else None})

    async def turn_to(self: Any, state: bool) -> None:
        await o_turn(self, state)
        ent = sim.toggle_set.get(id(self))
        log("turn", self, bool(state), ent[1] if ent else None)
        rec = current.get(asyncio.current_task())
        if rec is not None and cfs.get(asyncio.current_task()) is self:
            rec["turned"].append(bool(state))

    async def make_toggle(self: Any, val: bool = False, *, name: str | None = None) -> Any:
        t = await o_make(self, val, name=name)
        sim.toggle_set[id(t)] = (t, self)
        log("make", t, bool(val), self)
        return t

    async def drop_toggle(self: Any, toggle: Any) -> None:
        await o_drop(self, toggle)
        log("drop", toggle, None, self)

    async def drop_toggles(self: Any, toggles: Any) -> None:
        toggles = list(toggles)
        await o_drops(self, toggles)
        for t in toggles:
            log("drop", t, None, self)

    # ---- one record per process_peering_event call -----------------------------------------------
    o_ppe, o_clean, o_touch, o_aiotime = peering.process_peering_event, peering.clean, peering.touch, peering.aiotime
    o_random, o_asyncio = peering.random, peering.asyncio
    current: dict[Any, dict] = {}      # task -> call record
    cfs: dict[Any, Any] = {}           # task -> the call's conflicts_found toggle

    import contextvars
    call_var: contextvars.ContextVar = contextvars.ContextVar("c13_call", default=None)

    def cur() -> dict | None:
        # the call the current task works for: its own, or - a task spawned inside a call (a shielded / detached request) inherits
        # the context - the call it was spawned in
        return current.get(asyncio.current_task()) or call_var.get()

    async def process_peering_event(**kw: Any) -> None:
        raw = kw["raw_event"]
        body = raw["object"]
        settings, cf = kw["settings"], kw.get("conflicts_found")
        rec = {"inc": sim.inc(), "me": str(kw["identity"]), "prio": settings.peering.priority, "name_ok": body["metadata"].get("name") == settings.peering.name,
               "t0": ticks(sim.now()), "rv": body["metadata"].get("resourceVersion"), "etype": raw.get("type"),
               "status": copy.deepcopy(body.get("status", {})), "toggle_before": None if cf is None else cf.is_on(),
               "autoclean": kw.get("autoclean", True), "cleaned": None, "now2": None, "delays": None, "unslept": "n/a",
               "touched": False, "error": None, "toggle_after": None, "turned": [], "slept": None, "finished": False}
        if sim.inc() not in sim.dead:
            sim.pcalls.append(rec)
        task = asyncio.current_task()
        current[task] = rec
        cfs[task] = cf
        tok = call_var.set(rec)
        try:
            await o_ppe(**kw)
            rec["finished"] = True
        except asyncio.CancelledError:
            rec["error"] = "cancelled"
            raise
        except BaseException as e:  # noqa: BLE001
            rec["error"] = type(e).__name__
            raise
        finally:
            current.pop(task, None)
            cfs.pop(task, None)
            call_var.reset(tok)
            rec["t1"] = ticks(sim.now())

    # NB: what a call cleans / whether it touches is read off the REQUESTS it issues (`note_patch` below, at the API client), not
    # off which helper of `peering` it went through: the code may inline or split `clean()` / `touch()` as it likes.
    async def clean(*a: Any, **kw: Any) -> Any:
        return await o_clean(*a, **kw)

    async def touch(*a: Any, **kw: Any) -> Any:
        return await o_touch(*a, **kw)

    def note_patch(payload: Any) -> bool:
        """A PATCH of OUR peering object is being issued by the current task: if that is inside a `process_peering_event`
        call, record what it asks for (the identities it removes = `cleaned`, in the order of the requests; the own record
        written = the self-touch). Returns whether it is a self-touch of a call."""
        rec = cur()
        st = payload.get("status") if isinstance(payload, dict) else None
        me = (sim.by_inc.get(sim.inc()) or {}).get("identity")
        if isinstance(st, dict) and me in st:
            # every write of an operator's own record: keep-alive, withdrawal (null), self-touch of a call
            sim.touches.append({"t": ticks(sim.now()), "inc": sim.inc(), "lifetime_arg": 0 if st[me] is None else None,
                                "in_call": rec is not None})
        if rec is None:
            return False
        if not isinstance(st, dict):
            rec.setdefault("odd_patches", []).append(copy.deepcopy(payload))
            return False
        if rec["now2"] is None:
            # before the verdict and the sleep: records are removed
            rec["cleaned"] = (rec["cleaned"] or []) + [str(k) for k in st]
            if any(v is not None for v in st.values()):
                rec.setdefault("odd_patches", []).append(copy.deepcopy(payload))
            return False
        rec["touched"] = True
        if list(st) != [rec["me"]]:
            rec.setdefault("odd_patches", []).append(copy.deepcopy(payload))
        return True

    async def a_sleep(delays: Any, wakeup: Any = None) -> Any:
        rec = cur()
        if rec is not None:
            ds = list(delays) if not isinstance(delays, (int, float)) and delays is not None else [delays]
            rec["now2"] = ticks(sim.now())
            rec["delays"] = [ticks(d) for d in ds]
            cf = cfs.get(asyncio.current_task())
            rec["toggle_after"] = None if cf is None else cf.is_on()   # right after the toggle section
        t_before = sim.now()
        out = await o_aiotime.sleep(delays, wakeup=wakeup)
        if rec is not None:
            rec["unslept"] = None if out is None else "interrupted"
            rec["slept"] = ticks(sim.now() - t_before)
            if out is None and rec["delays"] and rec["slept"] > 0:
                sim.on_wake(rec["inc"])     # the call slept to a blocker's deadline undisturbed; its self-touch is next
        return out

    selftouching: set = set()            # tasks inside the self-touch of a process_peering_event call
    last_randint: dict[Any, int] = {}
    jitter_rng: dict[int, random.Random] = {}
    jitter_idx: dict[Any, int] = {}

    def randint(a: int, b: int) -> int:
        # the keep-alive jitter of every incarnation comes from its OWN stream (seed, operator, n-th start): the process-wide
        # `random` is also drawn from by every API request (credentials.Vault picks a credential with random.choice), so the
        # leftover requests of a killed incarnation - whose number depends on the order in which asyncio's task SETS are
        # walked, i.e. on memory addresses - would otherwise shift the jitters of the running operators between two runs
        inc = sim.inc()
        info = sim.by_inc.get(inc) or {}
        rng = jitter_rng.get(inc)
        if rng is None:
            rng = jitter_rng[inc] = random.Random(f"{sim.sc.get('seed', 0)}/{info.get('name', inc)}/{info.get('nth', 0)}")
        v = rng.randint(a, b)
        # a scenario may pin the first jitters of an operator (`"jitters": {name: [..]}`, over all its incarnations in order):
        # corpus witnesses whose timing hangs on one keep-alive period stay what they are whatever the streams above become
        pins = (sim.sc.get("jitters") or {}).get(info.get("name"))
        if pins:
            k = jitter_idx.get(info.get("name"), 0)
            jitter_idx[info.get("name")] = k + 1
            if k < len(pins) and a <= int(pins[k]) <= b:
                v = int(pins[k])
        last_randint[asyncio.current_task()] = v
        return v

    async def ka_sleep(d: float, *a: Any, **k: Any) -> Any:
        task = asyncio.current_task()
        inc = sim.inc()
        info = sim.by_inc.get(inc)
        if inc not in sim.dead and task in last_randint:
            sim.ka.append({"inc": inc, "t": ticks(sim.now()), "lifetime": info["lifetime"] if info else None,
                           "jitter": last_randint.pop(task), "sleep": d})
        return await o_asyncio.sleep(d, *a, **k)

    # ---- handling cycles of the handled resource -----------------------------------------------------
    o_pre = processing.process_resource_event

    async def process_resource_event(**kw: Any) -> Any:
        raw = kw["raw_event"]
        res = kw.get("resource")
        if getattr(res, "plural", None) == "kopfexamples" and sim.inc() not in sim.dead:
            b = raw["object"]
            op_paused = kw.get("operator_paused")
            sim.cycles.append({"t0": sim.now(), "inc": sim.inc(), "etype": raw["type"], "name": b["metadata"].get("name"),
                               "uid": b["metadata"].get("uid"), "rv": b["metadata"].get("resourceVersion"),
                               "paused": None if op_paused is None else op_paused.is_on()})
        return await o_pre(**kw)

    # ---- failures of guarded (root / streaming) tasks ---------------------------------------------------
    from kopf._cogs.aiokits import aiotasks
    o_guard = aiotasks.guard

    async def guard(coro: Any, name: str, **kw: Any) -> None:
        async def observed() -> Any:
            try:
                return await coro
            except asyncio.CancelledError:
                raise
            except Exception as e:  # noqa: BLE001
                site = None
                tb = e.__traceback__
                while tb is not None:
                    fn = tb.tb_frame.f_code.co_filename
                    if "/kopf/" in fn:
                        site = f"{fn.split('/kopf/')[-1]}:{tb.tb_frame.f_code.co_name}"
                    tb = tb.tb_next
                if sim.inc() not in sim.dead:
                    sim.guard_failures.append({"t": sim.now(), "inc": sim.inc(), "task": name, "exc": type(e).__name__,
                                               "msg": str(e)[:200], "site": site})
                raise
        await o_guard(observed(), name, **kw)

    aiotasks.guard = guard  # type: ignore[assignment]

    # ---- per-operator extra API latency for peering PATCHes (environment) -----------------------------
    o_request = fakeapi.FakeSession.request
    extra = {k: float(v) for k, v in (sim.sc.get("patch_latency") or {}).items()}

    after = {k: float(v) for k, v in (sim.sc.get("response_latency") or {}).items()}
    # `selftouch_latency: {name: s}`: the self-touch PATCHes of that operator's process_peering_event calls reach the server
    # that much later (one slow request: "every delivery timing of ... keep-alives")
    slow_self = {k: float(v) for k, v in (sim.sc.get("selftouch_latency") or {}).items()}

    own_url = f"{sim.peer_path}/{sim.pname}"

    # `slow_requests: [{"who": name, "cls": "keepalive"|"selftouch"|"clean"|"withdraw", "nth": n, "count": k, "delay": s,
    #                   "then": ["stop"|"kill", dt]}]`: the n-th .. (n+k-1)-th peering PATCH of that class by that operator takes
    # `delay` seconds longer to reach the server than any other request (ONE slow request: "every delivery timing of ...
    # keep-alives" - requests of one client are applied in the order they ARRIVE, not in the order they were sent); a request
    # that its client cancels on the way never arrives. `then`: the operator is asked to stop (killed) `dt` seconds after the
    # slow request was sent - with dt < delay while it is in flight, with dt >= delay right after it has landed.
    slow_rules = [dict(r, _n=0) for r in (sim.sc.get("slow_requests") or [])]

    def slow_for(name: str, cls: str) -> float:
        d = 0.0
        for r in slow_rules:
            if r.get("who") != name or r.get("cls") != cls:
                continue
            r["_n"] += 1
            n0 = int(r.get("nth", 1))
            if not (n0 <= r["_n"] < n0 + int(r.get("count", 1))):
                continue
            d += float(r["delay"])
            hit = {"t": sim.now(), "inc": sim.inc(), "who": name, "cls": cls, "delay": float(r["delay"]), "in_call": cur() is not None,
                   "then": r.get("then")}
            sim.slow_hits.append(hit)
            then = r.get("then")
            if then and sim.inc() not in sim.dead:
                fn = sim.stop_op if then[0] == "stop" else sim.kill_op
                # (from a neutral context: the stopping task must not count as one of the operator's own tasks)
                asyncio.get_running_loop().call_later(float(then[1]), fn, name, context=sim._base_ctx)
        return d

    slow_next = {"d": 0.0}

    def slow_hook(req: dict) -> None:
        # (called synchronously inside FakeSession.request, right before it sleeps `cluster.latency`: the raised latency is read by
        #  that sleep in the same task step and restored before any other task runs)
        d = slow_next["d"]
        slow_next["d"] = 0.0
        if d:
            c = sim.cluster
            saved = c.latency
            c.latency = saved + d
            req["slow"] = d

            def restore() -> None:
                c.latency = saved
            asyncio.get_running_loop().call_soon(restore)

    if slow_rules:
        sim.cluster.before_request.append(slow_hook)

    pending_hits: dict[Any, list] = {}    # task -> the injected faults that hit its request in flight

    def on_fault(hit: dict) -> None:
        rec = cur()
        if rec is not None:
            rec["faulted"] = True          # an injected API fault inside this call: `deliver` cannot fail in the model
            hit["in_call"] = True
        pending_hits.setdefault(asyncio.current_task(), []).append(hit)

    sim._on_fault = on_fault

    def classify(url: str, payload: Any) -> str:
        """What a PATCH of the peering resource asks for, and where it comes from."""
        if not url.split("?")[0].endswith(own_url):
            return "other"
        st = payload.get("status") if isinstance(payload, dict) else None
        me = (sim.by_inc.get(sim.inc()) or {}).get("identity")
        if not isinstance(st, dict) or not st:
            return "other"
        if me in st:
            return "withdraw" if st[me] is None else ("selftouch" if cur() is not None else "keepalive")
        return "clean" if all(v is None for v in st.values()) else "other"

    async def o_request_as(cls: str | None, self: Any, method: str, url: str, *a: Any, **k: Any) -> Any:
        # (the fault rules are evaluated synchronously, before the request's first suspension: the class is theirs to read)
        sim._patch_class = cls
        coro = o_request(self, method, url, *a, **k)
        try:
            return await coro
        finally:
            for hit in pending_hits.pop(asyncio.current_task(), []):
                hit["t_done"] = sim.now()

    async def request(self: Any, method: str, url: str, *a: Any, **k: Any) -> Any:
        name = self.identity.split("#")[0].split("-r")[0]
        if method.upper() == "PATCH" and sim.peer_path in url:
            payload = k.get("json", a[0] if a else None)
            cls = classify(url, payload)
            is_selftouch = url.split("?")[0].endswith(own_url) and note_patch(payload)
            if is_selftouch:
                selftouching.add(asyncio.current_task())
            try:
                return await request_peering_patch(self, cls, name, method, url, *a, **k)
            finally:
                selftouching.discard(asyncio.current_task())
        return await o_request_as(None, self, method, url, *a, **k)

    async def request_peering_patch(self: Any, cls: str, name: str, method: str, url: str, *a: Any, **k: Any) -> Any:
        if True:
            if after.get(name) and not self.dead:
                # the server applies the PATCH at once, the RESPONSE takes the time: a client cancelled meanwhile has written
                c = self.cluster
                saved, c.latency = c.latency, 0
                try:
                    resp = await o_request_as(cls, self, method, url, *a, **k)
                finally:
                    c.latency = saved
                await asyncio.sleep(after[name])
                return resp
            d = extra.get(name, 0.0)
            if asyncio.current_task() in selftouching:
                d += slow_self.get(name, 0.0)
            if slow_rules:
                # SENT at once (the request is logged, a closed / dead session refuses it now), ARRIVES later: the fake API's
                # latency of this one request is longer (`slow_hook`); once sent, only its own client's cancellation takes it back
                slow_next["d"] = slow_for(name, cls)
            if d:
                await asyncio.sleep(d)
        # (the C13.kaflight tie: what is on the wire and whether its own client took it back - a cancellation of the awaiting
        #  task that reaches the request itself; a request wrapped in a shield is not cancelled with its awaiter)
        payload = k.get("json", a[0] if a else None)
        entry = {"t": sim.now(), "inc": sim.inc(), "who": self.identity, "cls": cls, "refused_dead": bool(self.dead or self.closed),
                 "status": copy.deepcopy(payload.get("status")) if isinstance(payload, dict) else None, "t_cancel": None}
        sim.peer_patches.append(entry)
        try:
            return await o_request_as(cls, self, method, url, *a, **k)
        except asyncio.CancelledError:
            entry["t_cancel"] = sim.now()
            raise

    fakeapi.FakeSession.request = request  # type: ignore[assignment]

    # ---- what a list of the handled resource really returned (same-instant writes make it unrecoverable later) ----
    o_serve = fakeapi.FakeSession._serve

    def _serve(self: Any, req: dict, method: str, path: str, query: dict, *a: Any, **k: Any) -> Any:
        pk = (sim.peer_res.key, sim.peer_ns, sim.pname)
        is_peer_patch = method == "PATCH" and path.endswith(own_url)
        before = copy.deepcopy((sim.cluster.objects.get(pk) or {}).get("status")) if is_peer_patch else None
        payload0 = a[0] if a else k.get("payload")
        rv_before = str((sim.cluster.objects.get(pk) or {}).get("metadata", {}).get("resourceVersion")) if is_peer_patch else None
        rv_sent = None
        if is_peer_patch and isinstance(payload0, dict) and isinstance(payload0.get("metadata"), dict):
            rv_sent = payload0["metadata"].get("resourceVersion")
        # (optimistic concurrency - a PATCH that names another resourceVersion is refused with 409 - is the fake API's own)
        resp = o_serve(self, req, method, path, query, *a, **k)
        if is_peer_patch and resp.status == 200:
            sim.writes.append({"t": sim.now(), "t_issue": req["t"], "who": self.identity,
                               "patch": copy.deepcopy((payload0 or {}).get("status")) if isinstance(payload0, dict) else None,
                               "rv_sent": None if rv_sent is None else str(rv_sent), "rv_before": rv_before,
                               "before": before, "after": copy.deepcopy((sim.cluster.objects.get(pk) or {}).get("status"))})
        elif is_peer_patch and resp.status == 409:
            # a conditional clean() that came too late: nothing applied
            sim.refused.append({"t": sim.now(), "t_issue": req["t"], "who": self.identity,
                                "patch": copy.deepcopy((payload0 or {}).get("status")) if isinstance(payload0, dict) else None,
                                "rv_sent": None if rv_sent is None else str(rv_sent), "rv_before": rv_before,
                                "before": before, "after": copy.deepcopy((sim.cluster.objects.get(pk) or {}).get("status"))})
        if method == "GET" and "/kopfexamples" in path and resp.watch is None and isinstance(resp.payload, dict) and "items" in resp.payload:
            req["listed"] = [[it["metadata"].get("name"), it["metadata"].get("resourceVersion")] for it in resp.payload["items"]]
        return resp

    fakeapi.FakeSession._serve = _serve  # type: ignore[assignment]

    # ---- watch close times -------------------------------------------------------------------------
    o_close = fakeapi.FakeResponse.close

    def close(self: Any) -> None:
        if not self.closed and self.watch is not None and getattr(self.watch, "closed_at", None) is None:
            self.watch.closed_at = sim.now()
        o_close(self)

    T.turn_to, TS.make_toggle, TS.drop_toggle, TS.drop_toggles = turn_to, make_toggle, drop_toggle, drop_toggles  # type: ignore
    peering.process_peering_event = process_peering_event  # type: ignore[assignment]
    peering.clean, peering.touch = clean, touch  # type: ignore[assignment]
    peering.aiotime = _Proxy(o_aiotime, sleep=a_sleep)  # type: ignore[assignment]
    peering.random = _Proxy(o_random, randint=randint)  # type: ignore[assignment]
    peering.asyncio = _Proxy(o_asyncio, sleep=ka_sleep)  # type: ignore[assignment]
    processing.process_resource_event = process_resource_event  # type: ignore[assignment]
    fakeapi.FakeResponse.close = close  # type: ignore[assignment]
    try:
        yield
    finally:
        T.turn_to, TS.make_toggle, TS.drop_toggle, TS.drop_toggles = o_turn, o_make, o_drop, o_drops  # type: ignore
        peering.process_peering_event = o_ppe  # type: ignore[assignment]
        peering.clean, peering.touch = o_clean, o_touch  # type: ignore[assignment]
        peering.aiotime, peering.random, peering.asyncio = o_aiotime, o_random, o_asyncio  # type: ignore[assignment]
        processing.process_resource_event = o_pre  # type: ignore[assignment]
        fakeapi.FakeResponse.close = o_close  # type: ignore[assignment]
        fakeapi.FakeSession.request = o_request  # type: ignore[assignment]
        fakeapi.FakeSession._serve = o_serve  # type: ignore[assignment]
        aiotasks.guard = o_guard  # type: ignore[assignment]
        sim._on_fault = None


def run_history(sc: dict, wall_limit: float = 60.0) -> dict:
    from ..sim import simloop
    for ev in sc.get("timeline", []):
        if not simloop.dyadic(ev[0]) or float(ev[0]) * TPS != int(float(ev[0]) * TPS):
            raise ValueError(f"non-dyadic time in the scenario: {ev}")
    holder: dict[str, Any] = {}

    async def main() -> dict:
        sim = Sim13(copy.deepcopy(sc))
        holder["sim"] = sim
        with installed(sim):
            return await sim.run()

    try:
        return simloop.run_sim(main, wall_limit=wall_limit)
    except (simloop.SimDeadlock, simloop.SimStall) as e:
        sim = holder.get("sim")
        tr = sim.trace(sim.now()) if sim is not None else {}
        tr["sim_error"] = f"{type(e).__name__}: {e}"
        return tr



# =================================================================================================
# Direct calls of the real `process_peering_event` / `keepalive` / `touch` (no operator around them)
ERR_ENUM = {"TypeError": "type-error", "ValueError": "value-error", "ParseError": "value-error",
            "AttributeError": "attribute-error", "KeyError": "key-error", "OverflowError": "overflow-error"}


DT_END_S = 251508844800       # 10000-01-01T00:00:00Z in seconds since the simulation epoch (the first instant after datetime.max)
DT_MIN_S = -64029052800       # 0001-01-01T00:00:00Z (datetime.min)


def _iso(t_ticks: int, fmt: str = "full") -> str:
    import datetime
    from ..sim import simloop
    dt = simloop.EPOCH + datetime.timedelta(microseconds=t_ticks * (1_000_000 // TPS))
    if fmt == "naive":
        return dt.replace(tzinfo=None).isoformat()
    if fmt == "z":
        return dt.replace(tzinfo=None).isoformat() + "Z"
    if fmt == "space":
        return dt.replace(tzinfo=None).isoformat(sep=" ") + "+00:00"
    if isinstance(fmt, str) and fmt.startswith("tz"):
        # the same instant written in a local time with a UTC offset of that many minutes ("tz120" = +02:00, "tz-330" = -05:30)
        return dt.astimezone(datetime.timezone(datetime.timedelta(minutes=int(fmt[2:])))).isoformat()
    return dt.isoformat()


def build_status(case: dict, now_ticks: int) -> Any:
    """Materialise a case's status at the moment of the call (`lastseen` is given relative to now)."""
    mode = case.get("status_mode", "dict")
    if mode == "missing":
        return "__missing__"
    if mode != "dict":
        return {"none": None, "list": [], "str": "oops", "int": 5}[mode]
    st: dict[str, Any] = {}
    for ident, rec in case["records"]:
        if isinstance(rec, dict):
            rec = dict(rec)
            ls = rec.pop("lastseen", "__absent__")
            ls_ticks = now_ticks
            if isinstance(ls, dict) and "age" in ls:
                ls_ticks = now_ticks - int(ls["age"])
                rec["lastseen"] = _iso(ls_ticks, ls.get("fmt", "full"))
            elif isinstance(ls, dict) and "raw" in ls:
                rec["lastseen"] = ls["raw"]
            lf = rec.get("lifetime")
            if isinstance(lf, dict) and list(lf) == ["to_max"]:
                # a lifetime whose deadline lies k seconds around the end / the beginning of `datetime`'s range
                rec["lifetime"] = DT_END_S - (-((-ls_ticks) // TPS)) + int(lf["to_max"])
            elif isinstance(lf, dict) and list(lf) == ["to_min"]:
                rec["lifetime"] = DT_MIN_S - (ls_ticks // TPS) + int(lf["to_min"])
        st[ident] = rec
    return st


def run_direct(batch: dict, wall_limit: float = 60.0) -> dict:
    from kopf._cogs.aiokits import aiotoggles
    from kopf._cogs.configs import configuration
    from kopf._cogs.structs import references
    from kopf._core.engines import peering
    from ..sim import simloop
    results: list[dict] = []

    async def main() -> None:
        loop = asyncio.get_running_loop()
        o_patching, o_aiotime = peering.patching, peering.aiotime
        state: dict[str, Any] = {}

        async def patch_obj(**kw: Any) -> Any:
            state["patches"].append({"t": ticks(loop.time()), "payload": json.loads(json.dumps(dict(kw["patch"]))),
                                     "name": kw.get("name"), "fns": len(getattr(kw["patch"], "fns", []) or []),
                                     "phase": "pre" if state["now2"] is None else "post"})
            await asyncio.sleep(state["latency"] / TPS)
            return {}, None

        async def a_sleep(delays: Any, wakeup: Any = None) -> Any:
            ds = list(delays) if not isinstance(delays, (int, float)) and delays is not None else [delays]
            state["now2"] = ticks(loop.time())
            state["delays"] = ds
            state["toggle_at_sleep"] = None if state["toggle"] is None else state["toggle"].is_on()
            t0 = loop.time()
            out = await o_aiotime.sleep(delays, wakeup=wakeup)
            state["slept"] = ticks(loop.time() - t0)
            state["unslept"] = out
            return out

        class RecToggle(aiotoggles.Toggle):
            async def turn_to(self, st: bool) -> None:  # type: ignore[override]
                state["turned"].append(bool(st))
                await super().turn_to(st)

        peering.patching = _Proxy(o_patching, patch_obj=patch_obj)  # type: ignore[assignment]
        peering.aiotime = _Proxy(o_aiotime, sleep=a_sleep)  # type: ignore[assignment]
        try:
            for case in batch["cases"]:
                await asyncio.sleep(case.get("gap", 1) / TPS)
                settings = configuration.OperatorSettings()
                settings.peering.name = "default"
                settings.peering.priority = case["prio"]
                settings.peering.lifetime = case.get("my_lifetime", 60)
                now = ticks(loop.time())
                status = build_status(case, now)
                # (a foreign peering object: `name` of the case, e.g. one that merely begins like ours)
                body: dict[str, Any] = {"metadata": {"name": "default" if case.get("name_ok", True) else case.get("name", "other")}}
                if case.get("rv") is not None:
                    body["metadata"]["resourceVersion"] = str(case["rv"])
                if status != "__missing__":
                    body["status"] = status
                toggle = None if case["toggle"] is None else RecToggle(bool(case["toggle"]))
                state.clear()
                state.update({"patches": [], "latency": case.get("latency", 1), "now2": None, "delays": None, "turned": [],
                              "toggle": toggle, "slept": 0, "unslept": "n/a", "toggle_at_sleep": None})
                pressure = asyncio.Event()
                waker = None
                if case.get("interrupt") is not None:
                    waker = loop.call_later(case["interrupt"] / TPS, pressure.set)
                err = None
                try:
                    await peering.process_peering_event(
                        raw_event={"type": "MODIFIED", "object": body}, namespace=None,
                        resource=references.Resource("kopf.dev", "v1", "clusterkopfpeerings", namespaced=False),
                        identity=peering.Identity(case["me"]), settings=settings, autoclean=case.get("autoclean", True),
                        stream_pressure=pressure, conflicts_found=toggle)
                except Exception as e:  # noqa: BLE001
                    err = ERR_ENUM.get(type(e).__name__, "other:" + type(e).__name__)
                if waker is not None:
                    waker.cancel()
                # what the call asked the API for, read off its PATCHes (not off which helper of `peering` issued them): those BEFORE
                # the sleep remove records (`cleaned`: removals only), the one AFTER an undisturbed sleep writes the own record
                cleaned: list[str] = []
                touch_payload = None
                n_clean = 0
                clean_ok = True
                clean_rv: list = []
                for p in state["patches"]:
                    stp = p["payload"].get("status")
                    if not isinstance(stp, dict) or p["name"] != "default" or p["fns"] or set(p["payload"]) - {"status", "metadata"}:
                        clean_ok = False
                    elif p["phase"] == "pre":
                        cleaned += list(stp.keys())
                        n_clean += 1
                        clean_ok = clean_ok and all(v is None for v in stp.values())
                        clean_rv.append((p["payload"].get("metadata") or {}).get("resourceVersion"))
                    else:
                        touch_payload = stp
                        clean_ok = clean_ok and list(stp.keys()) == [case["me"]]
                delays = state["delays"]
                offgrid = False
                dt: list[int] | None = None
                if delays is not None:
                    dt = []
                    for d in delays:
                        x = d * TPS
                        if abs(x - round(x)) > 1e-6:
                            offgrid = True
                        dt.append(int(round(x)))
                results.append({"now": now, "status": status, "abs_status": abstract_status(status) if status != "__missing__" else [],
                                "error": err, "cleaned": cleaned, "n_clean_calls": n_clean, "clean_ok": clean_ok, "clean_rv": clean_rv,
                                "turned": state["turned"], "n_patches_all": len(state["patches"]),
                                "paused": state["toggle_at_sleep"], "paused_end": None if toggle is None else toggle.is_on(),
                                "delays": dt, "now2": state["now2"] if state["now2"] is not None else now,
                                "reached_sleep": state["now2"] is not None, "slept": state["slept"],
                                "interrupted": state["unslept"] not in (None, "n/a"), "touched": touch_payload is not None,
                                "touch_payload": touch_payload, "offgrid": offgrid, "n_patches": len(state["patches"])})
        finally:
            peering.patching, peering.aiotime = o_patching, o_aiotime  # type: ignore[assignment]

    simloop.run_sim(main, wall_limit=wall_limit)
    return {"results": results}


def run_ka(batch: dict, wall_limit: float = 60.0) -> dict:
    """The real `keepalive` loop (one iteration, forced jitter) and the real `touch` (payload only)."""
    from kopf._cogs.configs import configuration
    from kopf._cogs.structs import references
    from kopf._core.engines import peering
    from ..sim import simloop
    out: dict[str, list] = {"ka": [], "touch": []}
    res = references.Resource("kopf.dev", "v1", "clusterkopfpeerings", namespaced=False)

    class _Stop(Exception):
        pass

    async def main() -> None:
        loop = asyncio.get_running_loop()
        o_touch, o_random, o_asyncio, o_patching = peering.touch, peering.random, peering.asyncio, peering.patching
        try:
            for lifetime, jitter, how in batch.get("ka", []):
                calls: list[Any] = []
                sleeps: list[Any] = []
                bounds: list[Any] = []

                async def touch(**kw: Any) -> None:
                    calls.append(kw.get("lifetime"))
                    if how == "cancel_in_first_touch" and len(calls) == 1:
                        raise asyncio.CancelledError()      # the stop arrives while the first PATCH is in flight

                def randint(a: int, b: int) -> int:
                    bounds.append([a, b])
                    return jitter

                async def sleep(d: float, *a: Any, **k: Any) -> None:
                    sleeps.append(d)
                    if how == "cancel":
                        raise asyncio.CancelledError()
                    raise _Stop()

                peering.touch = touch  # type: ignore[assignment]
                peering.random = _Proxy(o_random, randint=randint)  # type: ignore[assignment]
                peering.asyncio = _Proxy(o_asyncio, sleep=sleep)  # type: ignore[assignment]
                settings = configuration.OperatorSettings()
                settings.peering.lifetime = lifetime
                ended = None
                try:
                    await peering.keepalive(namespace=None, resource=res, identity=peering.Identity("me"), settings=settings)
                except _Stop:
                    ended = "stop"
                except asyncio.CancelledError:
                    ended = "cancelled"
                out["ka"].append({"lifetime": lifetime, "jitter": jitter, "how": how, "sleeps": sleeps, "touches": calls,
                                  "bounds": bounds, "ended": ended})
            peering.touch, peering.random, peering.asyncio = o_touch, o_random, o_asyncio  # type: ignore[assignment]
            payloads: list[Any] = []

            async def patch_obj(**kw: Any) -> Any:
                payloads.append(json.loads(json.dumps(dict(kw["patch"]))))
                return {}, None

            peering.patching = _Proxy(o_patching, patch_obj=patch_obj)  # type: ignore[assignment]
            for prio, lifetime, arg in batch.get("touch", []):
                await asyncio.sleep(1 / TPS)
                settings = configuration.OperatorSettings()
                settings.peering.lifetime = lifetime
                settings.peering.priority = prio
                payloads.clear()
                now = ticks(loop.time())
                err = None
                try:
                    await peering.touch(identity=peering.Identity("me"), settings=settings, resource=res, namespace=None, lifetime=arg)
                except Exception as e:  # noqa: BLE001
                    err = ERR_ENUM.get(type(e).__name__, "other:" + type(e).__name__)
                val: Any = "__none__"
                if payloads:
                    val = (payloads[0].get("status") or {}).get("me", "__nokey__")
                    if isinstance(val, dict) and "lastseen" in val:
                        val = dict(val)
                        val["lastseen"] = iso_ticks(val["lastseen"])
                out["touch"].append({"prio": prio, "lifetime": lifetime, "arg": arg, "now": now, "value": val, "error": err,
                                     "n": len(payloads)})
        finally:
            peering.touch, peering.random, peering.asyncio, peering.patching = o_touch, o_random, o_asyncio, o_patching  # type: ignore

    simloop.run_sim(main, wall_limit=wall_limit)
    return out

# =================================================================================================
def _run_item(item: dict, wall: float) -> dict:
    try:
        sc = item["sc"]
        kind = sc.get("kind", "history")
        if kind == "direct":
            return {"i": item["i"], "trace": run_direct(sc, wall_limit=wall)}
        if kind == "ka":
            return {"i": item["i"], "trace": run_ka(sc, wall_limit=wall)}
        if sc.get("_judge"):
            mode = sc["_judge"]
            sc = {k: v for k, v in sc.items() if k != "_judge"}
            tr = run_history(sc, wall_limit=wall)
            if tr.get("sim_error"):
                return {"i": item["i"], "trace": {"sim_error": tr["sim_error"]}}
            from . import c13
            try:
                return {"i": item["i"], "trace": c13.judge(sc, tr, full=(mode == "full"))}
            except Exception as e:  # noqa: BLE001
                import traceback
                return {"i": item["i"], "trace": {"judge_error": f"{type(e).__name__}: {e}\n{traceback.format_exc()[-2500:]}"}}
        return {"i": item["i"], "trace": run_history(sc, wall_limit=wall)}
    except Exception as e:  # noqa: BLE001
        import traceback
        return {"i": item["i"], "harness_error": f"{type(e).__name__}: {e}", "tb": traceback.format_exc()[-3000:]}


def worker_main() -> None:
    """One forked child per item: every scenario starts from the same process state (imports done, nothing run),
    so a replay in a fresh process sees exactly what the batch run saw; a stalled child is killed alone."""
    import logging
    import signal
    import warnings
    logging.disable(logging.CRITICAL)
    warnings.simplefilter("ignore")
    wall = float(sys.argv[1]) if len(sys.argv) > 1 else 30.0
    import kopf  # noqa: F401  (paid once, before forking)
    from ..sim import fakeapi, runner, simloop  # noqa: F401
    for line in sys.stdin:
        line = line.strip()
        if not line:
            continue
        item = json.loads(line)
        sys.stderr.write(f"@@BEGIN {item['i']}\n")
        sys.stderr.flush()
        r, w = os.pipe()
        pid = -1
        for attempt in range(5):
            try:
                pid = os.fork()
                break
            except OSError:
                import time
                time.sleep(0.5 * (attempt + 1))
        if pid < 0:                      # cannot fork right now: run it here (still one result line per item)
            os.close(r)
            os.close(w)
            sys.stdout.write(json.dumps(_run_item(item, wall), default=repr) + "\n")
            sys.stdout.flush()
            continue
        if pid == 0:
            code = 0
            try:
                os.close(r)
                try:
                    data = json.dumps(_run_item(item, wall), default=repr).encode()
                except BaseException as e:  # noqa: BLE001
                    data = json.dumps({"i": item["i"], "harness_error": f"child failed: {type(e).__name__}: {e}"}).encode()
                with os.fdopen(w, "wb") as f:
                    f.write(data)
            except BaseException:  # noqa: BLE001
                code = 3
            finally:
                os._exit(code)
        os.close(w)
        chunks = []

        def _alarm(*_a: Any) -> None:
            try:
                os.kill(pid, signal.SIGKILL)
            except ProcessLookupError:
                pass
        signal.signal(signal.SIGALRM, _alarm)
        signal.alarm(int(wall) + 30)
        with os.fdopen(r, "rb") as f:
            while True:
                b = f.read(1 << 16)
                if not b:
                    break
                chunks.append(b)
        signal.alarm(0)
        _pid, status = os.waitpid(pid, 0)
        data = b"".join(chunks)
        if data:
            sys.stdout.write(data.decode() + "\n")
        else:
            sys.stdout.write(json.dumps({"i": item["i"], "stall": True, "returncode": status,
                                         "stderr": "child produced no result (stall, crash or timeout)"}) + "\n")
        sys.stdout.flush()


def _run_batch(items: list[tuple[int, dict]], wall: float, results: dict[int, dict]) -> None:
    pending = list(items)
    env = dict(os.environ)
    env["PYTHONPATH"] = f"{ROOT}:{env.get('KOPF_REPO', '/repo')}"
    env["PYTHONHASHSEED"] = "0"
    while pending:
        payload = "".join(json.dumps({"i": i, "sc": sc}) + "\n" for i, sc in pending)
        try:
            p = subprocess.run(["timeout", "-s", "KILL", str(int(wall * (len(pending) + 2) + 120)),
                                sys.executable, "-m", "harness.props.sim_c13", str(wall)], input=payload,
                               capture_output=True, text=True, cwd=str(ROOT), env=env)
        except Exception as e:  # noqa: BLE001
            for i, _ in pending:
                results[i] = {"i": i, "harness_error": f"worker could not run: {e}"}
            return
        done = set()
        for line in p.stdout.splitlines():
            if line.startswith("{"):
                r = json.loads(line)
                results[r["i"]] = r
                done.add(r["i"])
        rest = [(i, sc) for i, sc in pending if i not in done]
        if not rest:
            return
        if p.returncode == 0 and len(rest) == len(pending):
            for i, _ in rest:
                results[i] = {"i": i, "harness_error": "worker produced no output", "tb": p.stderr[-2000:]}
            return
        i0, _sc0 = rest[0]
        k = p.stderr.rfind(f"@@BEGIN {i0}")
        tail = (p.stderr[k:] if k >= 0 else p.stderr)[-6000:]
        results[i0] = {"i": i0, "stall": True, "returncode": p.returncode, "stderr": tail}
        pending = rest[1:]


def run_many(scenarios: list[dict], wall: float = 30.0, jobs: int | None = None, batch: int = 8) -> list[dict]:
    jobs = jobs or int(os.environ.get("VERIF_JOBS", "0")) or min(16, os.cpu_count() or 4)
    items = list(enumerate(scenarios))
    batches = [items[k:k + batch] for k in range(0, len(items), batch)]
    results: dict[int, dict] = {}
    with ThreadPoolExecutor(max_workers=jobs) as ex:
        list(ex.map(lambda b: _run_batch(b, wall, results), batches))
    return [results.get(i, {"i": i, "harness_error": "missing"}) for i in range(len(scenarios))]


if __name__ == "__main__":
    worker_main()
