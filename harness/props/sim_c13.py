"""C13 — simulation half: several REAL `kopf.operator()`s on one fake cluster with a ClusterKopfPeering.

Nothing in /repo is edited. Observation is by attribute patching (restored afterwards):
 * `aiotoggles.Toggle.turn_to`, `ToggleSet.make_toggle/drop_toggle(s)` → every transition of every operator's
   `operator_paused` set (per incarnation, by contextvar);
 * `peering.process_peering_event` wrapped; inside one call `peering.clean`, `peering.touch`, the `aiotime.sleep`
   seen from `peering`, and the toggle are observed → one record per call (the (S) tie input/output);
 * `peering.random.randint` / `peering.asyncio.sleep` as seen from `peering.keepalive` → the keep-alive arithmetic;
 * `processing.process_resource_event` → one record per handling cycle of the handled resource;
 * scripted create/update handlers and a daemon per operator; the fake API's request log / watch objects.

Also the subprocess worker (`python -m harness.props.sim_c13 <wall>`) and the pool that drives it.
"""
from __future__ import annotations

import asyncio
import contextlib
import copy
import json
import os
import random
import subprocess
import sys
from concurrent.futures import ThreadPoolExecutor
from pathlib import Path
from typing import Any, Iterator

ROOT = Path(__file__).resolve().parent.parent.parent
TPS = 64                      # ticks per second (1 tick = 1/64 s)
NS = "ns"


def ticks(seconds: float) -> int:
    x = float(seconds) * TPS
    r = round(x)
    if abs(x - r) > 1e-6:
        raise ValueError(f"time {seconds!r} is not a multiple of 1/{TPS} s")
    return int(r)


class _Proxy:
    """A module look-alike: a few names overridden, everything else is the real module's."""

    def __init__(self, real: Any, **over: Any) -> None:
        self.__dict__["_real"] = real
        self.__dict__.update(over)

    def __getattr__(self, name: str) -> Any:
        return getattr(self.__dict__["_real"], name)


def iso_ticks(val: Any) -> Any:
    """Abstraction of a `lastseen` value: ticks since the simulation epoch, or 'bad' when iso8601 rejects it."""
    import iso8601
    from ..sim import simloop
    if val is None:
        return None
    try:
        dt = iso8601.parse_date(val)
    except Exception:  # noqa: BLE001
        return "bad"
    x = (dt - simloop.EPOCH).total_seconds() * TPS
    if abs(x - round(x)) > 1e-6:
        return "offgrid"
    return int(round(x))


def abstract_status(status: Any) -> Any:
    """The peering status as the model reads it: an ordered list of [identity, record]; in a record
    `lastseen` is replaced by ticks (the only abstraction), every other field is passed through verbatim."""
    if not isinstance(status, dict):
        return {"notdict": status if isinstance(status, (type(None), bool, int, str)) else type(status).__name__}
    out = []
    for k, v in status.items():
        if isinstance(v, dict):
            v = dict(v)
            if "lastseen" in v:
                v["lastseen"] = {"t": iso_ticks(v["lastseen"])}
        out.append([k, v])
    return out


# =================================================================================================
class Sim13:
    def __init__(self, sc: dict):
        from ..sim import fakeapi
        self.sc = sc
        self.rng = random.Random(sc.get("seed", 0))
        random.seed(sc.get("seed", 0))
        self.kex = fakeapi.KEX
        self.peer_res = fakeapi.CLUSTER_PEERING
        self.cluster = fakeapi.Cluster([fakeapi.NAMESPACES, fakeapi.CRDS, fakeapi.KEX, fakeapi.CLUSTER_PEERING])
        self.pname = sc.get("peering", "default")
        self.incs: list[dict] = []                 # incarnations
        self.by_inc: dict[int, dict] = {}
        self.live: dict[str, Any] = {}             # operator name -> runner.Operator (latest incarnation)
        self.toggles: list[dict] = []
        self.pcalls: list[dict] = []
        self.ka: list[dict] = []
        self.touches: list[dict] = []
        self.calls: list[dict] = []
        self.cycles: list[dict] = []
        self.marks: list[dict] = []
        self.toggle_set: dict[int, Any] = {}       # id(toggle) -> (toggle, set)
        self.sets: dict[int, dict] = {}            # id(set) -> {"inc":, "fn":}
        self.dead: set[int] = set()
        self.delivery = {k: float(v) for k, v in (sc.get("delivery") or {}).items()}
        self.cluster.echo_delay = self._echo_delay

    # ---- helpers --------------------------------------------------------------------------------
    def now(self) -> float:
        from ..sim import simloop
        return simloop.WALL.now_s()

    def inc(self) -> int:
        from ..sim import runner
        return runner._incarnation.get()

    def mark(self, what: str, **kw: Any) -> None:
        self.marks.append({"t": self.now(), "what": what, **kw})

    def _echo_delay(self, w: Any, etype: str, body: dict) -> float:
        if w.res.key != self.peer_res.key:
            return 0.0
        name = w.session.identity.split("#")[0]
        return self.delivery.get(name, 0.0)

    # ---- handlers -------------------------------------------------------------------------------
    def build_registry(self, name: str) -> Any:
        import kopf
        reg = kopf.OperatorRegistry()
        sim = self

        def rec_of(kind: str, hid: str, kwargs: dict) -> dict | None:
            n = sim.inc()
            if n in sim.dead:
                return None
            body = kwargs.get("body") or {}
            meta = body.get("metadata", {})
            r = {"t": sim.now(), "inc": n, "op": name, "id": hid, "kind": kind, "uid": meta.get("uid"),
                 "name": meta.get("name"), "rv": meta.get("resourceVersion"), "x": (body.get("spec") or {}).get("x"),
                 "retry": kwargs.get("retry")}
            if kwargs.get("diff") is not None:
                r["diff"] = json.loads(json.dumps(list(kwargs["diff"]), default=repr))
            sim.calls.append(r)
            return r

        hdelay = float(self.sc.get("handler_delay", 0.0))

        @kopf.on.create("kopfexamples", id="c", registry=reg)
        async def c(**kwargs: Any) -> None:
            r = rec_of("create", "c", kwargs)
            if r is None:
                raise asyncio.CancelledError()
            if hdelay:
                await asyncio.sleep(hdelay)
            r["t_end"] = sim.now()

        @kopf.on.update("kopfexamples", id="u", registry=reg)
        async def u(**kwargs: Any) -> None:
            r = rec_of("update", "u", kwargs)
            if r is None:
                raise asyncio.CancelledError()
            if hdelay:
                await asyncio.sleep(hdelay)
            r["t_end"] = sim.now()

        if self.sc.get("daemon", True):
            @kopf.daemon("kopfexamples", id="d", registry=reg, cancellation_timeout=1.0)
            async def d(stopped: Any, **kwargs: Any) -> None:
                r = rec_of("daemon", "d", kwargs)
                if r is None:
                    raise asyncio.CancelledError()
                try:
                    while not stopped:
                        await stopped.wait(0.5)
                    r["stop_reason"] = repr(getattr(stopped, "reason", None))
                finally:
                    r["t_end"] = sim.now()
                    r["muted_end"] = sim.inc() in sim.dead
        return reg

    # ---- operator lifecycle ---------------------------------------------------------------------
    async def start_op(self, name: str) -> None:
        from ..sim import runner
        spec = self.sc["ops"][name]
        old = self.live.get(name)
        if old is not None and old.alive and not old.killed:
            return
        over = {"peering.lifetime": int(spec.get("lifetime", 60))}
        over.update(self.sc.get("settings", {}))
        settings = runner.default_settings(**over)
        ident = spec.get("identity", name)
        op = runner.Operator(self.cluster, self.build_registry(name), settings, identity=ident,
                             priority=int(spec.get("priority", 0)), peering_name=self.pname, standalone=False)
        self.live[name] = op
        info = {"name": name, "identity": ident, "inc": op.n, "who": op.session.identity, "priority": int(spec.get("priority", 0)),
                "lifetime": int(spec.get("lifetime", 60)), "t_start": self.now(), "t_stop_req": None, "t_stopped": None,
                "t_killed": None, "result": None}
        self.incs.append(info)
        self.by_inc[op.n] = info
        await op.start()
        self.mark("start", op=name, inc=op.n)

    def stop_op(self, name: str) -> None:
        op = self.live.get(name)
        if op is None or not op.alive or op.killed:
            return
        info = self.by_inc[op.n]
        if info["t_stop_req"] is not None:
            return
        info["t_stop_req"] = self.now()
        self.mark("stop", op=name, inc=op.n)

        async def _stop() -> None:
            r = await op.stop()
            info["t_stopped"] = self.now()
            info["result"] = repr(r)
        info["_task"] = asyncio.get_running_loop().create_task(_stop())

    def kill_op(self, name: str) -> None:
        op = self.live.get(name)
        if op is None or not op.alive or op.killed:
            return
        info = self.by_inc[op.n]
        if info["t_stop_req"] is not None:
            return      # a stopping operator is left to finish
        self.dead.add(op.n)
        op.kill()
        info["t_killed"] = self.now()
        self.mark("kill", op=name, inc=op.n)

    def apply(self, kind: str, args: list) -> None:
        c, kex = self.cluster, self.kex
        if kind == "create":
            if c.get(kex, NS, args[0]) is None:
                c.create_raw(kex, NS, args[0], args[1] if len(args) > 1 else {"spec": {"x": 0}})
        elif kind == "edit":
            c.edit(kex, NS, args[0], args[1])
        elif kind == "ghost":       # a foreign actor writes into the peering status (merge-patch of `status`)
            c.edit(self.peer_res, None, self.pname, {"status": args[0]})
        elif kind == "ghost_rel":   # the same, `lastseen` given relative to now: {"id": {"age": s, ...}}
            st = {}
            for k, v in args[0].items():
                if isinstance(v, dict) and "age" in v:
                    v = dict(v)
                    age = v.pop("age")
                    from ..sim import simloop
                    import datetime
                    v["lastseen"] = (simloop.WALL.now(tz=datetime.timezone.utc) - datetime.timedelta(seconds=age)).isoformat()
                st[k] = v
            c.edit(self.peer_res, None, self.pname, {"status": st})
        else:
            raise ValueError(f"unknown op {kind}")
        self.mark("op", op=[kind, *args])

    async def sleep_until(self, t: float) -> None:
        d = t - self.now()
        if d > 0:
            await asyncio.sleep(d)

    async def run(self) -> dict:
        sc = self.sc
        body: dict[str, Any] = {}
        if sc.get("pre_status") is not None:
            body["status"] = copy.deepcopy(sc["pre_status"])
        if not sc.get("no_peering_object"):
            self.cluster.create_raw(self.peer_res, None, self.pname, body)
        for o in sc.get("objects", []):
            self.cluster.create_raw(self.kex, NS, o["name"], o.get("body", {"spec": {"x": 0}}))
        for ev in sorted(sc.get("timeline", []), key=lambda e: e[0]):
            t, kind, args = ev[0], ev[1], list(ev[2:])
            await self.sleep_until(t)
            if kind == "start":
                await self.start_op(args[0])
            elif kind == "stop":
                self.stop_op(args[0])
            elif kind == "kill":
                self.kill_op(args[0])
            else:
                self.apply(kind, args)
        await self.sleep_until(float(sc.get("end", 60.0)))
        self.mark("end")
        t_end = self.now()
        snapshot = self.trace(t_end)
        # wind down: graceful stop of whatever still runs (not part of the judged history)
        for name, op in self.live.items():
            if op.alive and not op.killed and self.by_inc[op.n]["t_stop_req"] is None:
                self.by_inc[op.n]["t_stop_req_final"] = self.now()
                try:
                    await op.stop(timeout=120.0)
                except BaseException:  # noqa: BLE001
                    pass
        for info in self.incs:
            t = info.get("_task")
            if t is not None and not t.done():
                try:
                    await asyncio.wait_for(t, 120.0)
                except BaseException:  # noqa: BLE001
                    pass
        return snapshot

    # ---- the trace ------------------------------------------------------------------------------
    def trace(self, t_end: float) -> dict:
        c = self.cluster
        pk = (self.peer_res.key, None, self.pname)
        phist = [{"t": h["t"], "rv": h["body"]["metadata"]["resourceVersion"], "event": h["event"],
                  "status": copy.deepcopy(h["body"].get("status"))} for h in c.history.get(pk, [])]
        khist = {}
        for k, v in c.history.items():
            if k[0] == self.kex.key:
                khist[k[2]] = [{"t": h["t"], "rv": h["body"]["metadata"]["resourceVersion"], "event": h["event"],
                                "uid": h["body"]["metadata"].get("uid"), "x": (h["body"].get("spec") or {}).get("x")} for h in v]
        reqs = []
        for r in c.requests:
            is_kex = "/kopfexamples" in r["path"]
            is_peer = "/clusterkopfpeerings" in r["path"]
            if not (is_kex or is_peer):
                continue
            rr = {"t": r["t"], "who": r["who"], "method": r["method"], "path": r["path"], "watch": bool(r["query"].get("watch")),
                  "res": "kex" if is_kex else "peering", "response": r.get("response") if isinstance(r.get("response"), (int, str)) else None}
            if r["method"] == "PATCH" and is_peer:
                rr["payload"] = r.get("payload")
            w = r.get("watch")
            if w is not None:
                rr["closed_at"] = getattr(w, "closed_at", None)
                rr["still_open"] = not w.closed
                rr["delivered"] = [[d[0], d[1], d[2], d[3]] for d in w.delivered]
            reqs.append(rr)
        incs = [{k: v for k, v in i.items() if not k.startswith("_")} for i in self.incs]
        return {"t_end": t_end, "incs": incs, "toggles": self.toggles, "pcalls": self.pcalls, "ka": self.ka,
                "touches": self.touches, "calls": self.calls, "cycles": self.cycles, "marks": self.marks,
                "peering_history": phist, "kex_history": khist, "requests": reqs}


# =================================================================================================
@contextlib.contextmanager
def installed(sim: Sim13) -> Iterator[None]:
    from kopf._cogs.aiokits import aiotoggles
    from kopf._core.engines import peering
    from kopf._core.reactor import processing
    from ..sim import fakeapi

    # ---- toggles ------------------------------------------------------------------------------
    T, TS = aiotoggles.Toggle, aiotoggles.ToggleSet
    o_turn, o_make, o_drop, o_drops = T.turn_to, TS.make_toggle, TS.drop_toggle, TS.drop_toggles

    def set_info(s: Any) -> dict:
        info = sim.sets.get(id(s))
        if info is None:
            info = sim.sets[id(s)] = {"inc": sim.inc(), "fn": getattr(s._fn, "__name__", "?"), "ref": s}
        return info

    def log(kind: str, toggle: Any, state: Any, s: Any) -> None:
        si = set_info(s) if s is not None else None
        sim.toggles.append({"t": sim.now(), "inc": si["inc"] if si else sim.inc(), "set": si["fn"] if si else None,
                            "kind": kind, "name": toggle.name, "tid": id(toggle) % 100000, "state": state,
                            "set_on": s.is_on() if s is not None else None})

    async def turn_to(self: Any, state: bool) -> None:
        await o_turn(self, state)
        ent = sim.toggle_set.get(id(self))
        log("turn", self, bool(state), ent[1] if ent else None)

    async def make_toggle(self: Any, val: bool = False, *, name: str | None = None) -> Any:
        t = await o_make(self, val, name=name)
        sim.toggle_set[id(t)] = (t, self)
        log("make", t, bool(val), self)
        return t

    async def drop_toggle(self: Any, toggle: Any) -> None:
        await o_drop(self, toggle)
        log("drop", toggle, None, self)

    async def drop_toggles(self: Any, toggles: Any) -> None:
        toggles = list(toggles)
        await o_drops(self, toggles)
        for t in toggles:
            log("drop", t, None, self)

    # ---- one record per process_peering_event call -----------------------------------------------
    o_ppe, o_clean, o_touch, o_aiotime = peering.process_peering_event, peering.clean, peering.touch, peering.aiotime
    o_random, o_asyncio = peering.random, peering.asyncio
    current: dict[Any, dict] = {}      # task -> call record

    def cur() -> dict | None:
        return current.get(asyncio.current_task())

    async def process_peering_event(**kw: Any) -> None:
        raw = kw["raw_event"]
        body = raw["object"]
        settings, cf = kw["settings"], kw.get("conflicts_found")
        rec = {"inc": sim.inc(), "me": str(kw["identity"]), "prio": settings.peering.priority, "name_ok": body["metadata"].get("name") == settings.peering.name,
               "t0": ticks(sim.now()), "rv": body["metadata"].get("resourceVersion"), "etype": raw.get("type"),
               "status": copy.deepcopy(body.get("status", {})), "toggle_before": None if cf is None else cf.is_on(),
               "autoclean": kw.get("autoclean", True), "cleaned": None, "now2": None, "delays": None, "unslept": "n/a",
               "touched": False, "error": None, "toggle_after": None, "t_toggle": None, "finished": False}
        if sim.inc() not in sim.dead:
            sim.pcalls.append(rec)
        task = asyncio.current_task()
        current[task] = rec
        try:
            await o_ppe(**kw)
            rec["finished"] = True
        except asyncio.CancelledError:
            rec["error"] = "cancelled"
            raise
        except BaseException as e:  # noqa: BLE001
            rec["error"] = type(e).__name__
            raise
        finally:
            current.pop(task, None)
            rec["t1"] = ticks(sim.now())
            if rec["toggle_after"] is None and cf is not None:
                rec["toggle_after"] = cf.is_on()

    async def clean(**kw: Any) -> None:
        rec = cur()
        if rec is not None:
            rec["cleaned"] = [str(p.identity) for p in kw["peers"]]
        await o_clean(**kw)

    async def touch(**kw: Any) -> None:
        rec = cur()
        if rec is not None:
            rec["touched"] = True
        sim.touches.append({"t": ticks(sim.now()), "inc": sim.inc(), "lifetime_arg": kw.get("lifetime"),
                            "in_call": rec is not None})
        await o_touch(**kw)

    async def a_sleep(delays: Any, wakeup: Any = None) -> Any:
        rec = cur()
        if rec is not None:
            ds = list(delays) if not isinstance(delays, (int, float)) and delays is not None else [delays]
            rec["now2"] = ticks(sim.now())
            rec["delays"] = [ticks(d) for d in ds]
            cf_state = rec.get("_cf")
        out = await o_aiotime.sleep(delays, wakeup=wakeup)
        if rec is not None:
            rec["unslept"] = None if out is None else "interrupted"
        return out

    # the toggle state right when the sleep starts = after the toggle section of this call
    async def a_sleep_with_toggle(delays: Any, wakeup: Any = None) -> Any:
        return await a_sleep(delays, wakeup)

    last_randint: dict[Any, int] = {}

    def randint(a: int, b: int) -> int:
        v = o_random.randint(a, b)
        last_randint[asyncio.current_task()] = v
        return v

    async def ka_sleep(d: float, *a: Any, **k: Any) -> Any:
        task = asyncio.current_task()
        inc = sim.inc()
        info = sim.by_inc.get(inc)
        if inc not in sim.dead and task in last_randint:
            sim.ka.append({"inc": inc, "t": ticks(sim.now()), "lifetime": info["lifetime"] if info else None,
                           "jitter": last_randint.pop(task), "sleep": d})
        return await o_asyncio.sleep(d, *a, **k)

    # ---- handling cycles of the handled resource -----------------------------------------------------
    o_pre = processing.process_resource_event

    async def process_resource_event(**kw: Any) -> Any:
        raw = kw["raw_event"]
        res = kw.get("resource")
        if getattr(res, "plural", None) == "kopfexamples" and sim.inc() not in sim.dead:
            b = raw["object"]
            op_paused = kw.get("operator_paused")
            sim.cycles.append({"t0": sim.now(), "inc": sim.inc(), "etype": raw["type"], "name": b["metadata"].get("name"),
                               "uid": b["metadata"].get("uid"), "rv": b["metadata"].get("resourceVersion"),
                               "paused": None if op_paused is None else op_paused.is_on()})
        return await o_pre(**kw)

    # ---- watch close times -------------------------------------------------------------------------
    o_close = fakeapi.FakeResponse.close

    def close(self: Any) -> None:
        if not self.closed and self.watch is not None and getattr(self.watch, "closed_at", None) is None:
            self.watch.closed_at = sim.now()
        o_close(self)

    T.turn_to, TS.make_toggle, TS.drop_toggle, TS.drop_toggles = turn_to, make_toggle, drop_toggle, drop_toggles  # type: ignore
    peering.process_peering_event = process_peering_event  # type: ignore[assignment]
    peering.clean, peering.touch = clean, touch  # type: ignore[assignment]
    peering.aiotime = _Proxy(o_aiotime, sleep=a_sleep)  # type: ignore[assignment]
    peering.random = _Proxy(o_random, randint=randint)  # type: ignore[assignment]
    peering.asyncio = _Proxy(o_asyncio, sleep=ka_sleep)  # type: ignore[assignment]
    processing.process_resource_event = process_resource_event  # type: ignore[assignment]
    fakeapi.FakeResponse.close = close  # type: ignore[assignment]
    try:
        yield
    finally:
        T.turn_to, TS.make_toggle, TS.drop_toggle, TS.drop_toggles = o_turn, o_make, o_drop, o_drops  # type: ignore
        peering.process_peering_event = o_ppe  # type: ignore[assignment]
        peering.clean, peering.touch = o_clean, o_touch  # type: ignore[assignment]
        peering.aiotime, peering.random, peering.asyncio = o_aiotime, o_random, o_asyncio  # type: ignore[assignment]
        processing.process_resource_event = o_pre  # type: ignore[assignment]
        fakeapi.FakeResponse.close = o_close  # type: ignore[assignment]


def run_history(sc: dict, wall_limit: float = 60.0) -> dict:
    from ..sim import simloop
    for ev in sc.get("timeline", []):
        if not simloop.dyadic(ev[0]) or float(ev[0]) * TPS != int(float(ev[0]) * TPS):
            raise ValueError(f"non-dyadic time in the scenario: {ev}")
    holder: dict[str, Any] = {}

    async def main() -> dict:
        sim = Sim13(copy.deepcopy(sc))
        holder["sim"] = sim
        with installed(sim):
            return await sim.run()

    try:
        return simloop.run_sim(main, wall_limit=wall_limit)
    except (simloop.SimDeadlock, simloop.SimStall) as e:
        sim = holder.get("sim")
        tr = sim.trace(sim.now()) if sim is not None else {}
        tr["sim_error"] = f"{type(e).__name__}: {e}"
        return tr


# =================================================================================================
def worker_main() -> None:
    import logging
    logging.disable(logging.CRITICAL)
    wall = float(sys.argv[1]) if len(sys.argv) > 1 else 30.0
    for line in sys.stdin:
        line = line.strip()
        if not line:
            continue
        item = json.loads(line)
        sys.stderr.write(f"@@BEGIN {item['i']}\n")
        sys.stderr.flush()
        try:
            out = {"i": item["i"], "trace": run_history(item["sc"], wall_limit=wall)}
        except Exception as e:  # noqa: BLE001
            import traceback
            out = {"i": item["i"], "harness_error": f"{type(e).__name__}: {e}", "tb": traceback.format_exc()[-3000:]}
        sys.stdout.write(json.dumps(out, default=repr) + "\n")
        sys.stdout.flush()


def _run_batch(items: list[tuple[int, dict]], wall: float, results: dict[int, dict]) -> None:
    pending = list(items)
    env = dict(os.environ)
    env["PYTHONPATH"] = f"{ROOT}:{env.get('KOPF_REPO', '/repo')}"
    env["PYTHONHASHSEED"] = "0"
    while pending:
        payload = "".join(json.dumps({"i": i, "sc": sc}) + "\n" for i, sc in pending)
        try:
            p = subprocess.run(["timeout", "-s", "KILL", str(int(wall * (len(pending) + 2) + 120)),
                                sys.executable, "-m", "harness.props.sim_c13", str(wall)], input=payload,
                               capture_output=True, text=True, cwd=str(ROOT), env=env)
        except Exception as e:  # noqa: BLE001
            for i, _ in pending:
                results[i] = {"i": i, "harness_error": f"worker could not run: {e}"}
            return
        done = set()
        for line in p.stdout.splitlines():
            if line.startswith("{"):
                r = json.loads(line)
                results[r["i"]] = r
                done.add(r["i"])
        rest = [(i, sc) for i, sc in pending if i not in done]
        if not rest:
            return
        if p.returncode == 0 and len(rest) == len(pending):
            for i, _ in rest:
                results[i] = {"i": i, "harness_error": "worker produced no output", "tb": p.stderr[-2000:]}
            return
        i0, _sc0 = rest[0]
        tail = p.stderr[p.stderr.rfind(f"@@BEGIN {i0}"):][-6000:]
        results[i0] = {"i": i0, "stall": True, "returncode": p.returncode, "stderr": tail}
        pending = rest[1:]


def run_many(scenarios: list[dict], wall: float = 30.0, jobs: int | None = None, batch: int = 8) -> list[dict]:
    jobs = jobs or int(os.environ.get("VERIF_JOBS", "0")) or min(16, os.cpu_count() or 4)
    items = list(enumerate(scenarios))
    batches = [items[k:k + batch] for k in range(0, len(items), batch)]
    results: dict[int, dict] = {}
    with ThreadPoolExecutor(max_workers=jobs) as ex:
        list(ex.map(lambda b: _run_batch(b, wall, results), batches))
    return [results.get(i, {"i": i, "harness_error": "missing"}) for i in range(len(scenarios))]


if __name__ == "__main__":
    worker_main()
