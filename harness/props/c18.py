"""C18 — admission responses faithfully reflect handler outcomes and requested mutations.

Tie: (T) the error-priority key of `admission.build_response`, the gate of
`WebhooksRegistry.iter_handlers` and `_matches_subresource` are re-extracted from the AST on every run
and proved equal to the model (Kopf/Tie/C18.lean); (D) generated cases go through the real
`Patch._apply_patch` / `Patch.as_json_patch`, `admission.build_response` and
`admission.serve_admission_request`, and through the Lean model (`C18.apply`, `C18.response`,
`C18.gate`, `C18.merge`).

Oracle (independent of Lean): own RFC 6901/6902 applier and RFC 7386 merge in this file; the JSON patch
of the response applied to the reviewed object must equal merge(handlers' patch content) followed by
the transformation functions, up to the presence of empty mappings; allowed/status/warnings are
recomputed from the log of what the handlers did; handler selection from the property's criteria.
"""
from __future__ import annotations

import ast
import asyncio
import collections.abc
import base64
import copy
import functools
import json
import logging
import os
import random
import re
import urllib.parse
import warnings as pywarnings
from typing import Any

from .. import leanio, pyextract
from ..core import Ctx, ExtractError, load_corpus

ID = "C18"
LEVEL = "proof"
STRENGTH = "partial"   # clauses (1) returned JSON patch, (2) transformations rest on hypotheses: see LEVEL_TEXT
ENGINES = ["lean-model", "pyextract", "purediff"]
LEVEL_TEXT = (
    "PARTIAL. Unguarded Lean theorems (no size/depth bounds): allowed_iff, status_iff_denied, error_priority (minimal "
    "sort key, first among equals), prio_strict_order, warnings_order, patch_field_spec; selection: gate_spec (the full "
    "clause incl. the operation, code after cc4195a), select_spec, stacked_registration_selected (dedup only AFTER "
    "matching), gate_enforces_operations, restricted_handler_skipped, hinted_only_that_handler; mutation for ALL "
    "mapping bodies and ALL patches (code after 74dc18a): apply_total, fidelity (leaves of the mutated body = leaves "
    "of the RFC 7386 merge at every path; dropEmpty_leafEq relates that to the drop-empty normal form, converse not "
    "proved), apply_nonmapping_root_raises (the one guard is needed); whole review (code after 2903555: one outcome "
    "per selected handler, key (index, id)): serve_allowed_iff (allowed iff no function with a matching registration "
    "raised — unguarded, also for two different functions under one id, the repaired C18-F6), serve_errors_complete "
    "(the status is chosen among ALL selected handlers' errors), serve_warnings_order; the review request: "
    "review_is_about_the_object (whenever the review carries `object`, handlers, filters and the patch reference are "
    "about THAT object, for every `oldObject`), review_without_object (DELETE: `oldObject`; neither: refused before any "
    "handler), review_patch_fidelity (the fidelity clause with the patch applied to `request.object`, for every "
    "oldObject; same hypotheses as returned_patch_fidelity); changes between Python-equal values of another JSON type "
    "(1 -> true, false -> 0): diff_always_consulted (whenever something is requested, the operations ARE from_diff's: no "
    "comparison of the two bodies decides beforehand), type_change_reflected (at every path the patched object holds the "
    "very value requested, hence differs from the reviewed one where that differs; hypotheses of returned_patch_fidelity), "
    "eq_shortcut_witness / eq_shortcut_fn_witness (the rejected variant `if body_to_be == body_as_is: return []` with "
    "Python's == drops such a change, through the merge content and through a user's function). Clauses proved only under a "
    "hypothesis: (1) 'the "
    "returned JSON patch applied to the object': returned_patch_fidelity takes, as a hypothesis, that jsonpatch's "
    "output for THIS review reproduces the wanted body (pointwise contract) — checked on every generated case by an "
    "independent RFC 6902 applier; jsonpatch 1.33 fails it on the inputs of the open findings C18-F4/C18-F5. (2) "
    "'transformations applied': fidelity_fns for the two framework functions (block_deletion/allow_deletion) and for user "
    "functions that edit fields in place as an RFC 7386 content says (Fn.mergeWith), whenever "
    "code path and reference path both return; the model lets them raise on EVERY non-list finalizers / non-mapping "
    "metadata (the real functions are also silent on a few falsy or key-free ill-typed values): such bodies are outside "
    "the model and are not generated. Oracle/tie only: base64/JSON encoding of the patch, pointer escaping, uid echo, "
    "failure paths of serve_admission_request before the handlers run.")
TIE = ("T (sort key of build_response, class hierarchy of AdmissionError, iter_handlers gate, _matches_subresource and "
       "its use in match(), rules[].operations of build_webhooks: AST -> Lean, re-proved equal; the ways out of "
       "Patch.as_json_patch anchored (the falsy-patch shortcut and ONE result from ONE from_diff call: a further early "
       "return has no counterpart in the model); the allowed/errors/"
       "status/warnings/patch statements of build_response, Patch.__bool__ and the falsy-patch shortcut of "
       "as_json_patch, the handler id in clientConfig anchored verbatim) + D (real Patch._apply_patch + fns; "
       "Patch.as_json_patch through an independent RFC 6902 applier; build_response incl. patch/patchType; the whole "
       "serve_admission_request, from the request payload on (object / oldObject, also different ones), vs the model's "
       "`serveReview` with the real from_diff output as the diff parameter; handlers registered through kopf.on.validate/"
       "mutate (incl. the deprecated `operation=`, operations as list/tuple/set/frozenset, field-suffixed ids) as well as "
       "hand-built; build_webhooks rule operations; every handler's configured URL decoded back to its id, and reviews "
       "POSTed over loopback HTTP to kopf.WebhookServer at those URLs; Lean mergePatch vs the Python RFC 7386 reference).")
THEOREMS = [
    ("Kopf.Props.C18", "Kopf.C18.allowed_iff"),
    ("Kopf.Props.C18", "Kopf.C18.status_iff_denied"),
    ("Kopf.Props.C18", "Kopf.C18.error_priority"),
    ("Kopf.Props.C18", "Kopf.C18.prio_strict_order"),
    ("Kopf.Props.C18", "Kopf.C18.warnings_order"),
    ("Kopf.Props.C18", "Kopf.C18.patch_field_spec"),
    ("Kopf.Props.C18", "Kopf.C18.gate_spec"),
    ("Kopf.Props.C18", "Kopf.C18.select_spec"),
    ("Kopf.Props.C18", "Kopf.C18.stacked_registration_selected"),
    ("Kopf.Props.C18", "Kopf.C18.gate_enforces_operations"),
    ("Kopf.Props.C18", "Kopf.C18.restricted_handler_skipped"),
    ("Kopf.Props.C18", "Kopf.C18.hinted_only_that_handler"),
    ("Kopf.Props.C18", "Kopf.C18.apply_total"),
    ("Kopf.Props.C18", "Kopf.C18.fidelity"),
    ("Kopf.Props.C18", "Kopf.C18.fidelity_fns"),
    ("Kopf.Props.C18", "Kopf.C18.returned_patch_fidelity"),
    ("Kopf.Props.C18", "Kopf.C18.review_is_about_the_object"),
    ("Kopf.Props.C18", "Kopf.C18.review_without_object"),
    ("Kopf.Props.C18", "Kopf.C18.review_patch_fidelity"),
    ("Kopf.Props.C18", "Kopf.C18.serve_allowed_iff"),
    ("Kopf.Props.C18", "Kopf.C18.serve_errors_complete"),
    ("Kopf.Props.C18", "Kopf.C18.serve_warnings_order"),
    ("Kopf.Props.C18", "Kopf.C18.apply_nonmapping_root_raises"),
    ("Kopf.Props.C18", "Kopf.C18.dropEmpty_leafEq"),
    ("Kopf.Props.C18", "Kopf.C18.diff_always_consulted"),
    ("Kopf.Props.C18", "Kopf.C18.type_change_reflected"),
    ("Kopf.Props.C18", "Kopf.C18.eq_shortcut_witness"),
    ("Kopf.Props.C18", "Kopf.C18.eq_shortcut_fn_witness"),
]
TIE_THEOREMS = [
    ("Kopf.Tie.C18", "Kopf.C18.Tie.key_eq"),
    ("Kopf.Tie.C18", "Kopf.C18.Tie.admission_is_permanent"),
    ("Kopf.Tie.C18", "Kopf.C18.Tie.gate_eq"),
    ("Kopf.Tie.C18", "Kopf.C18.Tie.subresource_eq"),
    ("Kopf.Tie.C18", "Kopf.C18.Tie.match_has_subresource"),
    ("Kopf.Tie.C18", "Kopf.C18.Tie.managed_rule_ops_eq"),
]
RULE = ("three seeded streams: (patch) k8s-shaped and random bodies, patch derived key-by-key from the body "
        "(skip/delete/overwrite/type change scalar<->mapping/list/nested merge/empty mapping/leafless mapping/"
        "no-op set, plus new keys; key alphabet with '/', '~', '', unicode), fns from {block_deletion, "
        "allow_deletion}; a tenth of the patch cases and 15 % of the serve cases are QUIET: the whole effective change of "
        "the review is minimal — 1-3 overwrites between Python-equal values of another JSON type (true/1/1.0, false/0/0.0/"
        "-0.0, n/n.0; any depth, never inside lists), or one falsy value set, or one delete, or nothing — mixed with writes "
        "that change nothing (same value again, delete of an absent key, {} over a mapping, a framework function without "
        "effect), delivered through the merge content, through user transformation functions (in-place field edits), or "
        "both, by one or two handlers; (serve) registry of 1-4 webhook handlers (reason, operations, subresource incl. '*', "
        "filters, patch piece, fns, warnings, raised error class/code/message; in a third of the cases one function is "
        "registered 2-3 times under the same id with other reason/operations/subresource/filters, in a quarter two "
        "different functions share one id; declared through kopf's decorators or hand-built, operations as list/tuple/"
        "set/frozenset/deprecated `operation=`, ids with '/', '%', '?', '#', space, unicode and field suffixes; the "
        "requested changes as a script of writes through patch[...] / patch.spec / patch.status / patch.meta.labels / "
        "patch.metadata.annotations, several handlers under one stanza, nested mappings optionally as non-dict "
        "Mappings) x request (operation incl. DELETE/CONNECT/None, subresource, webhook and reason hints, the webhook "
        "hint optionally decoded from the URL of the managed configuration, UPDATE reviews whose oldObject differs from "
        "object — preferably by already having what the handlers ask for, and in the selecting label —, null vs absent "
        "object/oldObject, v1 and v1beta1 reviews); (e2e) 3-7 handlers with special ids served by kopf.WebhookServer over "
        "loopback HTTP, one review per configured URL plus one to an unknown id; (response) real build_response over outcome lists "
        "of length 0-6 with and without a JSON patch (incl. patch on denial); every serve case is also pushed as a whole "
        "through the model's `serve`, and its handlers through build_webhooks. A case is distinct/non-trivial by its (stream, feature tags, result class) abstraction.")
TRUSTED = [
    "pyextract atom vocabulary for build_response's sort key, WebhooksRegistry.iter_handlers, _matches_subresource",
    "jsonpatch.from_diff by its contract apply(a, from_diff(a, b)) == b (checked on every case through the "
    "independent RFC 6902 applier; two classes of deviations are open findings: C18-F4, C18-F5)",
    "the RFC 6901/6902/7386 reference implementations inside harness/props/c18.py (the Lean mergePatch is "
    "differential-tested against the Python one on every patch case)",
]
ASSUMPTIONS = [
    "reviewed objects have `metadata` a mapping and `metadata.finalizers` a list of strings (the apiserver enforces "
    "that schema on every object it sends for review; a handler's own merge-patch could break it, and the apiserver "
    "would then reject the returned patch): on other shapes the real block_deletion/allow_deletion raise in most cases "
    "and are silent in a few (falsy `{}`/`\"\"`, mappings/strings not containing the finalizer), the model raises in "
    "all of them, and the generator drops the transformation functions (fns_safe) — no comparison there",
    "webhook handlers carry errors/timeout/retries/backoff = None, as the public decorators hard-code them "
    "(a hand-built WebhookHandler with errors=IGNORED would swallow an arbitrary exception, timeout=0 would deny "
    "without running the function): not modelled, not generated",
    "filter callbacks (`when=`, callable label/annotation/value filters) do not raise: an exception there escapes "
    "serve_admission_request before any response exists, like the pre-handler failures",
    "returned_patch_fidelity assumes jsonpatch's contract as a hypothesis; it is checked on every generated case through "
    "an independent RFC 6902 applier, and is known to fail on the inputs of C18-F4 / C18-F5",
    "a handler's requested changes are its declared script of writes on the `patch` kwarg (items, kopf's spec/status/"
    "metadata views) and the functions it queues; the requested content is those writes in execution order (independent "
    "reference, not read back from the patch object); the model accounts per handler for the warnings it appends and the "
    "exception it raises",
    "a webhook server hands over, as the webhook id, the percent-decoded rest of the URL path after its base path (true of "
    "kopf.WebhookServer on aiohttp: checked end to end over loopback HTTP in every run where sockets are available — "
    "counted as e2e:* / server-unavailable in the histograms)",
    "the error's message/code are taken from the handler's DECLARATION (class, message text, code given to AdmissionError), "
    "`str(e) or repr(e)` being Python's for an exception built from one message argument",
    "serve_admission_request's failures before any handler runs (MissingDataError, Unknown/AmbiguousResourceError) and "
    "the conditions under which block_deletion/allow_deletion raise are not property clauses: oracle/tie only",
    "a review without an operation (malformed) matches every handler, as in the code; '*' among the declared operations "
    "admits every operation",
    "JSON numbers are integers in the Lean model; floats (whole ones: 1.0, 0.0, -0.0, n.0) are generated in the quiet "
    "cases only, as plain values of mappings, and those cases go through the real code and the oracle only (histogram "
    "tie-skipped: float:*)",
    "the other filters of match() (selector, labels, annotations, fields, when) are C15's subject: an opaque boolean here",
    "registries with ONE function registered several times under its id (stacked decorators) and with TWO different "
    "functions under one id are both modelled (dedup key (fn, id); one outcome per selected handler) and generated",
    "transformation functions are the two the framework queues itself (finalizers.block_deletion/allow_deletion) and user "
    "functions of one shape: in-place edits of fields (set / overwrite / delete / nested) scripted as an RFC 7386 content; "
    "functions that read other state, raise, or replace lists element-wise are not generated",
]

SIG_F4 = {"site": "Patch._apply_patch", "shape": "mapping patched over non-mapping target raises TypeError"}
SIG_EMPTY = {"site": "Patch._apply_patch", "shape": "leafless mapping patched over non-mapping target is ignored"}
SIG_LISTBOOL = {"site": "jsonpatch.from_diff", "shape": "bool vs equal int not distinguished (list elements, move detection)"}
SIG_MOVE = {"site": "jsonpatch.from_diff", "shape": "move optimisation with list indices yields a wrong or inapplicable patch"}
SIG_SAMEID = {"site": "execution.execute_handlers_once",
              "shape": "outcomes keyed by handler id: the outcome of one same-id handler overwrites another's"}
SIG_TYPECHANGE = {"site": "Patch.as_json_patch",
                  "shape": "requested change between Python-equal values of different JSON type is not reflected"}
SIG_OPS = {"site": "WebhooksRegistry.iter_handlers", "shape": "handler.operations not compared with the request operation"}

# =================================================================================================
# (T) translator
# =================================================================================================
KEY_VOCAB = {
    "isinstance(error, AdmissionError)": "a.isAdmission",
    "isinstance(error, execution.PermanentError)": "a.isPermanent",
    "isinstance(error, execution.TemporaryError)": "a.isTemporary",
}
GATE_VOCAB = {
    "cause.reason is None": "(c.reason == none)",
    "cause.reason == handler.reason": "(c.reason == some h.reason)",
    "cause.webhook is None": "(c.webhook == none)",
    "cause.webhook == handler.id": "(c.webhook == some h.id)",
    "handler.operations": "opsTruthy h",
    "cause.operation is None": "(c.operation == none)",
    "'*' in handler.operations": "opsContains h \"*\"",
    "cause.operation in handler.operations": "opInOps h c",
    "handler.reason != causes.WebhookType.MUTATING": "(h.reason != WebhookType.mutating)",
    "cause.operation != 'DELETE'": "(c.operation != some \"DELETE\")",
    "set(handler.operations or []) == {'DELETE'}": "explicitlyForDeletion h",
    "match(handler=handler, cause=cause)": "m",
}
SUB_VOCAB = {
    "handler.subresource == '*'": "(h.subresource == some \"*\")",
    "handler.subresource == cause.subresource": "(h.subresource == c.subresource)",
}
RESPONSE_ANCHORS = [
    "allowed = all((outcome.exception is None for id, outcome in outcomes.items()))",
    "errors = [outcome.exception for outcome in outcomes.values() if outcome.exception is not None]",
]
STATUS_ANCHOR = ("if errors:\n    response['response']['status'] = reviews.ResponseStatus("
                 "message=str(errors[0]) or repr(errors[0]), "
                 "code=(errors[0].code if isinstance(errors[0], AdmissionError) else None) or 500)")
WARNINGS_ANCHOR = "if warnings:\n    response['response']['warnings'] = [str(warning) for warning in warnings]"
PATCH_ANCHOR = ("if jsonpatch:\n    encoded_patch: str = base64.b64encode(json.dumps(jsonpatch).encode('utf-8')).decode('ascii')\n"
                "    response['response']['patch'] = encoded_patch\n    response['response']['patchType'] = 'JSONPatch'")
FALSY_PATCH_ANCHORS = {"Patch.__bool__": "return len(self) > 0 or bool(self.fns)",
                       "Patch.as_json_patch": "if not self:\n    return []"}
CLIENT_CONFIG_ANCHOR = "_inject_handler_id(client_config, handler.id)"
SERVE_ANCHORS = ["handlers_ = registry._webhooks.get_handlers(cause)",
                 "outcomes: dict[Any, execution.Outcome] = {}"]
SERVE_LOOP_HEAD = "for index, handler in enumerate(handlers_):"
SERVE_LOOP_LAST = "outcomes.update({(index, id): outcome for id, outcome in handler_outcomes.items()})"


def _int_chain(e: ast.expr, tr: pyextract.BoolTranslator) -> str:
    if isinstance(e, ast.IfExp):
        if not (isinstance(e.body, ast.Constant) and type(e.body.value) is int and e.body.value >= 0):
            raise ExtractError(f"sort key branch is not a natural-number literal: `{pyextract.norm(e.body)}`")
        return f"if {tr.tr(e.test)} then {e.body.value} else {_int_chain(e.orelse, tr)}"
    if isinstance(e, ast.Constant) and type(e.value) is int and e.value >= 0:
        return str(e.value)
    raise ExtractError(f"sort key is not a chain of conditional expressions over int literals: `{pyextract.norm(e)[:100]}`")


def _nest_gate(stmts: list[ast.stmt], tr: pyextract.BoolTranslator) -> str:
    """nested `if c: (assignments;) if c2: ... yield handler` → conjunction of the conditions."""
    conds: list[str] = []
    cur = stmts
    while True:
        rest = []
        for st in cur:
            if isinstance(st, ast.Assign) and len(st.targets) == 1 and isinstance(st.targets[0], ast.Name):
                tr.locals[st.targets[0].id] = st.value
            else:
                rest.append(st)
        if len(rest) != 1:
            raise ExtractError("iter_handlers: expected exactly one statement besides local assignments per level")
        st = rest[0]
        if isinstance(st, ast.If):
            if st.orelse:
                raise ExtractError("iter_handlers: unexpected else-branch in the gate")
            conds.append(tr.tr(st.test))
            cur = st.body
            continue
        if pyextract.norm(st) == "yield handler":
            return "(" + " && ".join(conds) + ")" if conds else "true"
        raise ExtractError(f"iter_handlers: statement outside the accepted shapes: `{pyextract.norm(st)[:100]}`")


def extract(ctx: Ctx) -> None:
    atree = pyextract.parse_file(ctx.repo / "kopf/_core/engines/admission.py")
    br = pyextract.find_def(atree, "build_response")
    # -- the sort key
    sorts = [n for n in ast.walk(br) if isinstance(n, ast.Call) and pyextract.norm(n.func) == "errors.sort"]
    if len(sorts) != 1:
        raise ExtractError("build_response: expected exactly one errors.sort(...) call")
    call = sorts[0]
    kws = {k.arg: k.value for k in call.keywords}
    if call.args or set(kws) != {"key"} or not isinstance(kws["key"], ast.Lambda):
        raise ExtractError(f"build_response: errors.sort called with unexpected arguments: `{pyextract.norm(call)[:120]}`")
    lam = kws["key"]
    if [a.arg for a in lam.args.args] != ["error"]:
        raise ExtractError("build_response: sort key lambda has unexpected parameters")
    key_body = _int_chain(lam.body, pyextract.BoolTranslator(KEY_VOCAB))
    # -- anchors of the rest of build_response (verbatim shapes; a change is a broken correspondence)
    texts = [pyextract.norm(st) for st in pyextract.body_without_docstring(br)]
    for anchor in RESPONSE_ANCHORS + [STATUS_ANCHOR, WARNINGS_ANCHOR, PATCH_ANCHOR]:
        if anchor not in texts:
            raise ExtractError(f"build_response: statement changed or missing: `{anchor[:90]}…`")
    if texts.index(RESPONSE_ANCHORS[1]) > texts.index(pyextract.norm(ast.Expr(call))) or \
            texts.index(pyextract.norm(ast.Expr(call))) > texts.index(STATUS_ANCHOR):
        raise ExtractError("build_response: errors / sort / status statements are out of order")
    # -- class hierarchy of AdmissionError
    cls = pyextract.find_def(atree, "AdmissionError")
    bases = [pyextract.norm(b).split(".")[-1] for b in cls.bases]  # type: ignore[union-attr]
    # -- the gate
    rtree = pyextract.parse_file(ctx.repo / "kopf/_core/intents/registries.py")
    it = pyextract.find_def(rtree, "WebhooksRegistry.iter_handlers")
    body = pyextract.body_without_docstring(it)
    if len(body) != 1 or not isinstance(body[0], ast.For) or pyextract.norm(body[0].iter) != "self._handlers" \
            or pyextract.norm(body[0].target) != "handler" or body[0].orelse:
        raise ExtractError("WebhooksRegistry.iter_handlers is no longer a single loop over self._handlers")
    inner = body[0].body
    if len(inner) != 1 or not isinstance(inner[0], ast.If) or pyextract.norm(inner[0].test) != "handler.id not in excluded" \
            or inner[0].orelse:
        raise ExtractError("iter_handlers: expected the `handler.id not in excluded` guard")
    gate_body = _nest_gate(inner[0].body, pyextract.BoolTranslator(GATE_VOCAB))
    # -- _matches_subresource and its use in match()
    ms = pyextract.find_def(rtree, "_matches_subresource")
    stmts = pyextract.body_without_docstring(ms)
    guards = ["if not isinstance(handler, handlers.WebhookHandler):\n    return True",
              "if not isinstance(cause, causes.WebhookCause):\n    return True"]
    if [pyextract.norm(s) for s in stmts[:-1]] != guards or not isinstance(stmts[-1], ast.Return) or stmts[-1].value is None:
        raise ExtractError("_matches_subresource: unexpected shape")
    sub_body = pyextract.BoolTranslator(SUB_VOCAB).tr(stmts[-1].value)
    mt = pyextract.find_def(rtree, "match")
    rets = [s for s in pyextract.body_without_docstring(mt) if isinstance(s, ast.Return)]
    if len(rets) != 1 or not isinstance(rets[0].value, ast.BoolOp) or not isinstance(rets[0].value.op, ast.And):
        raise ExtractError("registries.match is no longer one conjunction")
    conj = [pyextract.norm(v) for v in rets[0].value.values]
    if "_matches_subresource(handler, cause)" not in conj:
        raise ExtractError("registries.match no longer includes _matches_subresource(handler, cause)")
    # -- serve_admission_request: one execution and one outcome per selected handler (key (index, id))
    sv = pyextract.find_def(atree, "serve_admission_request")
    sv_stmts = pyextract.body_without_docstring(sv)   # type: ignore[arg-type]
    sv_texts = [pyextract.norm(st) for st in sv_stmts]
    for anchor in SERVE_ANCHORS:
        if anchor not in sv_texts:
            raise ExtractError(f"serve_admission_request: statement changed or missing: `{anchor}`")
    loops = [st for st in sv_stmts if isinstance(st, ast.For) and pyextract.norm(st).startswith(SERVE_LOOP_HEAD)]
    if len(loops) != 1 or loops[0].orelse or pyextract.norm(loops[0].body[-1]) != SERVE_LOOP_LAST \
            or "handlers=[handler]" not in pyextract.norm(loops[0]):
        raise ExtractError("serve_admission_request: the selected handlers are no longer executed one by one with "
                           "their outcomes kept under (index, id)")
    # -- the falsy-patch shortcut of as_json_patch
    ptree = pyextract.parse_file(ctx.repo / "kopf/_cogs/structs/patches.py")
    for qual, anchor in FALSY_PATCH_ANCHORS.items():
        fn = pyextract.find_def(ptree, qual)
        if anchor not in [pyextract.norm(st) for st in pyextract.body_without_docstring(fn)]:  # type: ignore[arg-type]
            raise ExtractError(f"{qual}: statement changed or missing: `{anchor}`")
    # -- the ways out of as_json_patch: the model's `asJsonPatch` has the falsy-patch shortcut, the failures and ONE
    # result, the diff of (body as is, body to be); any further exit (an early `return` that decides "nothing to
    # report" by some comparison of its own) has no counterpart in the model
    ajp = pyextract.find_def(ptree, "Patch.as_json_patch")
    ajp_body = pyextract.body_without_docstring(ajp)   # type: ignore[arg-type]
    rets = [n for n in ast.walk(ajp) if isinstance(n, ast.Return)]
    diffs = [n for n in ast.walk(ajp) if isinstance(n, ast.Call) and pyextract.norm(n.func).endswith("from_diff")]
    if len(rets) != 2 or len(diffs) != 1 or not ajp_body or not isinstance(ajp_body[-1], ast.Return):
        raise ExtractError(f"Patch.as_json_patch: expected the falsy-patch shortcut and one final result from one "
                           f"from_diff call; found {len(rets)} return statement(s), {len(diffs)} from_diff call(s)")
    # -- the managed webhook configuration: rules[].operations and the id in the client config
    bw = pyextract.find_def(atree, "build_webhooks")
    ops_exprs = [v for n in ast.walk(bw) if isinstance(n, ast.Dict)
                 for k, v in zip(n.keys, n.values) if isinstance(k, ast.Constant) and k.value == "operations"]
    cc_exprs = [v for n in ast.walk(bw) if isinstance(n, ast.Dict)
                for k, v in zip(n.keys, n.values) if isinstance(k, ast.Constant) and k.value == "clientConfig"]
    if len(ops_exprs) != 1 or len(cc_exprs) != 1 or pyextract.norm(cc_exprs[0]) != CLIENT_CONFIG_ANCHOR:
        raise ExtractError("build_webhooks: expected one 'operations' rule entry and the handler id injected into clientConfig")
    e = ops_exprs[0]
    if not (isinstance(e, ast.Call) and pyextract.norm(e.func) == "list" and len(e.args) == 1 and isinstance(e.args[0], ast.BoolOp)
            and isinstance(e.args[0].op, ast.Or) and len(e.args[0].values) == 2
            and pyextract.norm(e.args[0].values[0]) == "handler.operations"):
        raise ExtractError(f"build_webhooks: rule operations are no longer `list(handler.operations or [...])`: `{pyextract.norm(e)}`")
    default_ops = pyextract.literal(e.args[0].values[1])
    if not (isinstance(default_ops, list) and all(isinstance(x, str) for x in default_ops)):
        raise ExtractError("build_webhooks: the default rule operations are not a list of strings")
    out = pyextract.HEADER.format(src="kopf/_core/engines/admission.py, kopf/_core/intents/registries.py, kopf/_cogs/structs/patches.py")
    out += "import Kopf.Model.C18_Admission\nnamespace Kopf.C18.Extracted\nopen Kopf.C18\n\n"
    out += "/-- the `isinstance` facts the sort key reads -/\nstructure Cls where\n  isAdmission : Bool\n  isPermanent : Bool\n  isTemporary : Bool\n\n"
    out += f"def key (a : Cls) : Nat :=\n  {key_body}\n\n"
    out += f"def admissionBases : List String := [{', '.join(pyextract.lean_str(b) for b in bases)}]\n\n"
    out += f"/-- `m` = `match(handler=handler, cause=cause)` -/\ndef gate (h : Handler) (c : Cause) (m : Bool) : Bool :=\n  {gate_body}\n\n"
    out += f"def matchesSubresource (h : Handler) (c : Cause) : Bool :=\n  {sub_body}\n\n"
    out += f"def matchConjuncts : List String := [{', '.join(pyextract.lean_str(c) for c in conj)}]\n\n"
    dflt = "[" + ", ".join(pyextract.lean_str(x) for x in default_ops) + "]"
    out += ("/-- `list(handler.operations or DEFAULT)`: a falsy collection (None or empty) gives the default -/\n"
            f"def managedRuleOps (h : Handler) : List String :=\n  match h.operations with\n  | none => {dflt}\n"
            f"  | some [] => {dflt}\n  | some ops => ops\n\n")
    out += "end Kopf.C18.Extracted\n"
    leanio.write_generated("Kopf/Extracted/C18.lean", out)


# =================================================================================================
# independent references: RFC 6901 pointers, RFC 6902 patch, RFC 7386 merge, "up to empty mappings"
# =================================================================================================
class RefError(Exception):
    pass


def ptr_parse(p: str) -> list[str]:
    if p == "":
        return []
    if not p.startswith("/"):
        raise RefError(f"bad pointer {p!r}")
    return [t.replace("~1", "/").replace("~0", "~") for t in p[1:].split("/")]


def _walk(doc: Any, toks: list[str]) -> Any:
    for t in toks:
        if isinstance(doc, dict):
            if t not in doc:
                raise RefError(f"pointer key {t!r} absent")
            doc = doc[t]
        elif isinstance(doc, list):
            i = _index(t, len(doc), False)
            doc = doc[i]
        else:
            raise RefError("pointer descends into a scalar")
    return doc


def _index(t: str, n: int, allow_end: bool) -> int:
    if t == "-" and allow_end:
        return n
    if not t.isascii() or not t.isdigit() or (len(t) > 1 and t[0] == "0"):
        raise RefError(f"bad array index {t!r}")
    i = int(t)
    if i > n or (i == n and not allow_end):
        raise RefError("array index out of range")
    return i


def _add(root: Any, toks: list[str], value: Any) -> Any:
    if not toks:
        return value
    parent = _walk(root, toks[:-1])
    t = toks[-1]
    if isinstance(parent, dict):
        parent[t] = value
    elif isinstance(parent, list):
        parent.insert(_index(t, len(parent), True), value)
    else:
        raise RefError("add into a scalar")
    return root


def _remove(root: Any, toks: list[str]) -> tuple[Any, Any]:
    if not toks:
        raise RefError("remove of the root")
    parent = _walk(root, toks[:-1])
    t = toks[-1]
    if isinstance(parent, dict):
        if t not in parent:
            raise RefError(f"remove of absent key {t!r}")
        return root, parent.pop(t)
    if isinstance(parent, list):
        return root, parent.pop(_index(t, len(parent), False))
    raise RefError("remove from a scalar")


def apply6902(doc: Any, ops: list[dict]) -> Any:
    doc = copy.deepcopy(doc)
    for op in ops:
        kind = op.get("op")
        toks = ptr_parse(op["path"])
        if kind == "add":
            doc = _add(doc, toks, copy.deepcopy(op["value"]))
        elif kind == "remove":
            doc, _ = _remove(doc, toks)
        elif kind == "replace":
            _walk(doc, toks)  # must exist
            if not toks:
                doc = copy.deepcopy(op["value"])
            else:
                doc, _ = _remove(doc, toks)
                doc = _add(doc, toks, copy.deepcopy(op["value"]))
        elif kind == "move":
            src = ptr_parse(op["from"])
            doc, v = _remove(doc, src)
            doc = _add(doc, toks, v)
        elif kind == "copy":
            v = copy.deepcopy(_walk(doc, ptr_parse(op["from"])))
            doc = _add(doc, toks, v)
        elif kind == "test":
            if not eq_strict(_walk(doc, toks), op["value"]):
                raise RefError("test failed")
        else:
            raise RefError(f"unknown op {kind!r}")
    return doc


def merge7386(target: Any, patch: Any) -> Any:
    if not isinstance(patch, dict):
        return copy.deepcopy(patch)
    result = dict(target) if isinstance(target, dict) else {}
    for k, v in patch.items():
        if v is None:
            result.pop(k, None)
        else:
            result[k] = merge7386(result.get(k), v)
    return result


def strip_empty(x: Any) -> Any:
    """normal form 'up to the presence of empty mappings' (lists are opaque leaves)."""
    if not isinstance(x, dict):
        return x
    out = {}
    for k, v in x.items():
        s = strip_empty(v)
        if isinstance(s, dict) and not s:
            continue
        out[k] = s
    return out


def eq_strict(a: Any, b: Any) -> bool:
    return leanio.canon(a) == leanio.canon(b)


def eq_loose_lists(a: Any, b: Any) -> bool:
    """strict on mappings and scalars, Python `==` inside lists (what jsonpatch's list diff uses)."""
    if isinstance(a, dict) and isinstance(b, dict):
        return a.keys() == b.keys() and all(eq_loose_lists(a[k], b[k]) for k in a)
    if isinstance(a, list) and isinstance(b, list):
        return a == b
    return eq_strict(a, b)


def has_leaf(p: Any) -> bool:
    return not isinstance(p, dict) or any(has_leaf(v) for v in p.values())


def nonmapping_hits(body: Any, patch: dict) -> set[str]:
    """which patch mappings sit over a present non-mapping target: 'leafful' / 'leafless'."""
    hits: set[str] = set()
    for k, v in patch.items():
        if isinstance(v, dict) and isinstance(body, dict) and k in body:
            t = body[k]
            if isinstance(t, dict):
                hits |= nonmapping_hits(t, v)
            else:
                hits.add("leafful" if has_leaf(v) else "leafless")
    return hits


def prune_leafless(body: Any, patch: dict) -> dict:
    out = {}
    for k, v in patch.items():
        if isinstance(v, dict) and isinstance(body, dict) and k in body:
            t = body[k]
            if isinstance(t, dict):
                out[k] = prune_leafless(t, v)
            elif has_leaf(v):
                out[k] = v
        else:
            out[k] = v
    return out


# =================================================================================================
# kopf environment
# =================================================================================================
_ENV: dict[str, Any] | None = None


def kopf_env() -> dict[str, Any]:
    global _ENV
    if _ENV is None:
        import kopf
        from kopf._cogs.configs import configuration
        from kopf._cogs.structs import finalizers, ids, patches, references
        from kopf._core.actions import execution
        from kopf._core.engines import admission, indexing
        from kopf._core.intents import causes, handlers, registries
        from kopf._core.reactor import inventory
        logging.disable(logging.CRITICAL)
        _ENV = dict(locals())
    return _ENV


FNS = {"add": "block_deletion", "remove": "allow_deletion"}


def _edit_in_place(d: dict, q: dict) -> None:
    for k, v in q.items():
        if v is None:
            d.pop(k, None)
        elif isinstance(v, dict):
            if not isinstance(d.get(k), dict):
                d[k] = {}
            _edit_in_place(d[k], v)
        else:
            d[k] = copy.deepcopy(v)


def user_fn(q: dict) -> Any:
    """a USER's transformation function (`patch.fns.append(fn)`): edits fields of the body in place — sets,
    overwrites, deletes, nested — as its script `q` says (`body['spec']['ratio'] = 1.0`, `del body['x']`, …)"""
    def fn(body: Any) -> None:
        _edit_in_place(body, q)
    return fn


def mk_fns(env: dict, fns: list[list[Any]]) -> list[Any]:
    return [user_fn(f) if kind == "merge" else functools.partial(getattr(env["finalizers"], FNS[kind]), finalizer=f)
            for kind, f in fns]


def has_float(x: Any) -> bool:
    if isinstance(x, float):
        return True
    if isinstance(x, dict):
        return any(has_float(v) for v in x.values())
    if isinstance(x, (list, tuple)):
        return any(has_float(v) for v in x)
    return False


def diff_sites(a: Any, b: Any, path: tuple = ()) -> list[tuple[tuple, bool, bool]]:
    """where two documents differ AS JSON: (path, is a list, Python-equal). Mappings are descended; a list is one site."""
    if isinstance(a, dict) and isinstance(b, dict):
        out: list[tuple[tuple, bool, bool]] = []
        for k in list(a) + [k for k in b if k not in a]:
            if k not in a or k not in b:
                out.append((path + (k,), False, False))
            else:
                out += diff_sites(a[k], b[k], path + (k,))
        return out
    if eq_strict(a, b):
        return []
    return [(path, isinstance(a, list) and isinstance(b, list), bool(a == b))]


def err_tag(e: BaseException) -> str:
    return {"TypeError": "type-error", "KeyError": "key-error", "ValueError": "value-error"}.get(type(e).__name__, "exc:" + type(e).__name__)


class MapView(collections.abc.Mapping):
    """a mapping that is NOT a dict (as kopf's own `spec`/`status`/`body` views, `types.MappingProxyType`, …):
    handlers may put such values into the patch; the merge must treat them as mappings."""
    def __init__(self, d: dict) -> None:
        self._d = d

    def __getitem__(self, k: Any) -> Any:
        return self._d[k]

    def __iter__(self) -> Any:
        return iter(self._d)

    def __len__(self) -> int:
        return len(self._d)

    def __repr__(self) -> str:
        return f"MapView({self._d!r})"


def to_view(v: Any) -> Any:
    """every mapping below (and including) `v` as a non-dict Mapping; lists stay opaque (they are leaves)"""
    if isinstance(v, dict):
        return MapView({k: to_view(x) for k, x in v.items()})
    return v


def unview(v: Any) -> Any:
    if isinstance(v, collections.abc.Mapping):
        return {k: unview(x) for k, x in v.items()}
    if isinstance(v, list):
        return [unview(x) for x in v]
    return v


# =================================================================================================
# generators
# =================================================================================================
KEYS = ["a", "b", "c", "d", "a/b", "m~n", "~0", "~1", "", "é", "x.y", "k8s.io/n", "~", "/", "0", "1"]
SCALARS = [0, 1, -7, 2 ** 40, True, False, "", "s", "a/b", "~1"]
FINALIZERS = ["kopf.zalando.org/KopfFinalizerMarker", "other.io/f", "x"]


def gen_scalar(r: random.Random, nulls: bool = True) -> Any:
    if nulls and r.random() < 0.06:
        return None
    return r.choice(SCALARS)


def gen_list(r: random.Random, depth: int) -> list:
    n = r.choice([0, 1, 1, 2, 3])
    return [gen_value(r, depth + 1, in_list=True) for _ in range(n)]


def gen_dict(r: random.Random, depth: int, lo: int = 0, hi: int = 3) -> dict:
    n = r.randint(lo, hi)
    return {k: gen_value(r, depth + 1) for k in r.sample(KEYS, n)}


def gen_value(r: random.Random, depth: int, in_list: bool = False) -> Any:
    x = r.random()
    if depth >= 3 or x < 0.5:
        return gen_scalar(r)
    if x < 0.62:
        return gen_list(r, depth)
    if x < 0.68:
        return {}
    return gen_dict(r, depth, 1, 3)


def gen_body(r: random.Random) -> dict:
    shape = r.random()
    if shape < 0.08:
        return {} if r.random() < 0.3 else {r.choice(KEYS): gen_value(r, 1)}
    if shape < 0.30:
        return gen_dict(r, 0, 1, 4)
    body: dict[str, Any] = {}
    meta: dict[str, Any] = {"name": "n", "namespace": "ns"} if r.random() < 0.8 else {}
    if r.random() < 0.5:
        meta["labels"] = {k: "v" for k in r.sample(["app", "sel", "a/b"], r.randint(0, 2))}
    if r.random() < 0.3:
        meta["annotations"] = {k: r.choice(["", "x"]) for k in r.sample(["k8s.io/n", "m~n"], r.randint(0, 2))}
    if r.random() < 0.5:
        meta["finalizers"] = r.sample(FINALIZERS, r.randint(0, 3))
    if meta or r.random() < 0.7:
        body["metadata"] = meta
    body["spec"] = gen_dict(r, 1, 0, 4)
    if r.random() < 0.5:
        body["status"] = gen_dict(r, 1, 0, 3)
    for k in r.sample(KEYS, r.choice([0, 0, 1, 2])):
        body[k] = gen_value(r, 1)
    return body


def gen_new(r: random.Random, depth: int, tags: set[str]) -> Any:
    """instruction for an absent key"""
    x = r.random()
    if x < 0.35:
        tags.add("set-new")
        return gen_scalar(r, nulls=False)
    if x < 0.47:
        tags.add("delete-absent")
        return None
    if x < 0.57:
        tags.add("new-empty-mapping")
        return {}
    if x < 0.67:
        tags.add("new-only-deletes")
        return {r.choice(KEYS): None} if r.random() < 0.6 else {r.choice(KEYS): {r.choice(KEYS): None}}
    if x < 0.77:
        tags.add("set-new-list")
        return gen_list(r, depth)
    tags.add("set-new-nested")
    d = {k: gen_new(r, depth + 1, tags) if depth < 2 else gen_scalar(r, nulls=False) for k in r.sample(KEYS, r.randint(1, 2))}
    return d


def _flip_boolint(xs: list) -> list | None:
    """the same list with True<->1 / False<->0 swapped in some element (Python-equal, JSON-different)."""
    swap = {True: 1, False: 0}
    out, changed = [], False
    for x in xs:
        if isinstance(x, bool):
            out.append(swap[x]); changed = True
        elif isinstance(x, int) and x in (0, 1):
            out.append(bool(x)); changed = True
        else:
            out.append(copy.deepcopy(x))
    return out if changed else None


def gen_patch(r: random.Random, body: dict, depth: int, tags: set[str], heat: float, protect: bool = False) -> dict:
    """patch derived from the body; `heat` scales the rate of ill-typed (mapping over non-mapping) instructions."""
    patch: dict[str, Any] = {}
    moved_to: list[Any] = []
    for k, v in body.items():
        if protect and depth == 0 and k == "metadata":
            continue
        x = r.random()
        if x < 0.50:
            continue
        if x < 0.60:
            tags.add("delete-present")
            patch[k] = None
        elif x < 0.68:
            tags.add("overwrite-scalar")
            patch[k] = gen_scalar(r, nulls=False)
        elif x < 0.72:
            flipped = _flip_boolint(v) if isinstance(v, list) else None
            if flipped is not None and r.random() < 0.5:
                tags.add("list-boolint-flip")
                patch[k] = flipped
            elif isinstance(v, list) and v and r.random() < 0.5:
                # an element leaves the list and its value shows up under another key (diffed as a `move`)
                tags.add("list-elem-moved")
                i = r.randrange(len(v))
                patch[k] = [copy.deepcopy(x) for j, x in enumerate(v) if j != i] if r.random() < 0.5 else \
                    [copy.deepcopy(x) if j != i else gen_scalar(r, nulls=False) for j, x in enumerate(v)]
                moved_to.append(copy.deepcopy(v[i]))
            else:
                tags.add("overwrite-list")
                patch[k] = gen_list(r, depth)
        elif x < 0.75:
            tags.add("set-same")
            if v is not None and not isinstance(v, dict):
                patch[k] = copy.deepcopy(v)
        elif isinstance(v, dict):
            if x < 0.95:
                tags.add("nested-merge")
                sub = gen_patch(r, v, depth + 1, tags, heat)
                for nk in r.sample(KEYS, r.choice([0, 0, 1])):
                    if nk not in v:
                        sub[nk] = gen_new(r, depth + 1, tags)
                patch[k] = sub
            else:
                tags.add("empty-mapping-over-mapping")
                patch[k] = {}
        else:
            y = r.random()
            if y < 0.25 * heat:
                tags.add("mapping-over-nonmapping")
                patch[k] = {r.choice(KEYS): gen_scalar(r) if r.random() < 0.7 else {r.choice(KEYS): gen_scalar(r)}}
            elif y < 0.40 * heat:
                tags.add("leafless-over-nonmapping")
                patch[k] = {} if r.random() < 0.6 else {r.choice(KEYS): {}}
            else:
                tags.add("overwrite-scalar")
                patch[k] = gen_scalar(r, nulls=False)
    for nk in r.sample(KEYS, r.choice([0, 0, 1, 1, 2])):
        if nk not in body:
            patch[nk] = gen_new(r, depth, tags)
    for x in moved_to:
        if x is not None:
            nk = r.choice(KEYS)
            if nk not in body and nk not in patch:
                patch[nk] = x if not isinstance(x, dict) or x else 1
    return patch


def fns_safe(body: dict, patch: dict) -> bool:
    def ok_meta(m: Any, allow_null_fins: bool) -> bool:
        if not isinstance(m, dict):
            return False
        f = m.get("finalizers", [])
        if f is None:
            return allow_null_fins
        return isinstance(f, list) and all(isinstance(x, str) for x in f)
    if "metadata" in body and not ok_meta(body["metadata"], False):
        return False
    if "metadata" in patch and patch["metadata"] is not None and not ok_meta(patch["metadata"], True):
        return False
    return True


def gen_fns(r: random.Random) -> list[list[str]]:
    n = r.choice([0, 0, 1, 1, 2])
    return [[r.choice(["add", "remove"]), r.choice(FINALIZERS)] for _ in range(n)]


def gen_patch_case(r: random.Random) -> dict:
    body = gen_body(r)
    tags: set[str] = set()
    heat = r.choice([0.0, 0.0, 0.3, 1.0])
    patch = gen_patch(r, body, 0, tags, heat)
    if r.random() < 0.25 and isinstance(body.get("metadata", {}), dict):
        # finalizer/label edits through the merge-patch itself
        m: dict[str, Any] = {}
        if r.random() < 0.5:
            m["finalizers"] = r.choice([None, [], r.sample(FINALIZERS, r.randint(0, 2))])
            tags.add("patch-finalizers")
        if r.random() < 0.5:
            m["labels"] = {r.choice(["app", "sel", "a/b"]): r.choice([None, "v2"])}
            tags.add("patch-labels")
        if m:
            patch["metadata"] = m
    fns = gen_fns(r)
    if fns and not fns_safe(body, patch):
        fns = []
    case = {"stream": "patch", "body": body, "patch": patch, "fns": fns, "tags": sorted(tags)}
    if r.random() < 0.15 and any(isinstance(v, dict) for v in patch.values()):
        # the nested mappings of the patch are not dicts (a handler put one of kopf's views, a
        # MappingProxyType, … into the patch): same instructions, other Mapping class
        case["mapview"] = True
        case["tags"] = sorted(tags | {"non-dict-mapping"})
    return case


# ---- "quiet" reviews: the WHOLE effective change of the review is minimal -------------------------------------
NUMS = [0, 1, True, False] * 3 + [3, -7, 2 ** 40, 1.0, 0.0]


def pyeq_twins(v: Any) -> list[Any]:
    """the values Python's `==` equates with `v` although they are other JSON values (true/1/1.0, false/0/0.0/-0.0, 3/3.0)"""
    out: list[Any] = []
    if isinstance(v, bool):
        out = [int(v), float(v)]
    elif isinstance(v, int):
        if v in (0, 1):
            out.append(bool(v))
        if abs(v) < 2 ** 53:
            out.append(float(v))
        if v == 0:
            out.append(-0.0)
    elif isinstance(v, float) and v.is_integer():
        out.append(int(v))
        if v in (0.0, 1.0):
            out.append(bool(v))
    return [w for w in out if json.dumps(w) != json.dumps(v)]


def leaf_paths(d: dict, prefix: tuple = ()) -> list[tuple[tuple, Any]]:
    out: list[tuple[tuple, Any]] = []
    for k, v in d.items():
        if isinstance(v, dict):
            out += leaf_paths(v, prefix + (k,))
        else:
            out.append((prefix + (k,), v))
    return out


def mapping_paths(d: dict, prefix: tuple = ()) -> list[tuple]:
    out = [prefix]
    for k, v in d.items():
        if isinstance(v, dict):
            out += mapping_paths(v, prefix + (k,))
    return out


def _at(d: Any, path: tuple) -> Any:
    for k in path:
        d = d[k]
    return d


def _put(d: dict, path: tuple, v: Any) -> None:
    for k in path[:-1]:
        if not isinstance(d.get(k), dict):
            d[k] = {}
        d = d[k]
    d[path[-1]] = v


def gen_quiet(r: random.Random, body: dict, tags: set[str]) -> tuple[dict, list[dict]]:
    """(merge content, scripts of user functions) whose WHOLE effect on `body` is minimal: only overwrites between
    Python-equal values of different JSON type (at any depth, 1-3 of them), or one set of a falsy value, or one
    delete, or nothing at all — mixed with writes that change nothing (same value again, delete of an absent key,
    empty mapping over a mapping). `body` gets a few numeric/boolean leaves first (in place). `metadata` is left alone."""
    def free(p: tuple) -> bool:
        return not p or p[0] != "metadata"
    for _ in range(r.randint(1, 3)):
        mp = r.choice([p for p in mapping_paths(body) if free(p)])
        if len(mp) < 3 and r.random() < 0.3:
            nk = r.choice(KEYS)
            if nk not in _at(body, mp) and free(mp + (nk,)):
                _at(body, mp)[nk] = {}
                mp = mp + (nk,)
        nk = r.choice(KEYS)
        if nk not in _at(body, mp) and free(mp + (nk,)):
            _at(body, mp)[nk] = r.choice(NUMS)
    leaves = [(p, v) for p, v in leaf_paths(body) if free(p)]
    maps = [p for p in mapping_paths(body) if free(p)]
    changes: list[tuple[tuple, Any]] = []
    kind = r.choice(["pyeq", "pyeq", "pyeq", "pyeq", "falsy", "delete", "noop"])
    if kind == "pyeq":
        cands = [(p, v) for p, v in leaves if pyeq_twins(v)]
        for p, v in r.sample(cands, min(len(cands), r.choice([1, 1, 2, 3]))):
            exact = [w for w in pyeq_twins(v) if not isinstance(w, float)]
            w = r.choice(exact) if exact and r.random() < 0.7 else r.choice(pyeq_twins(v))
            changes.append((p, w))
            tags.add("quiet:pyeq:" + type(v).__name__ + "->" + type(w).__name__)
    elif kind == "falsy":
        w = r.choice([0, "", False, [], 0.0])
        truthy = [(p, v) for p, v in leaves if v and not isinstance(v, list)]
        if truthy and r.random() < 0.6:
            changes.append((r.choice(truthy)[0], w))
            tags.add("quiet:falsy-over-truthy")
        else:
            mp, nk = r.choice(maps), r.choice(KEYS)
            if nk not in _at(body, mp) and free(mp + (nk,)):
                changes.append((mp + (nk,), w))
                tags.add("quiet:falsy-new")
    elif kind == "delete" and leaves:
        changes.append((r.choice(leaves)[0], None))
        tags.add("quiet:delete-only")
    if not changes:
        tags.add("quiet:noop-only")
    taken = {p for p, _ in changes}
    noise: list[tuple[tuple, Any]] = []
    for _ in range(r.choice([0, 1, 1, 2, 3])):
        x = r.random()
        if x < 0.5 and leaves:
            p, v = r.choice(leaves)
            if p not in taken and v is not None:
                noise.append((p, copy.deepcopy(v)))
                tags.add("quiet:+set-same")
        elif x < 0.75:
            mp, nk = r.choice(maps), r.choice(KEYS)
            if nk not in _at(body, mp) and mp + (nk,) not in taken and free(mp + (nk,)):
                noise.append((mp + (nk,), None))
                tags.add("quiet:+delete-absent")
        else:
            mp = r.choice(maps)
            if mp and not any(q[:len(mp)] == mp for q in taken | {q for q, _ in noise}):
                noise.append((mp, {}))
                tags.add("quiet:+empty-mapping")
    mode = r.choice(["patch", "patch", "fn", "both"])
    content: dict = {}
    scripts: list[dict] = [{} for _ in range(r.choice([1, 1, 2]))] if mode != "patch" else []
    for p, v in noise + changes:
        via_fn = mode == "fn" or (mode == "both" and r.random() < 0.5)
        if via_fn and isinstance(v, dict):
            continue                        # ({} over a mapping is an instruction of the merge content only)
        _put(r.choice(scripts) if via_fn else content, p, v)
    scripts = [q for q in scripts if q]
    if scripts:
        tags.add("user-fn")
    if has_float([body, content, scripts]):
        tags.add("float")
    return content, scripts


def gen_quiet_patch_case(r: random.Random) -> dict:
    body = gen_body(r)
    tags: set[str] = set()
    content, scripts = gen_quiet(r, body, tags)
    fns: list[list[Any]] = [["merge", q] for q in scripts]
    if r.random() < 0.2 and fns_safe(body, content):
        # a framework function that changes nothing here: removing a finalizer that is not there
        present = body.get("metadata", {}).get("finalizers", []) if isinstance(body.get("metadata"), dict) else []
        absent = [f for f in FINALIZERS if f not in present]
        if absent:
            fns.insert(r.randint(0, len(fns)), ["remove", r.choice(absent)])
            tags.add("quiet:+noop-finalizer-fn")
    return {"stream": "patch", "body": body, "patch": content, "fns": fns, "tags": sorted(tags)}


ERR_KINDS = ["admission", "permanent", "temporary", "other"]
MESSAGES = ["", "denied", "boom ü", "x" * 40]
CODES = [400, 403, 409, 422, 500, 599, 123, 299, None, 0, "default"]


def gen_error(r: random.Random) -> dict:
    kind = r.choice(ERR_KINDS)
    e: dict[str, Any] = {"kind": kind, "msg": r.choice(MESSAGES)}
    if kind == "admission":
        e["code"] = r.choice(CODES)
        e["sub"] = r.random() < 0.2         # a subclass of AdmissionError
    elif kind == "permanent":
        e["cls"] = r.choice(["PermanentError", "HandlerTimeoutError", "HandlerRetriesError"])
    elif kind == "other":
        e["cls"] = r.choice(["ValueError", "KeyError", "Exception", "RuntimeError"])
    return e


def mk_exception(env: dict, e: dict) -> BaseException:
    adm, ex = env["admission"], env["execution"]
    kind, msg = e["kind"], e["msg"]
    if kind == "admission":
        cls = adm.AdmissionError
        if e.get("sub"):
            cls = type("QuotaExceeded", (adm.AdmissionError,), {})
        if e["code"] == "default":
            return cls(msg)
        return cls(msg, code=e["code"])
    if kind == "permanent":
        return getattr(ex, e["cls"])(msg)
    if kind == "temporary":
        return ex.TemporaryError(msg, delay=1)
    cls = {"ValueError": ValueError, "KeyError": KeyError, "Exception": Exception, "RuntimeError": RuntimeError}[e["cls"]]
    return cls(msg) if msg or cls is KeyError else cls()


OPERATIONS = ["CREATE", "UPDATE", "DELETE", "CONNECT"]
SUBS = [None, "status", "scale"]


ID_FORMS = ["h{}", "h{}", "h{}", "chk/{}", "mod.{}", "é{}", "a b{}", "p%{}", "x!{}", "q?{}", "n#{}", "k8s.io/v-{}"]
FIELD_SUFFIX = "/spec.a"          # what kopf's decorators append to the id of a handler with field='spec.a'
OPS_FORMS = ["list", "list", "list", "tuple", "set", "frozenset", "deprecated"]


def handler_writes(h: dict) -> list[dict]:
    """the handler's requested changes as a script of writes on the `patch` kwarg: `item` = patch[key] = value,
    `spec`/`status` = patch.spec[key] = value, `labels`/`annotations` = patch.metadata.<api>[key] = value
    (`meta` is an alias of `metadata`). Cases from before the script existed carry a `piece` of top-level items."""
    if "writes" in h:
        return h["writes"]
    return [{"api": "item", "key": k, "value": v} for k, v in h.get("piece", {}).items()]


def ref_write(ref: dict, w: dict) -> None:
    """what a write means for the content of the merge-patch (independent of kopf's view classes)"""
    api, k, v = w["api"], w["key"], copy.deepcopy(w["value"])
    if api == "item":
        ref[k] = v
    elif api in ("spec", "status"):
        ref.setdefault(api, {})[k] = v
    elif api in ("labels", "annotations"):
        ref.setdefault("metadata", {}).setdefault(api, {})[k] = v
    else:
        raise ValueError(f"unknown write api {api!r}")


def gen_old(r: random.Random, body: dict, hs: list[dict]) -> dict:
    """the stored object of an UPDATE review: differs from the submitted one — preferably exactly where the
    handlers ask for changes (it may already have what they ask for: nothing to patch relative to IT)."""
    old = copy.deepcopy(body)
    writers = [h for h in hs if handler_writes(h)]
    x = r.random()
    if writers and x < 0.65:
        for h in r.sample(writers, r.randint(1, len(writers))):
            ref: dict = {}
            for w in handler_writes(h):
                if r.random() < 0.8:
                    ref_write(ref, w)
            merged = merge7386(old, ref)
            if isinstance(merged, dict):
                old = merged
    if x >= 0.45 or old == body:
        if isinstance(old.get("spec"), dict) and r.random() < 0.7:
            for k in r.sample(KEYS, r.randint(1, 2)):
                if k in old["spec"] and r.random() < 0.5:
                    del old["spec"][k]
                else:
                    old["spec"][k] = gen_value(r, 2)
        if r.random() < 0.4:
            k = r.choice(KEYS)
            if k in old:
                del old[k]
            else:
                old[k] = gen_value(r, 1)
    meta = old.get("metadata")
    if not isinstance(meta, dict):
        meta = old["metadata"] = copy.deepcopy(body.get("metadata", {})) if isinstance(body.get("metadata"), dict) else {}
    if isinstance(meta.get("labels"), dict) and r.random() < 0.6:
        # the selecting label differs between the stored and the submitted object
        cur = meta["labels"].get("sel")
        meta["labels"]["sel"] = "no" if cur == "yes" else "yes"
    if r.random() < 0.3:
        meta["finalizers"] = r.sample(FINALIZERS, r.randint(0, 2))
    return old


def gen_serve_case(r: random.Random) -> dict:
    body = gen_body(r)
    if not isinstance(body.get("metadata", {}), dict) or r.random() < 0.7:
        body["metadata"] = {"name": "n", "namespace": "ns", "labels": {"sel": r.choice(["yes", "no"])}}
        if r.random() < 0.4:
            body["metadata"]["finalizers"] = r.sample(FINALIZERS, r.randint(0, 2))
    elif "labels" in body.get("metadata", {}) and not isinstance(body["metadata"]["labels"], dict):
        body["metadata"]["labels"] = {}
    operation = r.choice(OPERATIONS + ["DELETE", "UPDATE"] + [None] * (r.random() < 0.1))
    subresource = r.choice(SUBS + [None])
    n = r.choice([1, 1, 2, 2, 3, 4])
    hs = []
    used_top: set[str] = set()
    safe_fns = fns_safe(body, {})
    # top-level stanzas the handlers of this case write through kopf's views (patch.spec[...] = ...): several
    # handlers may then write under ONE top-level key; nobody replaces such a stanza as a whole
    view_tops = {t for t in ("spec", "status") if r.random() < 0.45}
    meta_views = isinstance(body.get("metadata"), dict) and all(
        isinstance(body["metadata"].get(a, {}), dict) for a in ("labels", "annotations"))
    for i in range(n):
        tags: set[str] = set()
        reason = r.choice(["validating", "mutating", "mutating"])
        ops_choice = r.choice([None, None, ["DELETE"], ["CREATE"], ["CREATE", "UPDATE"], ["CREATE", "DELETE"],
                               ["UPDATE", "DELETE"], ["DELETE", "DELETE"], ["CONNECT"], ["*"], ["*", "CREATE"], []])
        h: dict[str, Any] = {
            "id": r.choice(ID_FORMS).format(i), "fn": f"f{i}", "reason": reason, "operations": ops_choice,
            "subresource": subresource if r.random() < 0.45 else r.choice([None, "status", "scale", "*", "*"]),
            "filter": r.choice(["none"] * 6 + ["when-true", "when-false", "label-yes", "other-resource", "field-a"]),
            "warnings": [r.choice(["w", "deprecated field", "ü"]) + str(i) for _ in range(r.choice([0, 0, 1, 2]))],
            "error": gen_error(r) if r.random() < 0.4 else None,
            "writes": [], "fns": [],
        }
        if h["filter"] == "field-a":
            h["id"] += FIELD_SUFFIX
        # how the handler is declared: through kopf's decorators (as users do) or as a hand-built handler object;
        # the declared operations as a list / tuple / set / frozenset, or through the deprecated `operation=`
        h["via"] = "decorator" if ops_choice != [] and r.random() < 0.6 else "direct"
        h["ops_form"] = "list" if not ops_choice else r.choice(OPS_FORMS)
        if h["ops_form"] == "deprecated" and (h["via"] != "decorator" or len(set(ops_choice)) != 1):
            h["ops_form"] = "frozenset"
        if reason == "mutating" or r.random() < 0.15:
            src = {k: v for k, v in body.items() if k not in used_top}
            piece = gen_patch(r, src, 0, tags, r.choice([0.0, 0.0, 0.0, 0.5]), protect=True)
            for k, v in piece.items():
                if k in used_top or k == "metadata":
                    continue
                if k in view_tops:
                    if isinstance(v, dict) and v:
                        h["writes"] += [{"api": k, "key": k2, "value": v2} for k2, v2 in v.items()]
                        tags.add("write-through-view")
                else:
                    h["writes"].append({"api": "item", "key": k, "value": v})
                    used_top.add(k)
            for t in sorted(view_tops):
                if isinstance(body.get(t), dict) and not any(w["api"] == t for w in h["writes"]) and r.random() < 0.6:
                    sub = gen_patch(r, body[t], 1, tags, 0.0)
                    if r.random() < 0.5:
                        nk = r.choice(KEYS)
                        if nk not in body[t]:
                            sub[nk] = gen_new(r, 1, tags)
                    if sub:
                        h["writes"] += [{"api": t, "key": k2, "value": v2} for k2, v2 in sub.items()]
                        tags.add("write-through-view")
            if meta_views and r.random() < 0.3:
                api = r.choice(["labels", "labels", "annotations"])
                h["writes"].insert(r.randint(0, len(h["writes"])),
                                   {"api": api, "key": r.choice(["app", "sel", "k8s.io/n"]), "value": r.choice([None, "v2", "yes"])})
                tags.add("write-" + api)
            if safe_fns and r.random() < 0.35:
                h["fns"] = gen_fns(r)
        h["tags"] = sorted(tags)
        hs.append(h)
    if r.random() < 0.35:
        # stacked decorators: ONE function registered 2-3 times under the SAME id with other criteria
        # (kopf's decorators derive the id from the function name, so the ids of the stack are equal)
        base = r.choice(hs)
        for _ in range(r.choice([1, 1, 2])):
            twin = copy.deepcopy(base)
            if r.random() < 0.25:
                twin["reason"] = "validating" if base["reason"] == "mutating" else "mutating"
            twin["operations"] = r.choice([None, ["CREATE"], ["UPDATE"], ["DELETE"], ["CREATE", "UPDATE"], ["CONNECT"], ["*"]])
            twin["ops_form"] = "list" if not twin["operations"] else r.choice(OPS_FORMS[:-1])
            twin["subresource"] = subresource if r.random() < 0.5 else r.choice([None, "status", "scale", "*"])
            if base["filter"] != "field-a":   # (the field is part of the id)
                twin["filter"] = r.choice(["none"] * 4 + ["when-true", "when-false", "label-yes", "other-resource"])
            hs.insert(r.randint(hs.index(base) + 1, len(hs)), twin)
    if r.random() < 0.25:
        # TWO DIFFERENT functions under ONE id (e.g. `@kopf.on.validate` and `@kopf.on.mutate` on two functions of
        # one name, as in `def check` twice): both are candidates for every review sent to that webhook id
        base = r.choice(hs)
        other = copy.deepcopy(base)
        other["fn"] = "g" + base["fn"][1:]
        other["reason"] = ("validating" if base["reason"] == "mutating" else "mutating") if r.random() < 0.7 else base["reason"]
        other["warnings"] = [w + "'" for w in base["warnings"]] if r.random() < 0.5 else []
        other["error"] = gen_error(r) if r.random() < 0.5 else None
        other["writes"], other["fns"], other["tags"] = [], [], []
        if r.random() < 0.5:
            other["subresource"], other["operations"] = base["subresource"], base["operations"]
        elif base["filter"] != "field-a":
            other["filter"] = r.choice(["none", "none", "when-true", "when-false", "label-yes"])
        hs.insert(r.choice([hs.index(base), hs.index(base) + 1, len(hs)]), other)
    quiet = r.random() < 0.15
    if quiet:
        # the whole review asks for a minimal change (see gen_quiet): one or two handlers that surely run carry it
        qtags: set[str] = set()
        content, scripts = gen_quiet(r, body, qtags)
        operation = r.choice(["CREATE", "UPDATE", "UPDATE", "CONNECT"])
        for h in hs:
            h["writes"], h["fns"], h["tags"] = [], [], []
        plain = [h for h in hs if h["filter"] != "field-a"] or hs[:1]
        carriers = r.sample(plain, min(len(plain), r.choice([1, 1, 2])))
        for h in carriers:
            h.update({"reason": "mutating", "operations": None, "ops_form": "list", "subresource": "*", "tags": sorted(qtags)})
            if h["filter"] == "field-a":
                h["via"] = "direct"
            h["filter"] = "none"
        for k, v in content.items():
            h = r.choice(carriers)
            if k in ("spec", "status") and isinstance(v, dict) and v and r.random() < 0.5:
                h["writes"] += [{"api": k, "key": k2, "value": v2} for k2, v2 in v.items()]
            else:
                h["writes"].append({"api": "item", "key": k, "value": v})
        for q in scripts:
            r.choice(carriers)["fns"].append(["merge", q])
        for h in hs:       # the behaviour belongs to the function: registrations of one function share it
            first = next(g for g in hs if _key(g) == _key(h))
            h["writes"], h["fns"], h["tags"] = first["writes"], first["fns"], first["tags"]
            if first in carriers and h is not first:
                h.update({"reason": "mutating", "filter": first["filter"]})
    ids_ = [h["id"] for h in hs]
    webhook = r.choice([None] * 6 + [r.choice(ids_), r.choice(ids_), r.choice(ids_), "nobody"])
    reason_hint = r.choice([None] * 5 + ["validating", "mutating"])
    if quiet and r.random() < 0.8:
        webhook, reason_hint = None, None
    case: dict[str, Any] = {"stream": "serve", "body": body, "operation": operation, "subresource": subresource,
                            "webhook": webhook, "reason": reason_hint, "handlers": hs}
    # the hint as a webhook server gets it: the path of the URL kopf configured for that handler, decoded
    case["hint_via_url"] = webhook in ids_ and r.random() < 0.75
    if operation == "UPDATE" and r.random() < 0.75:
        case["old_body"] = gen_old(r, body, hs)
    case["null_keys_absent"] = r.random() < 0.3       # `object`/`oldObject` omitted instead of null
    case["api"] = r.choice(["v1", "v1", "v1beta1"])
    if r.random() < 0.12:
        case["mapview"] = True                         # nested mappings are written as non-dict Mappings
    return case


def gen_response_case(r: random.Random) -> dict:
    n = r.choice([0, 1, 2, 3, 4, 6])
    outs = [gen_error(r) if r.random() < 0.6 else None for _ in range(n)]
    ws = [r.choice(["w1", "w2", "", "ü"]) for _ in range(r.choice([0, 0, 1, 3]))]
    ops = r.choice([[], [], [{"op": "add", "path": "/x", "value": 1}]])
    return {"stream": "response", "outcomes": outs, "warnings": ws, "jsonpatch": ops}


# =================================================================================================
# evaluation of one case on the real code: observations, oracle, model requests
# =================================================================================================
class Result:
    def __init__(self) -> None:
        self.fails: list[tuple[str, dict]] = []          # oracle failures (what, signature)
        self.reqs: list[tuple[str, list, Any]] = []      # (what, driver request, implementation output)
        self.tags: list[str] = []
        self.result = "ok"
        self.diff_suspect = False   # the JSON patch does not reproduce the mechanism's own result
        self.want: Any = None       # the reference result (merge + fns), when it was computed
        self.illtyped = False       # some patch mapping sits over a present non-mapping target

    def fail(self, what: str, sig: dict) -> None:
        self.fails.append((what, sig))


def errinfo(e: BaseException, env: dict) -> dict:
    adm, ex = env["admission"], env["execution"]
    kind = ("admission" if isinstance(e, adm.AdmissionError) else "permanent" if isinstance(e, ex.PermanentError)
            else "temporary" if isinstance(e, ex.TemporaryError) else "other")
    code = getattr(e, "code", None) if kind == "admission" else None
    return {"kind": kind, "code": code, "str": str(e), "repr": repr(e)}


def declared_errinfo(e: dict) -> dict:
    """What the handler raised, from the case's DECLARATION (class, message, code) — not read back from the
    exception object, so that kopf's own exception classes are part of what is checked: the class decides
    the kind, `str(error) or repr(error)` is Python's for an exception constructed with one message argument,
    the code is the one given to AdmissionError (500 when not given)."""
    kind, msg = e["kind"], e["msg"]
    if kind == "admission":
        name = "QuotaExceeded" if e.get("sub") else "AdmissionError"
        code = 500 if e["code"] == "default" else e["code"]
        return {"kind": kind, "code": code, "str": str(msg), "repr": f"{name}({msg!r})"}
    if kind == "permanent":
        return {"kind": kind, "code": None, "str": str(msg), "repr": f"{e['cls']}({msg!r})"}
    if kind == "temporary":
        return {"kind": kind, "code": None, "str": str(msg), "repr": f"TemporaryError({msg!r})"}
    name = e["cls"]
    if name == "KeyError":
        return {"kind": kind, "code": None, "str": repr(msg), "repr": f"KeyError({msg!r})"}
    if msg:
        return {"kind": kind, "code": None, "str": str(msg), "repr": f"{name}({msg!r})"}
    return {"kind": kind, "code": None, "str": "", "repr": f"{name}()"}


def oracle_response(res: Result, resp: dict, raised: list[dict | None], warnings: list[str]) -> None:
    """allowed / status / warnings from what the selected handlers did (property text, not the model)."""
    r = resp["response"]
    errs = [e for e in raised if e is not None]
    if bool(r.get("allowed")) != (not errs) or not isinstance(r.get("allowed"), bool):
        res.fail(f"allowed={r.get('allowed')!r} with {len(errs)} raised handler(s)",
                 {"site": "admission.build_response", "shape": "allowed is not 'no selected handler raised'"})
    if not errs:
        if r.get("status") is not None:
            res.fail("a status is reported although no handler raised", {"site": "admission.build_response", "shape": "status without error"})
    else:
        rank = {"admission": 0, "permanent": 1, "temporary": 2, "other": 3}
        best = min(rank[e["kind"]] for e in errs)
        cands = [e for e in errs if rank[e["kind"]] == best]
        want = [((e["str"] or e["repr"]), (e["code"] if e["kind"] == "admission" and e["code"] else 500)) for e in cands]
        st = r.get("status") or {}
        if (st.get("message"), st.get("code")) not in want:
            res.fail(f"status {st!r} does not come from the most specific error; candidates {want!r}",
                     {"site": "admission.build_response", "shape": "status not from the most specific error"})
    if list(r.get("warnings") or []) != list(warnings):
        res.fail(f"warnings {r.get('warnings')!r}, handlers issued {warnings!r}",
                 {"site": "admission.build_response", "shape": "warnings differ from those issued, in order"})


def _raised_inside_jsonpatch(exc: BaseException) -> bool:
    tb = exc.__traceback__
    last = None
    while tb is not None:
        last = tb
        tb = tb.tb_next
    return last is not None and os.path.basename(last.tb_frame.f_code.co_filename) == "jsonpatch.py"


def _through_list(body: Any, op: dict, other: Any = None) -> bool:
    """does the `from` or `path` pointer of this op name a position inside a LIST of the reviewed object
    (or of the wanted object)? Decided by walking the documents, not by the look of the token
    (mapping keys may be digits too)."""
    for ptr in (op.get("from", ""), op.get("path", "")):
        toks = ptr_parse(ptr) if ptr.startswith("/") else []
        for doc in (body, other):
            cur = doc
            for t in toks:
                if isinstance(cur, list):
                    return True
                if isinstance(cur, dict) and t in cur:
                    cur = cur[t]
                else:
                    break
    return False


def oracle_patch(res: Result, body: dict, patch: dict, fn_objs: list, ops: Any, exc: BaseException | None,
                 to_be: Any = None) -> Any:
    """Fidelity of the JSON patch; returns the patched object (or None). The verdict compares the
    independently patched object with the independent merge (+ fns) up to empty mappings. `to_be` (the
    real mechanism's intermediate body) is used only to *classify* a failure for the findings list."""
    hits = nonmapping_hits(body, patch) if patch else set()
    res.illtyped = bool(hits)
    if exc is not None:
        res.result = err_tag(exc)
        if _raised_inside_jsonpatch(exc):
            # the third-party diff itself crashed (bookkeeping of its move optimisation over list indices):
            # same site and cause as C18-F5, third symptom (wrong patch / inapplicable patch / exception)
            res.diff_suspect = True
            res.result = "jsonpatch-raises"
            res.fail(f"jsonpatch.from_diff raises {type(exc).__name__}: {exc} (out of as_json_patch / serve_admission_request)", SIG_MOVE)
        elif isinstance(exc, TypeError) and "leafful" in hits:
            res.fail(f"as_json_patch raises TypeError: {exc}", SIG_F4)
        else:
            res.fail(f"as_json_patch raises {type(exc).__name__}: {exc}",
                     {"site": "Patch.as_json_patch", "shape": f"raises {type(exc).__name__}"})
        return None
    try:
        got = apply6902(body, ops)
    except (RefError, KeyError, IndexError, TypeError) as e:
        res.result = "inapplicable"
        moves = any(op.get("op") == "move" and _through_list(body, op, to_be) for op in ops)
        res.fail(f"the returned JSON patch does not apply to the reviewed object: {e}",
                 SIG_MOVE if moves and to_be is not None else {"site": "Patch.as_json_patch", "shape": "json patch not applicable"})
        return None

    def want_for(p: dict) -> Any:
        w = merge7386(copy.deepcopy(body), p)   # deep: the fns mutate nested lists in place
        for fn in fn_objs:
            fn(w)
        return w
    try:
        want = want_for(patch)
    except Exception as e:   # the reference side could not run the functions: a harness limit, say so loudly
        raise RuntimeError(f"oracle could not apply fns to the reference merge: {e!r}")
    res.want = want
    if eq_strict(strip_empty(got), strip_empty(want)):
        return got
    res.result = "mismatch"
    sigs: list[dict] = []
    generic = to_be is None
    if to_be is not None:
        # (A) the merge mechanism against the reference
        if not eq_strict(strip_empty(to_be), strip_empty(want)):
            ok_a = False
            if "leafless" in hits:
                try:
                    ok_a = eq_strict(strip_empty(to_be), strip_empty(want_for(prune_leafless(body, patch))))
                except Exception:
                    ok_a = False
            if ok_a:
                sigs.append(SIG_EMPTY)
            else:
                generic = True
        # (B) the diff against the mechanism's own result
        if not eq_strict(got, to_be):
            res.diff_suspect = True
            # Python ==: True == 1, False == 0. The open finding C18-F4 is jsonpatch's: it compares LIST ELEMENTS and
            # MOVE/COPY candidates that way. A Python-equal difference anywhere else (a plain value of a mapping the
            # diff neither moved nor copied) is NOT that finding: the requested type change was dropped on the way.
            sites = diff_sites(got, to_be)
            moved = [tuple(ptr_parse(op["path"])) for op in ops if op.get("op") in ("move", "copy")]
            excused = [pe and (inl or any(p[:len(m)] == m for m in moved)) for p, inl, pe in sites]
            if sites and all(excused):
                sigs.append(SIG_LISTBOOL)
            elif sites and all(pe for _, _, pe in sites):
                where = ", ".join("/" + "/".join(p) for (p, _, _), x in zip(sites, excused) if not x)
                sigs.append({**SIG_TYPECHANGE, "_where": where})
            elif any(op.get("op") == "move" and _through_list(body, op, to_be) for op in ops):
                sigs.append(SIG_MOVE)
            elif not eq_strict(strip_empty(got), strip_empty(to_be)):
                generic = True
        if not sigs:
            generic = True
    text = f"patched object {leanio.canon(got)[:400]} is not the requested {leanio.canon(want)[:400]} (up to empty mappings)"
    if generic:
        res.fail(text, {"site": "Patch.as_json_patch", "shape": "json patch does not yield the merged object"})
    else:
        for sg in sigs:
            where = sg.get("_where")
            sg = {k: v for k, v in sg.items() if k != "_where"}
            res.fail(text + f" [{sg['shape']}{': at ' + where if where else ''}]", sg)
    return got


def eval_patch(env: dict, case: dict) -> Result:
    res = Result()
    patches = env["patches"]
    body, patch, fns = case["body"], case["patch"], case["fns"]
    res.tags = list(case.get("tags", [])) + (["fns"] if fns else [])
    fn_objs = mk_fns(env, fns)

    def given() -> dict:
        """the patch content as the handler wrote it: plain dicts, or non-dict mappings below the root"""
        if case.get("mapview"):
            return {k: to_view(v) for k, v in copy.deepcopy(patch).items()}
        return copy.deepcopy(patch)
    # (1) the mechanism alone: the real _apply_patch + fns on a copy
    b2 = copy.deepcopy(body)
    impl1: Any
    try:
        p = patches.Patch(given(), fns=fn_objs)
        p._apply_patch(b2, (), dict(p))
        for fn in p.fns:
            fn(b2)
        json.dumps(b2)   # the mutated body must still be plain JSON
        impl1 = ["ok", b2]
    except Exception as e:
        impl1 = ["err", err_tag(e)]
    # (2) the public way: as_json_patch against the body
    ops, exc = None, None
    try:
        ops = patches.Patch(given(), fns=fn_objs).as_json_patch(copy.deepcopy(body))
        json.dumps(ops)   # what build_response does with them next
    except Exception as e:
        exc = e
    got = oracle_patch(res, body, patch, fn_objs, ops, exc, impl1[1] if impl1[0] == "ok" else None)
    if ops is not None:
        for op in ops:
            res.tags.append("op:" + str(op.get("op")))
    # ties: model's body_to_be == real body_to_be == JSON patch applied (when it applies)
    res.reqs.append(("apply(_apply_patch+fns)", ["C18.apply", body, patch, fns], impl1))
    if got is not None and not (patch or fns):
        pass
    elif got is not None and not res.diff_suspect:
        res.reqs.append(("apply(json patch applied)", ["C18.apply", body, patch, fns], ["ok", got]))
    elif exc is not None and not res.diff_suspect:
        res.reqs.append(("apply(as_json_patch error)", ["C18.apply", body, patch, fns], ["err", err_tag(exc)]))
    res.reqs.append(("merge(RFC 7386 reference)", ["C18.merge", body, patch], ["ok", merge7386(body, patch)]))
    return res


def _resp_view(r: dict) -> dict:
    """the fields of the response payload the model has, with the patch decoded"""
    ops = None
    if "patch" in r:
        try:
            ops = json.loads(base64.b64decode(r["patch"]))
        except Exception:
            ops = "undecodable"
    return {"allowed": r.get("allowed"), "status": r.get("status"), "warnings": r.get("warnings"),
            "patch": ops, "patchType": r.get("patchType")}


def eval_response(env: dict, case: dict) -> Result:
    res = Result()
    adm, ex = env["admission"], env["execution"]
    excs = [mk_exception(env, e) if e is not None else None for e in case["outcomes"]]
    outcomes = {f"h{i}": ex.Outcome(final=True, exception=e) for i, e in enumerate(excs)}
    resp = adm.build_response(request={"request": {"uid": "u"}}, outcomes=outcomes, warnings=list(case["warnings"]),
                              jsonpatch=copy.deepcopy(case["jsonpatch"]))
    raised = [declared_errinfo(e) if e is not None else None for e in case["outcomes"]]
    oracle_response(res, resp, raised, case["warnings"])
    r = resp["response"]
    if case["jsonpatch"]:
        try:
            back = json.loads(base64.b64decode(r.get("patch", "")))
        except Exception:
            back = None
        if back != case["jsonpatch"] or r.get("patchType") != "JSONPatch":
            res.fail("the JSON patch is not returned base64-encoded with patchType=JSONPatch",
                     {"site": "admission.build_response", "shape": "patch encoding"})
    elif "patch" in r:
        res.fail("a patch is returned although there is none", {"site": "admission.build_response", "shape": "patch encoding"})
    impl = _resp_view(r)
    res.reqs.append(("response", ["C18.response", raised, case["warnings"], case["jsonpatch"]], ["ok", impl]))
    res.tags = sorted({("err:" + e["kind"]) for e in raised if e} | ({"warnings"} if case["warnings"] else set())
                      | ({"empty-message"} if any(e and not e["str"] for e in raised) else set())
                      | ({"falsy-code"} if any(e and e["kind"] == "admission" and not e["code"] for e in raised) else set())
                      | ({"patch-on-denial"} if any(e is not None for e in raised) and case["jsonpatch"] else set())
                      | ({"patch"} if case["jsonpatch"] else set()))
    res.result = "allowed" if r.get("allowed") else "denied"
    return res


def _key(h: dict) -> tuple[str, str]:
    """`(id(handler.fn), handler.id)`: the function behind a registration, and its id"""
    return (h.get("fn", h["id"]), h["id"])


def _hj(h: dict) -> dict:
    return {"id": h["id"], "reason": h["reason"], "operations": h["operations"], "subresource": h["subresource"],
            "fn": h.get("fn", h["id"])}


def filter_bit(h: dict, reviewed: dict) -> bool:
    """the handler's remaining filters on the reviewed object, from the declaration"""
    meta = reviewed.get("metadata", {})
    labels_now = meta.get("labels", {}) if isinstance(meta, dict) else {}
    spec = reviewed.get("spec")
    return {"none": True, "when-true": True, "when-false": False, "other-resource": False,
            "label-yes": isinstance(labels_now, dict) and labels_now.get("sel") == "yes",
            "field-a": isinstance(spec, dict) and "a" in spec}[h["filter"]]


def _entries(case: dict, reviewed: dict) -> list[dict]:
    """every registered handler with its remaining-filters bit and what its invocation does (as declared)"""
    out = []
    for h in case["handlers"]:
        err = declared_errinfo(h["error"]) if h["error"] is not None else None
        out.append({"handler": _hj(h), "m": filter_bit(h, reviewed), "warnings": list(h["warnings"]), "error": err})
    return out


HOOK_BASE = "https://op.example/base"


def decode_hook_id(url: str) -> str:
    """what a webhook server that serves `<base>/{id}` (kopf's own: aiohttp route `{path}/{id:.*}`) takes for
    the handler id of a review sent to this URL: the rest of the PATH, percent-decoded."""
    parts = urllib.parse.urlsplit(url)
    prefix = urllib.parse.urlsplit(HOOK_BASE).path + "/"
    if not parts.path.startswith(prefix):
        return "<not under the base path>"
    return urllib.parse.unquote(parts.path[len(prefix):])


def _ops_value(h: dict) -> Any:
    ops, form = h["operations"], h.get("ops_form", "list")
    if ops is None or form in ("list", "deprecated"):
        return ops
    return {"tuple": tuple, "set": set, "frozenset": frozenset}[form](ops)


async def eval_serve(env: dict, case: dict) -> Result:
    res = Result()
    adm, H, causes, kopf = env["admission"], env["handlers"], env["causes"], env["kopf"]
    references, registries, ids = env["references"], env["registries"], env["ids"]
    settings = env["configuration"].OperatorSettings()
    resource = references.Resource("kopf.dev", "v1", "kopfexamples", namespaced=True)
    insights = references.Insights()
    insights.webhook_resources.add(resource)
    indices = env["indexing"].OperatorIndexers().indices
    memories = env["inventory"].ResourceMemories()
    registry = registries.OperatorRegistry()
    body = case["body"]          # the reviewed object: `object`, or `oldObject` of a DELETE review
    log: list[tuple[str, str]] = []   # (fn, id) of the invoked functions, in invocation order
    issued: list[str] = []
    seen_bodies: list[Any] = []
    groups: dict[tuple[str, str], list[dict]] = {}
    for h in case["handlers"]:
        groups.setdefault(_key(h), []).append(h)
    as_views = bool(case.get("mapview"))

    def mk_fn(h: dict):
        # the behaviour belongs to the function: all stacked registrations of it share it
        async def fn(patch, warnings, body, **_):
            log.append(_key(h))
            seen_bodies.append(copy.deepcopy(dict(body)))
            for w in h["warnings"]:
                warnings.append(w)
                issued.append(w)
            for w in handler_writes(h):
                v = copy.deepcopy(w["value"])
                v = to_view(v) if as_views else v
                api, k = w["api"], w["key"]
                if api == "item":
                    patch[k] = v
                elif api == "spec":
                    patch.spec[k] = v
                elif api == "status":
                    patch.status[k] = v
                elif api == "labels":
                    (patch.metadata if len(k) % 2 else patch.meta).labels[k] = v
                elif api == "annotations":
                    (patch.meta if len(k) % 2 else patch.metadata).annotations[k] = v
                else:
                    raise ValueError(api)
            patch.fns.extend(mk_fns(env, h["fns"]))
            if h["error"] is not None:
                raise mk_exception(env, h["error"])
        fn.__name__ = _key(h)[0]
        return fn

    fn_by_key = {k: mk_fn(g[0]) for k, g in groups.items()}
    for h in case["handlers"]:
        flt = h["filter"]
        when = (lambda **_: True) if flt == "when-true" else (lambda **_: False) if flt == "when-false" else None
        labels = {"sel": "yes"} if flt == "label-yes" else None
        kind_name = "otherkinds" if flt == "other-resource" else "kopfexamples"
        field = "spec.a" if flt == "field-a" else None
        if h.get("via") == "decorator":
            # as users declare them; the id given to the decorator is the one before the field suffix
            deco = kopf.on.validate if h["reason"] == "validating" else kopf.on.mutate
            given_id = h["id"][:-len(FIELD_SUFFIX)] if field is not None and h["id"].endswith(FIELD_SUFFIX) else h["id"]
            kw: dict[str, Any] = {"id": given_id, "subresource": h["subresource"], "labels": labels, "when": when,
                                  "field": field, "registry": registry}
            if h.get("ops_form") == "deprecated":
                kw["operation"] = h["operations"][0]
            else:
                kw["operations"] = _ops_value(h)
            with pywarnings.catch_warnings():
                pywarnings.simplefilter("ignore")
                deco(kind_name, **kw)(fn_by_key[_key(h)])
        else:
            registry._webhooks.append(H.WebhookHandler(
                fn=fn_by_key[_key(h)], id=ids.HandlerId(h["id"]), param=None, errors=None, timeout=None, retries=None, backoff=None,
                selector=references.Selector(kind_name), labels=labels, annotations=None, when=when,
                field=("spec", "a") if field is not None else None, value=None,
                reason=causes.WebhookType(h["reason"]), operations=_ops_value(h), subresource=h["subresource"],
                persistent=None, side_effects=None, ignore_failures=None))
    registered = registry._webhooks.get_all_handlers()
    if [str(x.id) for x in registered] != [h["id"] for h in case["handlers"]]:
        res.fail(f"handlers are registered under ids {[str(x.id) for x in registered]!r}, declared {[h['id'] for h in case['handlers']]!r}",
                 {"site": "kopf.on.validate/mutate", "shape": "handler id differs from the declared one"})
    # the managed configuration kopf would send to the apiserver for these handlers:
    # each handler's webhook carries its id in the URL and its declared operations in the rule
    hooks = adm.build_webhooks(registered, resources=[resource], name_suffix="sfx", client_config={"url": HOOK_BASE + "/"})
    for h, w in zip(case["handlers"], hooks):
        back = decode_hook_id(w["clientConfig"]["url"])
        if back != h["id"]:
            res.fail(f"the webhook of handler {h['id']!r} is configured with the URL {w['clientConfig']['url']!r}: a review sent "
                     f"there arrives with the id {back!r}, which is not the handler's",
                     {"site": "admission.build_webhooks", "shape": "the webhook URL does not lead back to the handler id"})
        rule_ops = None if not w["rules"] else w["rules"][0]["operations"]
        if h["filter"] != "other-resource" and h.get("ops_form", "list") == "list":
            res.reqs.append(("ruleops", ["C18.ruleops", _hj(h)], ["ok", rule_ops]))
    hint = case["webhook"]
    if case.get("hint_via_url") and hint is not None:
        for h, w in zip(case["handlers"], hooks):
            if h["id"] == hint:
                hint = decode_hook_id(w["clientConfig"]["url"])
                res.tags.append("hint-via-url")
                break
    op = case["operation"]
    payload: dict[str, Any] = {"uid": "uid1", "resource": {"group": "kopf.dev", "version": "v1", "resource": "kopfexamples"},
                               "userInfo": {"username": "u", "uid": "uu", "groups": []}, "name": "n", "namespace": "ns",
                               "subResource": case["subresource"], "dryRun": False}
    if op is not None:
        payload["operation"] = op
    if op == "DELETE":
        payload["object"], payload["oldObject"] = None, copy.deepcopy(body)
    elif op == "UPDATE":
        payload["object"], payload["oldObject"] = copy.deepcopy(body), copy.deepcopy(case.get("old_body", body))
        if "old_body" in case and not eq_strict(case["old_body"], body):
            res.tags.append("update:old-differs")
    else:
        payload["object"], payload["oldObject"] = copy.deepcopy(body), None
    if case.get("null_keys_absent"):
        payload = {k: v for k, v in payload.items() if v is not None or k not in ("object", "oldObject")}
    api_version = "admission.k8s.io/" + case.get("api", "v1")
    request = {"apiVersion": api_version, "kind": "AdmissionReview", "request": payload}
    resp, exc = None, None
    try:
        resp = await adm.serve_admission_request(
            request, settings=settings, registry=registry, insights=insights, memories=memories, memobase=object(),
            indices=indices, webhook=ids.HandlerId(hint) if hint is not None else None,
            reason=causes.WebhookType(case["reason"]) if case["reason"] is not None else None)
        if resp is not None:
            json.dumps(resp)   # what every webhook server does with it next
    except Exception as e:
        exc = e
    # ---- handler selection: oracle + gate tie. The criteria are the DECLARED ones, evaluated on the reviewed
    # object; a review sent to a handler's URL is a review FOR that handler (whatever id the URL decodes to).
    cj_all = {"reason": case["reason"], "webhook": case["webhook"], "operation": op, "subresource": case["subresource"]}
    cj = cj_all
    for seen in seen_bodies:
        if not eq_strict(seen, body):
            res.fail(f"a handler was given the body {leanio.canon(seen)[:300]}, the reviewed object is {leanio.canon(body)[:300]}",
                     {"site": "admission.serve_admission_request", "shape": "handlers see another object than the reviewed one"})
            break

    def criteria(h: dict) -> dict:
        mut_del = h["reason"] == "mutating" and op == "DELETE"
        return {
            "m": filter_bit(h, body),
            "hint_ok": (case["reason"] is None or case["reason"] == h["reason"]) and (case["webhook"] is None or case["webhook"] == h["id"]),
            "sub_ok": h["subresource"] == "*" or h["subresource"] == case["subresource"],
            "mut_del": mut_del,
            "opted_strict": h["operations"] is not None and set(h["operations"]) == {"DELETE"},
            "opted_lenient": h["operations"] is not None and "DELETE" in h["operations"],
            # (a review without an operation is malformed: nothing to match against; '*' admits everything)
            "op_ok": not h["operations"] or op is None or "*" in h["operations"] or op in h["operations"],
        }

    def matches(cr: dict, strict: bool) -> bool:
        return bool(cr["hint_ok"] and cr["sub_ok"] and cr["m"] and cr["op_ok"]
                    and (not cr["mut_del"] or cr["opted_strict" if strict else "opted_lenient"]))

    for key, group in groups.items():
        times = log.count(key)
        ran = times > 0
        crs = [criteria(h) for h in group]
        name = f"{key[1]} (function {key[0]}, {len(group)} registration(s))"
        if times > 1:
            res.fail(f"handler {name} was invoked {times} times for one review",
                     {"site": "registries._deduplicated", "shape": "function invoked more than once per review"})
        if len(group) == 1:
            h, cr = group[0], crs[0]
            if ran and not cr["hint_ok"]:
                res.fail(f"handler {name} ran against the webhook id/type hint", {"site": "WebhooksRegistry.iter_handlers", "shape": "ran despite webhook/reason hint"})
            if ran and not cr["sub_ok"]:
                res.fail(f"handler {name} (subresource={h['subresource']!r}) ran for subresource {case['subresource']!r}",
                         {"site": "registries._matches_subresource", "shape": "ran for a non-matching subresource"})
            if ran and not cr["m"]:
                res.fail(f"handler {name} ran although its filters do not match", {"site": "registries.match", "shape": "ran despite filters"})
            if ran and cr["mut_del"] and not cr["opted_lenient"]:
                res.fail(f"mutating handler {name} ran on DELETE without opting in",
                         {"site": "WebhooksRegistry.iter_handlers", "shape": "mutating handler ran on DELETE without opt-in"})
            if ran and not cr["op_ok"]:
                res.fail(f"handler {name} declared operations={h['operations']!r} but ran for operation {op!r}", SIG_OPS)
            res.reqs.append(("gate", ["C18.gate", _hj(h), cj, cr["m"]], ["ok", ran]))
        elif ran and not any(matches(cr, False) for cr in crs):
            # "only handlers matching … run": none of the stacked registrations of this function matches
            res.fail(f"handler {name} ran although none of its registrations matches the review",
                     {"site": "WebhooksRegistry.iter_handlers", "shape": "function ran although none of its registrations matches"})
        # …and conversely: a registration whose criteria hold gets its function invoked (dedup only AFTER matching)
        if not ran and any(matches(cr, True) for cr in crs):
            res.fail(f"handler {name} matches the request but did not run",
                     {"site": "WebhooksRegistry.iter_handlers", "shape": "matching handler did not run"})
        if len(group) > 1:
            res.tags.append("stacked:" + ("ran" if ran else "skipped") + (":first-reg-mismatch" if ran and not matches(crs[0], False) else ""))
        for h in group:
            res.tags.append(f"gate:{h['reason'][:3]}:{'del' if op == 'DELETE' else 'nondel'}:{'ran' if ran else 'skipped'}")
            res.tags.append(f"via:{h.get('via', 'direct')}:{h.get('ops_form', 'list') if h['operations'] else 'no-ops'}")
            if not re.fullmatch(r"h\d+", h["id"]):
                res.tags.append("id:special")
            if h["filter"] not in ("none",):
                res.tags.append("filter:" + h["filter"])
    # the whole selection (registry order, dedup after matching) against the model
    res.reqs.append(("select", ["C18.select", _entries(case, body), cj], ["ok", [list(k) for k in log]]))
    if len(groups) == len(case["handlers"]) and log != [_key(h) for h in case["handlers"] if _key(h) in log]:
        res.fail("handlers ran out of registry order", {"site": "admission.serve_admission_request", "shape": "execution order"})
    # ---- the patch: what the handlers that ran ASKED for (their declared writes, in order), not what is found
    # in some patch object afterwards
    content: dict = {}
    for k in log:
        for w in handler_writes(groups[k][0]):
            ref_write(content, w)
    fns_decl = [f for k in log for f in groups[k][0]["fns"]]
    fn_objs = mk_fns(env, fns_decl)
    raised_list = [declared_errinfo(groups[k][0]["error"]) if groups[k][0]["error"] is not None else None for k in log]
    for k in dict.fromkeys(log):
        res.tags.extend(groups[k][0].get("tags", []))
    if as_views and any(isinstance(v, dict) for v in content.values()):
        res.tags.append("non-dict-mapping")
    new_j = payload.get("object")
    old_j = payload.get("oldObject")
    if exc is not None:
        oracle_patch(res, body, content, fn_objs, None, exc)
        if not res.diff_suspect:
            res.reqs.append(("apply(serve error)", ["C18.apply", body, content, fns_decl], ["err", err_tag(exc)]))
            res.reqs.append(("serve", ["C18.review", _entries(case, body), cj_all, new_j, old_j, content, fns_decl, []],
                             ["err", err_tag(exc)]))
        res.tags.append("serve-raises")
        return res
    r = resp["response"]
    ops: list = []
    if "patch" in r:
        try:
            ops = json.loads(base64.b64decode(r["patch"]))
            if r.get("patchType") != "JSONPatch" or not isinstance(ops, list):
                raise ValueError("patchType")
        except Exception as e:
            res.fail(f"undecodable patch in the response: {e}", {"site": "admission.build_response", "shape": "patch encoding"})
            ops = []
    to_be = None
    try:
        tb = copy.deepcopy(body)
        pp = env["patches"].Patch(copy.deepcopy(content), fns=fn_objs)
        pp._apply_patch(tb, (), dict(pp))
        for fn in pp.fns:
            fn(tb)
        json.dumps(tb)
        to_be = tb
    except Exception:
        to_be = None
    got = oracle_patch(res, body, content, fn_objs, ops, None, to_be)
    if got is not None and (content or fns_decl) and not res.diff_suspect:
        res.reqs.append(("apply(serve json patch applied)", ["C18.apply", body, content, fns_decl], ["ok", got]))
    # ---- allowed / status / warnings
    # the property: EVERY selected handler's outcome counts (one outcome per invocation, also for same-id handlers)
    declared_warnings = [w for k in log for w in groups[k][0]["warnings"]]
    strict = Result()
    oracle_response(strict, resp, raised_list, declared_warnings)
    if strict.fails and len({k[1] for k in log}) < len(log):
        by_id: dict[str, Any] = {}
        for k, e in zip(log, raised_list):
            by_id[k[1]] = e
        lenient = Result()
        oracle_response(lenient, resp, list(by_id.values()), declared_warnings)
        if not lenient.fails:
            # the shape of the repaired C18-F6: the response is the one of an id-keyed outcomes dict
            lost = [k for k, e in zip(log, raised_list) if e is not None and by_id[k[1]] is not e]
            res.fail(f"{strict.fails[0][0]} — the outcome of {lost or log} was overwritten by a later handler with the same id",
                     SIG_SAMEID)
            strict.fails = []
    res.fails.extend(strict.fails)
    if len({k[1] for k in log}) < len(log):
        res.tags.append("same-id:two-functions-ran")
    if r.get("uid") != "uid1":
        res.fail("response uid differs from the request uid", {"site": "admission.build_response", "shape": "uid"})
    if resp.get("apiVersion") != api_version or resp.get("kind") != "AdmissionReview":
        # the apiserver rejects a response whose apiVersion/kind differ from the review it sent
        res.fail(f"the response is {resp.get('kind')!r} of {resp.get('apiVersion')!r}, the review was of {api_version!r}",
                 {"site": "admission.build_response", "shape": "apiVersion/kind not echoed"})
    if ("patch" in r) != bool(ops) or (r.get("patchType") == "JSONPatch") != ("patch" in r):
        res.fail("patch / patchType are not 'present exactly when there are operations'",
                 {"site": "admission.build_response", "shape": "patch encoding"})
    impl = _resp_view(r)
    res.reqs.append(("response(serve)", ["C18.response", raised_list, declared_warnings, ops], ["ok", impl]))
    res.reqs.append(("serve", ["C18.review", _entries(case, body), cj_all, new_j, old_j, content, fns_decl, ops], ["ok", impl]))
    if ops and not r.get("allowed"):
        res.tags.append("patch-on-denial")
    res.tags += sorted({"err:" + e["kind"] for e in raised_list if e})
    res.tags.append("op:" + str(op))
    res.tags.append("sub:" + str(case["subresource"]))
    res.tags.append("api:" + case.get("api", "v1"))
    if res.result == "ok":
        res.result = "allowed" if r.get("allowed") else "denied"
    return res


def gen_e2e_case(r: random.Random) -> dict:
    """reviews sent over HTTP to the URLs kopf configures, served by kopf's own WebhookServer"""
    n = r.randint(3, 7)
    hs = []
    for i in range(n):
        hid = r.choice(ID_FORMS[2:]).format(i)
        fld = r.random() < 0.25
        hs.append({"id": hid + (FIELD_SUFFIX if fld else ""), "field": fld, "reason": r.choice(["validating", "mutating"]),
                   "error": gen_error(r) if r.random() < 0.4 else None})
    return {"stream": "e2e", "handlers": hs, "path": r.choice(["/base", "/base", "", "/a/b"]),
            "stray": r.choice(["nobody", "h", "chk", "spec.a"])}


async def eval_e2e(env: dict, case: dict) -> Result:
    """The webhook id end to end: handler id -> URL in the managed configuration (build_webhooks) -> HTTP
    request -> kopf.WebhookServer's route -> `webhook=` of serve_admission_request -> the gate. A review
    sent to a handler's URL runs that handler and only that one, and is answered from ITS outcome."""
    import functools as ft
    import aiohttp
    res = Result()
    adm, kopf, references, registries = env["admission"], env["kopf"], env["references"], env["registries"]
    registry = registries.OperatorRegistry()
    ran: list[str] = []

    def mk(h: dict, i: int):
        async def fn(**_):
            ran.append(h["id"])
            if h["error"] is not None:
                raise mk_exception(env, h["error"])
        fn.__name__ = f"f{i}"
        return fn
    for i, h in enumerate(case["handlers"]):
        deco = kopf.on.validate if h["reason"] == "validating" else kopf.on.mutate
        given = h["id"][:-len(FIELD_SUFFIX)] if h["field"] else h["id"]
        deco("kopfexamples", id=given, field="spec.a" if h["field"] else None, registry=registry)(mk(h, i))
    resource = references.Resource("kopf.dev", "v1", "kopfexamples", namespaced=True)
    insights = references.Insights()
    insights.webhook_resources.add(resource)
    fn = ft.partial(adm.serve_admission_request, settings=env["configuration"].OperatorSettings(), registry=registry,
                    insights=insights, memories=env["inventory"].ResourceMemories(), memobase=object(),
                    indices=env["indexing"].OperatorIndexers().indices)
    review = {"apiVersion": "admission.k8s.io/v1", "kind": "AdmissionReview", "request": {
        "uid": "uid1", "operation": "CREATE", "resource": {"group": "kopf.dev", "version": "v1", "resource": "kopfexamples"},
        "userInfo": {"username": "u", "uid": "uu", "groups": []}, "name": "n", "namespace": "ns",
        "object": {"metadata": {"name": "n", "namespace": "ns"}, "spec": {"a": 1}}, "oldObject": None, "dryRun": False}}
    server = kopf.WebhookServer(addr="127.0.0.1", path=case["path"] or None, insecure=True)
    agen = server(fn).__aiter__()
    try:
        try:
            client_config = await agen.__anext__()
        except OSError:
            res.tags.append("server-unavailable")   # no loopback sockets here: nothing observed, nothing claimed
            res.result = "skipped"
            return res
        hooks = adm.build_webhooks(registry._webhooks.get_all_handlers(), resources=[resource], name_suffix="sfx",
                                   client_config=client_config)
        async with aiohttp.ClientSession(timeout=aiohttp.ClientTimeout(total=20)) as session:
            targets = [(h, w["clientConfig"]["url"]) for h, w in zip(case["handlers"], hooks)]
            targets.append((None, client_config["url"].rstrip("/") + "/" + case["stray"]))
            for h, url in targets:
                ran.clear()
                try:
                    async with session.post(url, json=review) as r:
                        status, text = r.status, await r.text()
                except (aiohttp.ClientConnectionError, asyncio.TimeoutError):
                    res.tags.append("transport-error")   # the loopback connection itself failed: no verdict
                    continue
                want_ran = [] if h is None else [h["id"]]
                what = f"the review POSTed to {url!r} (the URL configured for handler {h['id']!r})" if h is not None else \
                    f"the review POSTed to {url!r} (no handler of that id)"
                if status != 200:
                    res.fail(f"{what} is answered with HTTP {status}: {text[:200]}",
                             {"site": "kopf.WebhookServer", "shape": "review to a configured URL not served"})
                    continue
                if ran != want_ran:
                    res.fail(f"{what} ran the handlers {ran!r}, expected {want_ran!r}",
                             {"site": "admission.build_webhooks", "shape": "the webhook URL does not lead back to the handler id"})
                    continue
                sub = Result()
                err = declared_errinfo(h["error"]) if h is not None and h["error"] is not None else None
                oracle_response(sub, json.loads(text), [err] if h is not None else [], [])
                res.fails.extend(sub.fails)
                res.tags.append("e2e:" + ("stray" if h is None else "denied" if err else "allowed"))
                if h is not None and not re.fullmatch(r"h\d+", h["id"]):
                    res.tags.append("id:special")
    finally:
        await agen.aclose()
    return res


async def eval_case(env: dict, case: dict) -> Result:
    s = case.get("stream")
    if s == "e2e":
        return await eval_e2e(env, case)
    if s == "patch":
        return eval_patch(env, case)
    if s == "response":
        return eval_response(env, case)
    if s == "serve":
        return await eval_serve(env, case)
    raise ValueError(f"unknown stream {s!r}")


# =================================================================================================
# shards (also used through multiprocessing), run / search / replay
# =================================================================================================
def gen_case(r: random.Random) -> dict:
    x = r.random()
    if x < 0.004:
        return gen_e2e_case(r)
    if x < 0.09:
        return gen_quiet_patch_case(r)
    if x < 0.60:
        return gen_patch_case(r)
    if x < 0.88:
        return gen_serve_case(r)
    return gen_response_case(r)


def run_shard(args: tuple[str, int, list | None]) -> dict:
    seed, n, fixed = args
    env = kopf_env()
    r = random.Random(seed)
    out: dict[str, Any] = {"reqs": [], "fails": [], "hist": {}, "keys": {}, "samples": [], "n": 0}

    def count(group: str, tag: str) -> None:
        g = out["hist"].setdefault(group, {})
        g[tag] = g.get(tag, 0) + 1

    async def go() -> None:
        cases = fixed if fixed is not None else (gen_case(r) for _ in range(n))
        for case in cases:
            res = await eval_case(env, case)
            out["n"] += 1
            stream = case["stream"]
            count("stream", stream)
            count(f"result:{stream}", res.result)
            for t in set(res.tags):
                count(f"tags:{stream}", t)
            if stream == "patch":
                count("patch:depth", str(_depth(case["patch"])))
                count("patch:body-keys", str(min(len(case["body"]), 8)))
            if stream == "serve":
                count("serve:handlers", str(len(case["handlers"])))
            key = leanio.canon([stream, sorted(set(res.tags)), res.result])
            nontrivial = bool(res.tags) or res.result not in ("ok", "allowed")
            if nontrivial and key not in out["keys"]:
                out["keys"][key] = 1
            if len(out["samples"]) < 2 and nontrivial:
                out["samples"].append(case)
            for what, sig in res.fails:
                out["fails"].append((what, sig, case))
            for what, req, impl in res.reqs:
                if has_float(req):
                    # the model's JSON numbers are integers: cases with a float go through the real code and the
                    # oracle only (counted, not compared)
                    count("tie-skipped", "float:" + what.split("(")[0])
                    continue
                out["reqs"].append((what, req, impl, case))
    asyncio.run(go())
    return out


def _depth(x: Any) -> int:
    return 1 + max((_depth(v) for v in x.values()), default=0) if isinstance(x, dict) else 0


def absorb(ctx: Ctx, out: dict, ask: bool = True) -> None:
    for g, d in out["hist"].items():
        for t, c in d.items():
            ctx.count(g, t, c)
    for k in out["keys"]:
        ctx.nontrivial.add(k)
    ctx.evaluations += out["n"]
    for s in out["samples"]:
        if len(ctx.samples) < 6:
            ctx.samples.append(s)
    per_sig = ctx.extra.setdefault("oracle_failures_by_signature", {})
    for what, sig, case in out["fails"]:
        k = leanio.canon(sig)
        per_sig[k] = per_sig.get(k, 0) + 1
        if per_sig[k] <= 3:
            ctx.oracle_fail(what, _rp(case), sig)
    if not ask or not out["reqs"]:
        return
    try:
        answers = ctx.driver.ask([r[1] for r in out["reqs"]])
    except leanio.LeanError as e:
        # the driver process itself did not run (toolchain / shared Driver.lean problem): exit 2, not a verdict
        raise RuntimeError(f"Lean driver failed: {e}\n{e.log[-2000:]}")
    for (what, req, impl, case), ans in zip(out["reqs"], answers):
        ctx.compare(f"C18 {what}", impl, ans, {**_rp(case), "request": req})
        ctx.count("tie", what.split("(")[0])
    ctx.traces += len(answers)


def _rp(case: dict) -> dict:
    """replay payload; `case_json` keeps the key order (core writes replays with sorted keys, and the
    order of dict keys decides the order of the operations jsonpatch emits)."""
    return {"case": case, "case_json": json.dumps(case, ensure_ascii=False)}


def _case_of(d: dict) -> dict | None:
    if not isinstance(d, dict):
        return None
    if "case_json" in d:
        return json.loads(d["case_json"])
    return d.get("case")


def corpus_cases() -> list[dict]:
    return [c for c in (_case_of(data) for _, data in load_corpus(ID)) if c is not None]


def run(ctx: Ctx) -> None:
    absorb(ctx, run_shard((f"corpus-{ctx.seed}", 0, corpus_cases())))
    total = ctx.budget(5000, 200000)
    if ctx.tier != "thorough":
        absorb(ctx, run_shard((f"C18-{ctx.seed}-0", total, None)))
        return
    import multiprocessing
    workers = min(16, os.cpu_count() or 4)
    per = 5000
    shards = [(f"C18-{ctx.seed}-{i}", per, None) for i in range((total + per - 1) // per)]
    with multiprocessing.get_context("fork").Pool(workers) as pool:
        for out in pool.imap_unordered(run_shard, shards):
            absorb(ctx, out)


def search(ctx: Ctx, broken: list) -> None:
    """A proof/tie is broken and the oracle saw nothing yet: larger budget, oracle only."""
    n = ctx.budget(50000, 400000)
    out = run_shard((f"search-{ctx.seed}", n, None))
    absorb(ctx, out, ask=False)


def replay(ctx: Ctx, data: dict) -> None:
    rp = data.get("replay") or {}
    case = _case_of(rp) or _case_of(rp.get("input") or {}) or _case_of((data.get("first") or {}).get("input") or {})
    if case is None:
        run(ctx)
        return
    absorb(ctx, run_shard(("replay", 0, [case])))
